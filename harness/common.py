"""Shared plumbing for every property check.

Responsibilities (DESIGN.md sections 2-4 and 11):
  * regenerate Gen/Constants.lean from /repo and (re)build the Lean obligations of one
    property under a file lock (checks may run in parallel);
  * hygiene grep + axiom audit of the property's theorems;
  * line protocol client for the compiled Lean model driver;
  * bookkeeping of compared cases, disagreements (model vs implementation) and oracle
    failures (property vs implementation), known-findings matching, shrinking hooks,
    replay files, evidence file, verdict lines and exit code.

Exit codes: 0 property held (possibly with KNOWN-FINDING lines), 1 VIOLATION, 2 infrastructure.
"""
from __future__ import annotations

import contextlib
import fcntl
import hashlib
import json
import os
import random
import re
import subprocess
import sys
import time
import traceback

VERIF = os.path.dirname(os.path.dirname(os.path.abspath(__file__)))
LEAN = os.path.join(VERIF, "lean")
REPO = os.environ.get("ST4SD_REPO", "/repo")
ALLOWED_AXIOMS = {"propext", "Classical.choice", "Quot.sound"}
HYGIENE = re.compile(r"\b(sorry|admit|native_decide|bv_decide|implemented_by)\b|^\s*axiom\s|\bunsafe\s|maxHeartbeats\s+0\b")

TRUSTED_BASE_COMMON = [
    "Lean 4.33.0 kernel (leanchecker re-check in the thorough tier)",
    "axioms allowed per theorem: propext, Classical.choice, Quot.sound (audited on every run); no native_decide/bv_decide/sorry/own axioms",
    "hand-written Lean model of the anchored Python code; tie = differential correspondence run on this invocation (harness/common.py + harness/cXX.py)",
    "Python harness: generators, canonicalisers, monkey-patched runtime stand-ins, ast-based constant extractor (harness/genconst.py)",
]


class InfraError(Exception):
    pass


def canon(x):
    """Canonical JSON text (sorted keys) used for hashing / distinct counting."""
    return json.dumps(x, sort_keys=True, ensure_ascii=True, default=str)


def digest(x) -> str:
    return hashlib.sha1(canon(x).encode()).hexdigest()[:16]


# ---------------------------------------------------------------------------------------
# Lean side
# ---------------------------------------------------------------------------------------

@contextlib.contextmanager
def build_lock():
    path = os.path.join(LEAN, ".build.lock")
    with open(path, "w") as fh:
        fcntl.flock(fh, fcntl.LOCK_EX)
        try:
            yield
        finally:
            fcntl.flock(fh, fcntl.LOCK_UN)


def _strip_comments(text: str) -> str:
    # remove /- ... -/ (nested not handled beyond one level: good enough, doc-comments included) and -- comments
    out = []
    i = 0
    depth = 0
    n = len(text)
    while i < n:
        if text.startswith("/-", i):
            depth += 1
            i += 2
            continue
        if depth and text.startswith("-/", i):
            depth -= 1
            i += 2
            continue
        if depth:
            if text[i] == "\n":
                out.append("\n")
            i += 1
            continue
        if text.startswith("--", i):
            while i < n and text[i] != "\n":
                i += 1
            continue
        out.append(text[i])
        i += 1
    return "".join(out)


def _module_path(mod: str):
    return os.path.join(LEAN, *mod.split(".")) + ".lean"


def lean_files_for(prop: str):
    """Lean sources in the import closure of the property's Props/Witness modules and driver
    (only modules of this project: St4sd.* and Drivers.*)."""
    roots = ["St4sd.Props." + prop, "St4sd.Witness." + prop, "Drivers." + prop]
    seen, order, todo = set(), [], [r for r in roots if os.path.exists(_module_path(r))]
    while todo:
        m = todo.pop()
        if m in seen:
            continue
        seen.add(m)
        path = _module_path(m)
        if not os.path.exists(path):
            continue
        order.append(path)
        for imp in re.findall(r"^\s*(?:public\s+)?import\s+((?:St4sd|Drivers)\.[A-Za-z0-9_.]+)", open(path).read(), flags=re.M):
            if imp not in seen:
                todo.append(imp)
    return sorted(order)


def hygiene_hits(prop: str):
    hits = []
    for f in lean_files_for(prop):
        txt = _strip_comments(open(f).read())
        for ln, line in enumerate(txt.splitlines(), 1):
            if HYGIENE.search(line):
                hits.append("%s:%d: %s" % (os.path.relpath(f, LEAN), ln, line.strip()))
    return hits


def declared_theorems(prop: str):
    names = set()
    for sub in ("Props", "Witness"):
        f = os.path.join(LEAN, "St4sd", sub, prop + ".lean")
        if os.path.exists(f):
            txt = _strip_comments(open(f).read())
            names.update(re.findall(r"^\s*(?:private\s+|protected\s+)?theorem\s+([^\s:({\[]+)", txt, flags=re.M))
    return names


def count_examples(prop: str) -> int:
    n = 0
    for sub in ("Props", "Witness"):
        f = os.path.join(LEAN, "St4sd", sub, prop + ".lean")
        if os.path.exists(f):
            txt = _strip_comments(open(f).read())
            n += len(re.findall(r"^\s*example\b", txt, flags=re.M))
    return n


AUDIT_TEMPLATE = """import Lean
{imports}
open Lean Elab Command in
run_cmd do
  let env ← getEnv
  for m in [{mods}] do
    let some idx := env.getModuleIdx? m | throwError "no module {{m}}"
    for c in env.header.moduleData[idx.toNat]!.constNames do
      if let some (.thmInfo _) := env.find? c then
        if !c.isInternalDetail then
          let ax ← Lean.collectAxioms c
          logInfo m!"AUDIT {{c}} :: {{ax.toList}}"
"""


def run(cmd, cwd=None, timeout=None, env=None):
    p = subprocess.run(cmd, cwd=cwd, stdout=subprocess.PIPE, stderr=subprocess.STDOUT, text=True,
                       timeout=timeout, env=env)
    return p.returncode, p.stdout


def prop_modules(prop: str):
    mods = []
    for sub in ("Props", "Witness"):
        if os.path.exists(os.path.join(LEAN, "St4sd", sub, prop + ".lean")):
            mods.append("St4sd.%s.%s" % (sub, prop))
    return mods


def build_and_audit(prop: str, tier: str):
    """Regenerate constants, build the property's modules and driver, audit axioms.

    Returns dict(build_ok, build_log, failed_theorems, obligations, discharged, axioms,
    hygiene, checker_cmd, driver)."""
    from harness import genconst
    res = dict(build_ok=False, build_log="", failed=[], obligations=0, discharged=0, axioms={},
               hygiene=[], checker_cmd="", driver=None, theorems=[], bad_axioms={})
    mods = prop_modules(prop)
    exe = "drv-" + prop.lower()
    targets = mods + [exe]
    cmd = ["lake", "build"] + targets
    res["checker_cmd"] = "cd lean && " + " ".join(cmd)
    t0 = time.time()
    with build_lock():
        genconst.regenerate(prop)
        rc, out = run(cmd, cwd=LEAN, timeout=3600)
        res["build_log"] = out[-20000:]
        res["build_s"] = round(time.time() - t0, 1)
        if rc == 0:
            res["build_ok"] = True
        else:
            # which modules / theorems failed
            res["failed"] = sorted(set(re.findall(r"error: ([^\n]*)", out)))[:40]
            # still try to get the driver (model) if it builds without the proofs
            rc2, _ = run(["lake", "build", exe], cwd=LEAN, timeout=3600)
        drv = os.path.join(LEAN, ".lake", "build", "bin", exe)
        if os.path.exists(drv) and (rc == 0 or rc2 == 0):
            res["driver"] = drv
        # audit
        res["hygiene"] = hygiene_hits(prop)
        if res["build_ok"] and mods:
            src = AUDIT_TEMPLATE.format(imports="\n".join("import " + m for m in mods),
                                        mods=", ".join("`" + m for m in mods))
            apath = os.path.join(LEAN, ".lake", "audit_%s.lean" % prop)
            with open(apath, "w") as fh:
                fh.write(src)
            rc3, aout = run(["lake", "env", "lean", apath], cwd=LEAN, timeout=1800)
            res["checker_cmd"] += " && lake env lean .lake/audit_%s.lean  # collectAxioms on every theorem" % prop
            if rc3 != 0:
                res["build_ok"] = False
                res["failed"].append("audit failed: " + aout[-2000:])
            declared = declared_theorems(prop)
            for m in re.finditer(r"AUDIT (\S+) :: \[(.*?)\]", aout):
                name = m.group(1)
                # only theorems written in the property's files count as obligations (not the equation
                # lemmas / recursors Lean generates for local definitions)
                if not any(name == d or name.endswith("." + d) for d in declared):
                    continue
                axs = [a.strip() for a in m.group(2).split(",") if a.strip()]
                res["axioms"][name] = axs
                res["theorems"].append(name)
                bad = [a for a in axs if a not in ALLOWED_AXIOMS]
                if bad:
                    res["bad_axioms"][name] = bad
            if tier == "thorough":
                rc4, cout = run(["lake", "env", "leanchecker"] + mods, cwd=LEAN, timeout=3600)
                res["checker_cmd"] += " && lake env leanchecker " + " ".join(mods)
                res["leanchecker_ok"] = (rc4 == 0)
                if rc4 != 0:
                    res["build_ok"] = False
                    res["failed"].append("leanchecker: " + cout[-2000:])
    n_ex = count_examples(prop)
    res["obligations"] = len(res["theorems"]) + n_ex
    if res["build_ok"]:
        res["discharged"] = len([t for t in res["theorems"] if t not in res["bad_axioms"]]) + n_ex
    else:
        # count declared theorems textually so that obligations is still meaningful
        n_thm = 0
        for sub in ("Props", "Witness"):
            f = os.path.join(LEAN, "St4sd", sub, prop + ".lean")
            if os.path.exists(f):
                n_thm += len(re.findall(r"^\s*theorem\b", _strip_comments(open(f).read()), flags=re.M))
        res["obligations"] = n_thm + n_ex
        res["discharged"] = 0
    return res


class Driver:
    """Batch client of a compiled Lean model driver (one JSON per line each way)."""

    def __init__(self, path):
        self.path = path

    def ask(self, requests, timeout=1800):
        if not requests:
            return []
        data = "\n".join(json.dumps(r, ensure_ascii=True) for r in requests) + "\n"
        p = subprocess.run([self.path], input=data, stdout=subprocess.PIPE, stderr=subprocess.PIPE, text=True,
                           timeout=timeout)
        if p.returncode != 0:
            raise InfraError("model driver exited %s: %s" % (p.returncode, p.stderr[-2000:]))
        lines = [l for l in p.stdout.split("\n") if l.strip()]
        if len(lines) != len(requests):
            raise InfraError("model driver answered %d lines for %d requests; stderr=%s" % (
                len(lines), len(requests), p.stderr[-2000:]))
        outs = [json.loads(l) for l in lines]
        for r, o in zip(requests, outs):
            if isinstance(o, dict) and "driver_error" in o:
                raise InfraError("model driver rejected request %s: %s" % (canon(r)[:400], o["driver_error"]))
        return outs


# ---------------------------------------------------------------------------------------
# Known findings
# ---------------------------------------------------------------------------------------

def load_known(prop):
    path = os.path.join(VERIF, "known_findings.json")
    if not os.path.exists(path):
        return []
    doc = json.load(open(path))
    return [e for e in doc.get("findings", []) if e.get("property") == prop and e.get("status") == "known"]


# ---------------------------------------------------------------------------------------
# Generic shrinking helpers
# ---------------------------------------------------------------------------------------

def shrink_list(items, still_fails, max_steps=400):
    """ddmin-like: remove chunks while the predicate stays true."""
    items = list(items)
    steps = 0
    n = 2
    while len(items) >= 1 and steps < max_steps:
        chunk = max(1, len(items) // n)
        removed = False
        i = 0
        while i < len(items) and steps < max_steps:
            cand = items[:i] + items[i + chunk:]
            steps += 1
            try:
                ok = still_fails(cand)
            except Exception:
                ok = False
            if ok:
                items = cand
                removed = True
            else:
                i += chunk
        if not removed:
            if chunk == 1:
                break
            n = min(len(items), n * 2)
    return items


def shrink_str(s, still_fails, max_steps=400):
    return "".join(shrink_list(list(s), lambda cs: still_fails("".join(cs)), max_steps))


# ---------------------------------------------------------------------------------------
# Context
# ---------------------------------------------------------------------------------------

class Ctx:
    def __init__(self, prop, tier, seed, level="proof"):
        self.prop = prop
        self.tier = tier
        self.seed = seed
        self.level = level
        self.rng = random.Random("%s/%s" % (prop, seed))
        self.t0 = time.time()
        self.build = None
        self.driver = None
        self.evaluations = 0
        self.distinct = set()
        self.nontrivial = set()
        self.samples = []
        self.tags = {}
        self.disagreements = []   # (relation, case, model_out, impl_out)
        self.failures = []        # (what, case, detail)
        self.known_matched = {}
        self._known = None
        self.n_failures = 0
        self.rule = ""
        self.extra = {}
        self.assumptions = []
        self.trusted = list(TRUSTED_BASE_COMMON)
        self.exhaustive = False
        self.classifiers = {}
        self.shrinker = None      # fn(what, case) -> smaller case (must still fail)
        self.disagreements_checked = 0
        self.notes = []

    # -- lean ---------------------------------------------------------------------------
    def prepare(self):
        self.build = build_and_audit(self.prop, self.tier)
        if self.build["driver"]:
            self.driver = Driver(self.build["driver"])
        return self.build["build_ok"]

    def model(self, requests):
        if self.driver is None:
            return None
        return self.driver.ask(requests)

    # -- bookkeeping --------------------------------------------------------------------
    def case(self, case, nontrivial=True, tags=()):
        self.evaluations += 1
        d = digest(case)
        self.distinct.add(d)
        if nontrivial:
            self.nontrivial.add(d)
        for t in tags:
            self.tags[t] = self.tags.get(t, 0) + 1
        if len(self.samples) < 5 and (nontrivial or self.evaluations < 3):
            self.samples.append(case)

    def tag(self, t, n=1):
        self.tags[t] = self.tags.get(t, 0) + n

    def compare(self, relation, case, model_out, impl_out):
        """Record one model-vs-implementation comparison; returns True when equal."""
        self.disagreements_checked += 1
        if canon(model_out) != canon(impl_out):
            if len(self.disagreements) < 50:
                self.disagreements.append((relation, case, model_out, impl_out))
            else:
                self.extra["disagreements_dropped"] = self.extra.get("disagreements_dropped", 0) + 1
            return False
        return True

    def _match_known(self, what, case, detail):
        if self._known is None:
            self._known = load_known(self.prop)
        for e in self._known:
            fn = self.classifiers.get(e.get("classifier"))
            try:
                if fn is not None and fn(what, case, detail):
                    return e
            except Exception:
                pass
        return None

    def fail(self, what, case, detail=None):
        """The property oracle failed on the real implementation for this case.

        Failures accepted by the classifier of a `known` entry are only counted (they can never crowd
        unmatched failures out of the bounded list)."""
        self.n_failures += 1
        hit = self._match_known(what, case, detail)
        if hit is not None:
            self.known_matched[hit["id"]] = self.known_matched.get(hit["id"], 0) + 1
            return
        if len(self.failures) < 200:
            self.failures.append((what, case, detail))
        else:
            self.extra["failures_dropped"] = self.extra.get("failures_dropped", 0) + 1

    # -- verdict ------------------------------------------------------------------------
    def _write_replay(self, n, doc):
        os.makedirs(os.path.join(VERIF, "replays"), exist_ok=True)
        rel = "replays/%s-%s-%d.json" % (self.prop, self.seed, n)
        with open(os.path.join(VERIF, rel), "w") as fh:
            json.dump(doc, fh, indent=1, sort_keys=True, default=str)
        return rel

    def finish(self):
        known = load_known(self.prop)
        lines = []
        unmatched = list(self.failures)
        for e in known:
            if e["id"] in self.known_matched:
                lines.append("KNOWN-FINDING: property=%s %s (%s; %d failing cases this run)" % (
                    self.prop, e["what"], e["id"], self.known_matched[e["id"]]))
        violations = 0
        nrep = 0
        build = self.build or dict(build_ok=True, failed=[], hygiene=[], bad_axioms={}, obligations=0,
                                   discharged=0, checker_cmd="", axioms={}, build_log="")
        proof_broken = (not build["build_ok"]) or bool(build["hygiene"]) or bool(build["bad_axioms"])
        if unmatched:
            # concrete failing inputs: report distinct `what`s (at most 5 replays)
            seen = set()
            for what, case, detail in unmatched:
                if what in seen:
                    continue
                seen.add(what)
                if self.shrinker is not None:
                    try:
                        case2 = self.shrinker(what, case)
                        if case2 is not None:
                            case = case2
                    except Exception:
                        self.notes.append("shrinker raised: " + traceback.format_exc()[-500:])
                nrep += 1
                rel = self._write_replay(nrep, dict(property=self.prop, kind="failing-input", what=what, input=case,
                                                    detail=detail, seed=self.seed, tier=self.tier,
                                                    how_to_replay="./check %s --replay <this file>" % self.prop))
                lines.append("VIOLATION property=%s replay=%s" % (self.prop, rel))
                violations += 1
                if nrep >= 5:
                    break
        elif self.disagreements or proof_broken:
            broken = []
            if not build["build_ok"]:
                broken.append(dict(kind="theorem", names=build["failed"], log_tail=build["build_log"][-4000:]))
            if build["hygiene"]:
                broken.append(dict(kind="hygiene", hits=build["hygiene"]))
            if build["bad_axioms"]:
                broken.append(dict(kind="axioms", theorems=build["bad_axioms"]))
            for rel_, case, mo, io in self.disagreements[:5]:
                broken.append(dict(kind="correspondence", relation=rel_, input=case, model_out=mo, impl_out=io))
            nrep += 1
            rel = self._write_replay(nrep, dict(property=self.prop, kind="no-failing-input-found",
                                                no_longer_checks=broken, seed=self.seed, tier=self.tier,
                                                searched=dict(cases=self.evaluations,
                                                              oracle_failures_unmatched=0),
                                                how_to_replay="./check %s --replay <this file>" % self.prop))
            lines.append("VIOLATION property=%s replay=%s no-failing-input-found" % (self.prop, rel))
            violations += 1
        # evidence
        cov = dict(
            obligations=build["obligations"], discharged=build["discharged"],
            checker_cmd=build["checker_cmd"] or "none", trusted_base=self.trusted,
            evaluations=self.evaluations, distinct_nontrivial=len(self.nontrivial),
            distinct=len(self.distinct), rule=self.rule, samples=self.samples[:5],
            branch_hits=self.tags, disagreements_checked=self.disagreements_checked,
            disagreements=len(self.disagreements), oracle_failures=self.n_failures,
            known_findings_matched=self.known_matched, exhaustive=self.exhaustive,
            theorems=sorted(build.get("axioms", {}).keys()),
            axioms_used=sorted({a for v in build.get("axioms", {}).values() for a in v}),
            build_ok=build["build_ok"], notes=self.notes,
        )
        cov.update(self.extra)
        ev = dict(property_id=self.prop, tier=self.tier, seed=self.seed, level=self.level, coverage=cov,
                  assumptions=self.assumptions, wall_s=round(time.time() - self.t0, 2), violations=violations)
        # VERIF_EVIDENCE_DIR: only used by tools/seedtest.py so that runs against seeded changes do not
        # overwrite the evidence of the registered checks (which always write to /verif/evidence)
        evdir = os.environ.get("VERIF_EVIDENCE_DIR") or os.path.join(VERIF, "evidence")
        os.makedirs(evdir, exist_ok=True)
        tmp = os.path.join(evdir, ".%s.json.%d" % (self.prop, os.getpid()))
        with open(tmp, "w") as fh:
            json.dump(ev, fh, indent=1, sort_keys=True, default=str)
        os.replace(tmp, os.path.join(evdir, self.prop + ".json"))
        for l in lines:
            print(l)
        print("%s %s tier=%s seed=%s obligations=%d discharged=%d cases=%d nontrivial=%d disagreements=%d "
              "oracle_failures=%d known=%s wall=%.1fs" % (
                  "FAIL" if violations else "OK", self.prop, self.tier, self.seed, cov["obligations"],
                  cov["discharged"], self.evaluations, len(self.nontrivial), len(self.disagreements),
                  self.n_failures, dict(self.known_matched), time.time() - self.t0))
        sys.stdout.flush()
        return 1 if violations else 0
