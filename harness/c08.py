"""C08 - Configuration queries always reflect the latest updates.

Implementation under test (real code, in-process): one FlowIRConcrete per history, driven through its
mutators (set/delete component variables and options, global / stage / platform variables, add / replace /
delete components) with get_component_configuration(..., raw=False, include_default=True, platform=P)
queries interleaved.
Model: lean/St4sd/Model/Cache.lean via drv-c08 (state = description + cache).  Theorems: Props/C08.lean.

Oracle (model independent): after an operation, the configuration of every component on every platform
must equal the one computed by a from-scratch FlowIRConcrete(raw(), platform, documents); every returned
dictionary is mutated in place and the query repeated (private-copy clause, decided here only).

Read-only operations are part of the histories: get_component_configuration with every combination of raw /
include_default / is_primitive / inject_missing_fields (answers compared with the model), instance(),
replicate(), raw(), copy(), the component / blueprint / variable getters (answers not modelled, every returned
object is scribbled on), the reference getters without a write, and writes through the reference getters.
A twin object receives ONLY the updates of the history: at every point the description of the object under
test must equal the twin's, and at the sweep points every answer must equal the one of a fresh object built
from the twin's description (read-only operations never change a later answer).

Values: every setter is also given the value the description already holds there, a scalar that is == to it in
Python but another document (1 / 1.0 / True, 0 / 0.0 / False, 2 / 2.0), string spellings ("1", "1.0", "True"),
the falsy ones ("", 0, None); a systematic stream does set(x) - ask everything - set(y) - ask everything for every
setter x scope and every such pair, and replaces components by bodies that are == the old ones.

Second layer (harness/c08_graph.py, model CacheViews.grun): the same histories on a real experiment graph
(WorkflowGraph.graphFromFlowIR primitive / replicated / raw, tests.utils.experiment_from_flowir), reads and updates
through ComponentSpecification (of the graph and of its replicate()/primitive() sibling), the node accessors,
WorkflowGraph, FlowIRExperimentConfiguration, Job and FlowIRConcrete; after every read the answer must be the
corresponding part of a from-scratch resolution of the current description.
"""
from __future__ import annotations

import contextlib
import copy
import json
import logging
import re
import sys

import shutil
import tempfile

from harness import c04 as K
from harness import c08_graph as GL
from harness.common import shrink_list, canon

FUEL = 400
PLATFORMS = ["default", "p"]
PLAIN_NAMES = ["c0", "c1", "d", "c", "c00"]
META_NAMES = ["a+b", "a.b", "x*", "a?b", "a|b", "x(y", "[ab]", "a{2}", "c$", "a\\d"]
VARS = ["x", "y", "g", "s"]
VALUES = ["1", "2", "vv", 7, True, "%(x)s", "%(g)s", "%(s)s-%(g)s", "", 2.5, "%(nowhere)s"]
# values that compare equal in Python (1 == 1.0 == True, 0 == 0.0 == False, hash-equal too) but are different
# scalars of the description (different repr, different text after interpolation), their string spellings, the
# falsy ones, and None: a setter must never take `new == old` for "nothing changes"
EQ_CLASSES = [[0, 0.0, False], [1, 1.0, True], [2, 2.0], [-1, -1.0]]
EDGE_VALUES = [0, 0.0, False, "", "0", 1, 1.0, True, "1", "1.0", "True", None, "False", "0.0", 2, 2.0, "None", -1, -1.0]
ROUTES = ["#command.arguments", "#command.environment", "#command.executable", "#resourceRequest.numberProcesses",
          "#workflowAttributes.replicate", "#resourceManager.config.backend", "x", "y", "#variables.x",
          "#variables.y", "#workflowAttributes.maxRestarts", "#workflowAttributes.aggregate",
          "#resourceManager.config.walltime", "#resourceRequest.memory"]
ROUTE_VALUES = ["-a %(x)s", "%(g)s", "plain", 3, "4", "%(y)s", None, ["in:ref"]]


def twin_values(v):
    """the other scalars that compare (and hash) equal to `v` in Python but are written differently"""
    if isinstance(v, (bool, int, float)):
        for cls in EQ_CLASSES:
            if any(v == w for w in cls):
                return [w for w in cls if repr(w) != repr(v)]
    return []


def pick_value(rng, cur, slot, pool):
    """value for a setter call on `slot` (what the description holds there now is `cur[slot]`, if known):
    the same value again, a scalar that is == but not the same, an edge value, or one of the ordinary pool"""
    r = rng.random()
    if slot in cur and r < 0.30:
        tw = twin_values(cur[slot])
        v = rng.choice(tw) if tw and rng.random() < 0.8 else cur[slot]
    elif r < 0.55:
        v = rng.choice(EDGE_VALUES)
    else:
        v = rng.choice(pool)
    cur[slot] = v
    return copy.deepcopy(v)


def initial_slots(doc):
    cur = {}
    for P, b in doc["variables"].items():
        for k, v in (b.get("global") or {}).items():
            cur[("glob", P, k)] = v
        for i, vs in (b.get("stages") or {}).items():
            for k, v in (vs or {}).items():
                cur[("stage", P, i, k)] = v
    for c in doc["components"]:
        note_body(cur, c)
    return cur


def note_body(cur, c):
    i, n = c["stage"], c["name"]
    for k in [s for s in cur if s[0] in ("comp", "opt") and s[1:3] == (i, n)]:
        del cur[k]
    for k, v in c.get("variables", {}).items():
        cur[("comp", i, n, k)] = v
    for sec in ("command", "resourceRequest", "workflowAttributes"):
        for k, v in (c.get(sec) or {}).items():
            cur[("opt", i, n, "#%s.%s" % (sec, k))] = v
    for k, v in ((c.get("resourceManager") or {}).get("config") or {}).items():
        cur[("opt", i, n, "#resourceManager.config.%s" % k)] = v


def route_slot(i, n, route):
    if "#" not in route:
        return ("comp", i, n, route)
    if route.startswith("#variables."):
        return ("comp", i, n, route[len("#variables."):])
    return ("opt", i, n, route)


def _F():
    return K._F()


def body(name, stage, rng=None, flavour=0):
    b = {"stage": stage, "name": name,
         "command": {"executable": "echo", "arguments": ["%(x)s %(g)s", "%(x)s", "%(s)s/%(g)s", "lit"][flavour % 4]},
         "variables": {"x": "X%d" % flavour}, "references": []}
    # numbers / booleans as they come out of a YAML file (1, 1.0 and true are three different documents)
    b["variables"]["y"] = [1, 0, 1.0, True, False, 0.0, "1", 2][flavour % 8]
    if flavour % 4 == 3:
        b["command"]["arguments"] = "lit %(y)s"
    if flavour % 4 == 2:
        # options of sections that only the stage-scoped blueprints mention
        b["resourceManager"] = {"config": {"walltime": 5 + flavour}}
        b["workflowAttributes"] = {"maxRestarts": flavour}
    if flavour % 3 == 1:
        b["resourceRequest"] = {"numberProcesses": "%(x)s" if flavour % 2 else 2}
        b["variables"]["x"] = "3" if flavour % 4 else 1
    if flavour % 5 == 2:
        b["override"] = {"p": {"command": {"arguments": "on-p %(g)s"}, "variables": {"x": "XP"}}}
    return b


def base_doc(names):
    comps = []
    for k, n in enumerate(names):
        comps.append(body(n, k % 2, flavour=k))
    return {
        "platforms": list(PLATFORMS),
        "blueprint": {"default": {"global": {"command": {"environment": "%(g)s"}},
                                  "stages": {0: {"resourceManager": {"config": {"walltime": 30}},
                                                 "resourceRequest": {"numberThreads": 2}},
                                             1: {"workflowAttributes": {"maxRestarts": 3, "shutdownOn": ["KnownIssue"]}}}},
                      "p": {"global": {"resourceManager": {"config": {"backend": "%(s)s"}}},
                            "stages": {0: {"workflowAttributes": {"maxRestarts": 4}},
                                       1: {"resourceRequest": {"numberProcesses": 3}, "custom": {"k": "%(g)s"}}}}},
        "variables": {"default": {"global": {"g": "G", "s": "local"}, "stages": {0: {"s": "local"}, 1: {}}},
                      "p": {"global": {"g": "GP"}, "stages": {0: {}, 1: {"s": "lsf"}}}},
        "components": comps,
    }


def gen_history(rng, length, meta, share="random"):
    pool = list(PLAIN_NAMES) + (rng.sample(META_NAMES, 3) if meta else [])
    names = rng.sample(pool, 3) if not meta else rng.sample(META_NAMES, 2) + rng.sample(PLAIN_NAMES, 1)
    doc = base_doc(names)
    live = {n: k % 2 for k, n in enumerate(names)}
    cur = initial_slots(doc)
    ops = []
    flav = 3
    val = lambda slot: pick_value(rng, cur, slot, VALUES)
    # the caller's dictionaries: "add" = components are stamped out of 1-2 template dictionaries (same nested
    # objects handed to several add_component calls; the caller scribbles on its dictionary afterwards in 40% of
    # the calls), "update" = the same for update_component (no scribbling), None = a new dictionary per call
    share = share if share != "random" else rng.choice([None, None, "add", "add", "update"])
    tpl_flavour = [rng.randint(4, 12), rng.randint(4, 12)]
    kinds = ["setVar", "setVar", "delVar", "setOption", "setOption", "removeOption", "setGlobalVar",
             "setStageVar", "setPlatGlobalVar", "setPlatStageVar", "addComp", "updateComp", "deleteComp",
             "query", "query", "query", "sweep", "sweep",
             "queryF", "queryF", "queryF", "read", "read", "read", "touchComp", "touchVars",
             "setVarViaRef", "setGlobalVarViaRef"]
    if share == "add":
        kinds += ["addComp"] * 5 + ["deleteComp"]
    elif share == "update":
        kinds += ["updateComp"] * 5
    for _ in range(length):
        kind = rng.choice(kinds)
        known = list(live.items())
        if rng.random() < 0.08 or not known:
            target = (rng.choice(pool), rng.choice([0, 1]))          # possibly unknown component
        else:
            target = rng.choice(known)
        n, i = target
        if kind in ("setVar", "setVarViaRef"):
            v = rng.choice(VARS)
            ops.append({"op": kind, "stage": i, "name": n, "var": v, "value": val(("comp", i, n, v))})
        elif kind == "delVar":
            v = rng.choice(VARS)
            cur.pop(("comp", i, n, v), None)
            ops.append({"op": kind, "stage": i, "name": n, "var": v})
        elif kind == "setOption":
            route = rng.choice(ROUTES)
            ops.append({"op": kind, "stage": i, "name": n, "route": route,
                        "value": pick_value(rng, cur, route_slot(i, n, route), ROUTE_VALUES)})
        elif kind == "removeOption":
            route = rng.choice(ROUTES)
            cur.pop(route_slot(i, n, route), None)
            ops.append({"op": kind, "stage": i, "name": n, "route": route})
        elif kind == "setGlobalVar":
            v = rng.choice(VARS)
            ops.append({"op": kind, "var": v, "value": val(("glob", "default", v))})
        elif kind == "setStageVar":
            st, v = rng.choice([0, 1, 1, 2]), rng.choice(VARS)
            ops.append({"op": kind, "stage": st, "var": v, "value": val(("stage", "default", st, v))})
        elif kind in ("setPlatGlobalVar", "setGlobalVarViaRef"):
            P, v = rng.choice(PLATFORMS), rng.choice(VARS)
            ops.append({"op": kind, "platform": P, "var": v, "value": val(("glob", P, v))})
        elif kind == "setPlatStageVar":
            P, st, v = rng.choice(PLATFORMS), rng.choice([0, 1, 2]), rng.choice(VARS)
            ops.append({"op": kind, "platform": P, "stage": st, "var": v, "value": val(("stage", P, st, v))})
        elif kind == "addComp":
            free = [x for x in pool if x not in live]
            n2 = rng.choice(free) if free and share == "add" and rng.random() < 0.8 else rng.choice(pool)
            i2 = rng.choice([0, 1])
            flav += 1
            op = {"op": kind, "stage": i2, "name": n2, "body": body(n2, i2, flavour=flav)}
            if share == "add" and rng.random() < 0.85:
                t = rng.choice([0, 0, 1])
                op.update(body=body(n2, i2, flavour=tpl_flavour[t]), share=t, scribble=rng.random() < 0.4)
            ops.append(op)
            if n2 not in live:
                live[n2] = i2
                note_body(cur, ops[-1]["body"])
        elif kind == "updateComp":
            flav += 1
            op = {"op": kind, "stage": i, "name": n, "body": body(n, i, flavour=flav)}
            if share == "update" and rng.random() < 0.85:
                t = rng.choice([0, 0, 1])
                op.update(body=body(n, i, flavour=tpl_flavour[t]), share=t)
            ops.append(op)
            if live.get(n) == i:
                note_body(cur, ops[-1]["body"])
        elif kind == "deleteComp":
            ops.append({"op": kind, "stage": i, "name": n})
            if live.get(n) == i:
                del live[n]
        elif kind == "query":
            ops.append({"op": "query", "stage": i, "name": n, "platform": rng.choice(PLATFORMS)})
        elif kind == "queryF":
            ops.append({"op": "queryF", "stage": i, "name": n, "platform": rng.choice(PLATFORMS),
                        "flags": rng.choice(K.ALL_FLAGS)})
        elif kind == "read":
            ops.append(K.gen_read(rng, [(si, sn) for sn, si in known], PLATFORMS))
        elif kind == "touchComp":
            ops.append({"op": kind, "stage": i, "name": n})
        elif kind == "touchVars":
            ops.append({"op": kind, "platform": rng.choice(PLATFORMS), "stage": rng.choice([None, 0, 1])})
        else:
            ops.append({"op": "sweep"})
    ops.append({"op": "sweep"})
    case = {"kind": "history", "meta": meta, "doc": doc, "ops": ops}
    if share:
        case["share"] = share
    return case


def component_edits(rng, i, n):
    """every kind of edit of ONE component through the interface"""
    return [{"op": "setVar", "stage": i, "name": n, "var": "x", "value": "edited"},
            {"op": "setVar", "stage": i, "name": n, "var": "fresh", "value": rng.choice([1, "new"])},
            {"op": "setVarViaRef", "stage": i, "name": n, "var": "y", "value": "edited"},
            {"op": "delVar", "stage": i, "name": n, "var": "x"},
            {"op": "setOption", "stage": i, "name": n, "route": "x", "value": "edited"},
            {"op": "setOption", "stage": i, "name": n, "route": "#command.arguments", "value": "edited %(g)s"},
            {"op": "setOption", "stage": i, "name": n, "route": "#resourceManager.config.walltime", "value": 120.0},
            {"op": "setOption", "stage": i, "name": n, "route": "#workflowAttributes.maxRestarts", "value": 9},
            {"op": "removeOption", "stage": i, "name": n, "route": "y"},
            {"op": "removeOption", "stage": i, "name": n, "route": "#command.arguments"},
            {"op": "removeOption", "stage": i, "name": n, "route": "#resourceManager.config.walltime"}]


def gen_shared_templates(rng, how):
    """systematic stream: several components stamped out of ONE template dictionary through add_component
    (how="add") or update_component (how="update") - ask everything - ONE edit of one of them through the interface
    - ask everything - an unrelated update that flushes every cache - ask everything; and (add only) the caller
    scribbling on its dictionary after the call, replacing a component (delete + add) out of the same template"""
    out = []
    names = ["c0", "c1", "d"]
    flav = 6                                      # a body with resourceManager / workflowAttributes sections
    for e in range(len(component_edits(rng, 0, "w0"))):
        i = rng.choice([0, 1])
        if how == "add":
            stamped = ["w0", "w1", "w2"]
            ops = [{"op": "addComp", "stage": i, "name": n, "body": body(n, i, flavour=flav), "share": 0} for n in stamped]
            doc = base_doc(names)
        else:
            doc = base_doc(["c0", "c1", "d", "c", "c00"])
            stamped = [c["name"] for c in doc["components"] if c["stage"] == i][:3]
            ops = [{"op": "updateComp", "stage": i, "name": n, "body": body(n, i, flavour=flav), "share": 0} for n in stamped]
        target = rng.choice(stamped)
        ops += [{"op": "sweep"}, component_edits(rng, i, target)[e], {"op": "sweep"},
                {"op": "setGlobalVar", "var": "g", "value": "flushed"}, {"op": "sweep"}]
        out.append({"kind": "history", "meta": False, "doc": doc, "ops": ops, "share": how})
    if how == "add":
        for scribble_at in (0, 1):
            ops = [{"op": "addComp", "stage": 0, "name": n, "body": body(n, 0, flavour=flav), "share": 0,
                    "scribble": k == scribble_at} for k, n in enumerate(["w0", "w1"])]
            ops += [{"op": "sweep"}, {"op": "setGlobalVar", "var": "g", "value": "flushed"}, {"op": "sweep"}]
            out.append({"kind": "history", "meta": False, "doc": base_doc(names), "ops": ops, "share": how})
        # replace (delete + add) one of the stamped components out of the same template, edit it, ask the others
        ops = [{"op": "addComp", "stage": 1, "name": n, "body": body(n, 1, flavour=flav), "share": 0} for n in ("w0", "w1")]
        ops += [{"op": "sweep"}, {"op": "deleteComp", "stage": 1, "name": "w1"},
                {"op": "addComp", "stage": 1, "name": "w1", "body": body("w1", 1, flavour=flav), "share": 0},
                {"op": "setVar", "stage": 1, "name": "w1", "var": "x", "value": "replacement"}, {"op": "sweep"}]
        out.append({"kind": "history", "meta": False, "doc": base_doc(names), "ops": ops, "share": how})
    return out


def gen_flag_pairs(rng, n_pairs):
    """systematic stream: an update - the query with keyword arguments A - with B - with A again - ask everything,
    for ordered pairs (A, B) of the 16 combinations of raw / include_default / is_primitive / inject_missing_fields
    (every pair with the fully resolved variant, n_pairs of the others; None = all), on a component whose fields
    mention its own variables only (so that the variants without the inherited variables succeed too) and on an
    ordinary one"""
    full = {"raw": False, "incl": True, "prim": False, "inject": True}
    pairs = [(a, b) for a in K.ALL_FLAGS for b in K.ALL_FLAGS if a != b]
    must = [(a, b) for (a, b) in pairs if a == full or b == full]
    rest = [pr for pr in pairs if pr not in must]
    chosen = must + (rest if n_pairs is None else rng.sample(rest, n_pairs))
    out = []
    for (fa, fb) in chosen:
        doc = base_doc(["c0", "c1"])
        doc["components"].append({"stage": 0, "name": "solo", "references": [],
                                  "command": {"executable": "echo", "arguments": "%(x)s %(g)s", "environment": "none"},
                                  "variables": {"x": "X", "g": "own-g", "s": "local"}})
        # an inherited variable that no component defines or mentions: with / without it the answers differ
        doc["variables"]["default"]["global"]["extra"] = "E"
        i, n = (0, "solo") if (fa, fb) in must else rng.choice([(0, "solo"), (0, "solo"), (0, "c0"), (1, "c1")])
        P = rng.choice(PLATFORMS)
        upd = rng.choice([{"op": "setGlobalVar", "var": "g", "value": "G2"},
                          {"op": "setStageVar", "stage": 0, "var": "s", "value": "S2"},
                          {"op": "setVar", "stage": i, "name": n, "var": "x", "value": "X2"},
                          {"op": "setPlatGlobalVar", "platform": P, "var": "y", "value": "Y2"},
                          {"op": "setOption", "stage": i, "name": n, "route": "#command.arguments", "value": "%(x)s!"}])
        q = lambda f: {"op": "queryF", "stage": i, "name": n, "platform": P, "flags": dict(f)}
        ops = [upd, q(fa), q(fb), q(fa), {"op": "sweep"}]
        if rng.random() < 0.5:
            ops.insert(0, {"op": "sweep"})
        out.append({"kind": "history", "meta": False, "doc": doc, "ops": ops})
    return out


def setter_op(kind, i, n, v, P, value):
    """one call of the setter `kind` that writes `value` to variable / option `v`"""
    if kind in ("setVar", "setVarViaRef"):
        return {"op": kind, "stage": i, "name": n, "var": v, "value": value}
    if kind == "setOption":
        return {"op": kind, "stage": i, "name": n, "route": v, "value": value}
    if kind == "setGlobalVar":
        return {"op": kind, "var": v, "value": value}
    if kind == "setStageVar":
        return {"op": kind, "stage": i, "var": v, "value": value}
    if kind in ("setPlatGlobalVar", "setGlobalVarViaRef"):
        return {"op": kind, "platform": P, "var": v, "value": value}
    if kind == "setPlatStageVar":
        return {"op": kind, "platform": P, "stage": i, "var": v, "value": value}
    raise ValueError(kind)


SETTER_SITES = [("setVar", "x"), ("setVar", "y"), ("setVar", "g"), ("setVarViaRef", "x"), ("setOption", "x"),
                ("setOption", "#variables.x"), ("setOption", "#command.arguments"),
                ("setOption", "#resourceRequest.numberProcesses"), ("setOption", "#workflowAttributes.maxRestarts"),
                ("setOption", "#workflowAttributes.replicate"), ("setOption", "#resourceManager.config.walltime"),
                ("setGlobalVar", "g"), ("setGlobalVar", "x"), ("setStageVar", "s"), ("setStageVar", "g"),
                ("setPlatGlobalVar", "g"), ("setPlatGlobalVar", "s"), ("setGlobalVarViaRef", "g"),
                ("setPlatStageVar", "s"), ("setPlatStageVar", "g")]


def value_pairs():
    """(x, y): y is x again, or == x in Python with another spelling, or its string spelling, or a falsy cousin"""
    out = []
    for cls in EQ_CLASSES:
        for x in cls:
            for y in cls:
                out.append((x, y))
    out += [("1", "1"), ("1", 1), (1, "1"), ("1.0", 1.0), (True, "True"), ("", None), (None, ""), (None, None),
            (0, ""), ("", 0), (False, None), (None, 0), ("0", 0), ("vv", "vv")]
    return out


def twin_tree(rng, tree):
    """the same tree under Python's ==, every number / boolean that has one replaced by an equal scalar of another type"""
    if isinstance(tree, dict):
        return {k: (v if k in ("stage", "name") else twin_tree(rng, v)) for k, v in tree.items()}
    if isinstance(tree, list):
        return [twin_tree(rng, v) for v in tree]
    tw = twin_values(tree)
    return rng.choice(tw) if tw else tree


def gen_equal_resets(rng, per_site):
    """systematic stream: set(x) - ask everything - set(y) - ask everything, y equal to x in some sense
    (identical, == with another type, string spelling), for every setter and scope"""
    names = ["c0", "c1", "d"]
    pairs = value_pairs()
    out = []
    for kind, v in SETTER_SITES:
        chosen = pairs if per_site is None else rng.sample(pairs, per_site)
        for (x, y) in chosen:
            k = rng.randrange(len(names))
            i, n = k % 2, names[k]
            P = rng.choice(PLATFORMS)
            ops = [setter_op(kind, i, n, v, P, x), {"op": "sweep"}, setter_op(kind, i, n, v, P, y), {"op": "sweep"}]
            if rng.random() < 0.3:
                ops.insert(0, {"op": "sweep"})
            out.append({"kind": "history", "meta": False, "doc": base_doc(names), "ops": ops})
    # replacing a component by a body that is == the old one (1 -> 1.0 -> True inside it)
    doc = base_doc(names + ["c00", "c"])
    for c in doc["components"]:
        b2 = twin_tree(rng, c)
        if b2 == c and canon(K.to_json(b2)) != canon(K.to_json(c)):
            out.append({"kind": "history", "meta": False, "doc": doc, "ops": [
                {"op": "sweep"}, {"op": "updateComp", "stage": c["stage"], "name": c["name"], "body": b2},
                {"op": "sweep"}]})
    return out


def gen_triples(rng, repeat):
    """systematic stream: populate the cache for every component on every platform, ONE update, ask again -
    every kind of update, every variable name x every platform (x stage) for the variable setters, every
    component for the component-level ones"""
    names = ["c0", "c1", "d"]
    out = []

    def add(op, pre=None):
        ops = [{"op": "sweep"}] + ([pre] if pre else []) + [op, {"op": "sweep"}]
        out.append({"kind": "history", "meta": False, "doc": base_doc(names), "ops": ops})

    for _ in range(repeat):
        val = lambda: rng.choice(["vv", "1", 7, "%(g)s"])
        for v in VARS:
            add({"op": "setGlobalVar", "var": v, "value": val()})
            for P in PLATFORMS:
                add({"op": "setPlatGlobalVar", "platform": P, "var": v, "value": val()})
                add({"op": "setGlobalVarViaRef", "platform": P, "var": v, "value": val()})
                for st in (0, 1):
                    add({"op": "setPlatStageVar", "platform": P, "stage": st, "var": v, "value": val()})
            for st in (0, 1):
                add({"op": "setStageVar", "stage": st, "var": v, "value": val()})
        for k, n in enumerate(names):
            st = k % 2
            for v in VARS:
                add({"op": "setVar", "stage": st, "name": n, "var": v, "value": val()})
            add({"op": "setVarViaRef", "stage": st, "name": n, "var": rng.choice(VARS), "value": val()})
            add({"op": "delVar", "stage": st, "name": n, "var": "x"})
            add({"op": "setOption", "stage": st, "name": n, "route": rng.choice(ROUTES), "value": rng.choice(ROUTE_VALUES)})
            add({"op": "setOption", "stage": st, "name": n, "route": "#command.arguments", "value": "-a %(x)s"})
            add({"op": "removeOption", "stage": st, "name": n, "route": rng.choice(["x", "#command.arguments", "#references"])})
            add({"op": "updateComp", "stage": st, "name": n, "body": body(n, st, flavour=rng.randint(4, 12))})
            add({"op": "deleteComp", "stage": st, "name": n})
            # a flatten / no-defaults query of a sibling between populating and asking again
            add({"op": "touchComp", "stage": st, "name": n},
                pre={"op": "queryF", "stage": st, "name": n, "platform": rng.choice(PLATFORMS),
                     "flags": {"raw": rng.random() < 0.5, "incl": rng.random() < 0.5, "prim": rng.random() < 0.5,
                               "inject": False}})
        add({"op": "addComp", "stage": 0, "name": "c00", "body": body("c00", 0, flavour=rng.randint(4, 12))})
        add({"op": "touchVars", "platform": rng.choice(PLATFORMS), "stage": rng.choice([None, 0, 1])},
            pre={"op": "read", "what": "instance", "platform": rng.choice(PLATFORMS), "fill_in_all": False,
                 "prim": True, "inject": False})
    return out


# ----------------------------------------------------------------------------------------
# platform names
# ----------------------------------------------------------------------------------------
# FlowIR accepts ANY string as the name of a platform (FlowIR.type_flowir: `platforms: ValidateMany(string_types)`;
# the keys of variables / blueprint / environments / override are not restricted either).  The cache label is
# `component:<platform>:stage<i>:<name>` and the component-level invalidation is a regular expression over it, so the
# shape of the platform name is part of the input space: names as deployments use them (dashes, dots, slashes,
# upper case), names made of / containing regular-expression metacharacters, blanks, colons, pieces of the label
# syntax itself (`stage0`, `component`, `x:stage0:c0`), non-ASCII, one-character names, and - as a second platform of
# the same description - names that are a prefix / suffix / doubling / case variant of the first.
# (not generated: the empty name - `platform or active` makes it an alias of the active platform.  Names with a line
# break ARE generated: the invalidation pattern did not match them before /repo 'fix: ... line break')
REAL_PLATFORMS = ["openshift-kubeflux", "lsf.cluster", "ibm-cloud", "in-entrypoint", "hpc_lsf-2", "docker/local",
                  "OpenShift", "sandbox.v2-beta", "openshift", "paragon", "kubernetes@eu-de", "x86_64-linux"]
ODD_PLATFORMS = ["a+b", "p*", "(p)", "p|q", "p$", "^p", "[p]", "p{2}", "p\\d", "p?", ".*", "\\w+", "p q", " p", "p ",
                 "p\tq", "p:q", ":stage0:c0", "x:stage0:c0", "stage0", "stage0:c0", "component", "component:p", ":",
                 "-", ".", "0", "_", "plät", "平台", "%(g)s", "p#q", "default-x", "x-default", "default.",
                 "Default", "p-", "-p", ".p", "p.", "p_q", "p,q", "p=q", "p'q", "p\"q", "~p", "p!", "p&q", "p;q", "p<q>", "a\nb", "p\n", "\np",
                 "p\r\nq"]
BOUNDARY_COMPONENTS = [(0, "c0"), (1, "c0"), (10, "c0"), (11, "c0"), (1, "c00"), (0, "c-0"), (1, "c 0"), (0, "stage0"),
                       (0, "c0:stage1:c0"), (0, "0"), (1, "C0"), (0, "-c0"), (1, "c0-"), (0, "c_0"), (0, "c.0"),
                       (1, "c"), (0, "a+b"), (1, "c$"), (0, "ç"), (1, "stage1"), (2, "c0"), (0, "c0:"), (1, ":c0")]


def neighbours(n1):
    """names for a second platform that sit at the lexical boundaries of `n1`"""
    out = [n1 + "-x", "x-" + n1, n1 + ".", "." + n1, n1 + n1, n1 + ":stage0", n1 + ":stage0:c0", n1 + " ", n1 + "0",
           "default-" + n1, n1 + "-default", n1.swapcase(), n1[:-1], n1[1:], "p", re.escape(n1)]
    return [x for x in out if x and x not in (n1, "default") and "\n" not in x]


def name_class(n):
    """coarse class of a platform name (evidence tags)"""
    if re.fullmatch(r"[A-Za-z0-9_]+", n):
        return "word"
    if re.fullmatch(r"[A-Za-z0-9_.\-/@]+", n):
        return "dash-dot"
    if ":" in n:
        return "colon"
    if any(ch.isspace() for ch in n):
        return "blank"
    if has_meta(n):
        return "regex-meta"
    return "other"


def pick_platform_names(rng):
    r = rng.random()
    n1 = rng.choice(REAL_PLATFORMS) if r < 0.55 else rng.choice(ODD_PLATFORMS)
    n2 = None
    if rng.random() < 0.5:
        n2 = rng.choice(neighbours(n1)) if rng.random() < 0.7 else rng.choice(REAL_PLATFORMS + ODD_PLATFORMS)
        if n2 in (n1, "default"):
            n2 = None
    return n1, n2


def _second(tree):
    """the sections of the second platform: those of the first with other values (a mix-up must be visible)"""
    t = copy.deepcopy(tree)
    if isinstance(t, dict):
        if isinstance(t.get("global"), dict) and "g" in t["global"]:
            t["global"]["g"] = "GQ"
        if isinstance(t.get("variables"), dict) and "x" in t["variables"]:
            t["variables"]["x"] = "XQ"
    return t


def _rename_override(comp, n1, n2):
    ov = comp.get("override")
    if isinstance(ov, dict) and "p" in ov:
        sec = ov.pop("p")
        ov[n1] = sec
        if n2:
            ov[n2] = _second(sec)


def rename_platforms(rng, case, n1, n2=None, active=None):
    """the platform `p` of a generated case becomes `n1`; with `n2` a further platform is declared (sections = those
    of `p` with other values) and the operations that name `p` are dealt between the two.  active = the platform the
    object is constructed for (first layer; queries name their platform explicitly, a share of those on the active
    platform leave it out)"""
    case = copy.deepcopy(case)
    doc = case["doc"]
    doc["platforms"] = ["default", n1] + ([n2] if n2 else [])
    for sec in ("blueprint", "variables", "environments"):
        if isinstance(doc.get(sec), dict) and "p" in doc[sec]:
            v = doc[sec].pop("p")
            doc[sec][n1] = v
            if n2:
                doc[sec][n2] = _second(v)
    for c in doc["components"]:
        _rename_override(c, n1, n2)

    # a graph / experiment built FOR a platform may hold a flattened description (default + that platform only):
    # there every operation that named `p` names the platform of the world
    deal = bool(n2) and not (case.get("kind") == "ghistory" and case["world"].get("platform") == "p")

    def fix(op):
        if op.get("platform") == "p":
            op["platform"] = n2 if deal and rng.random() < 0.45 else n1
        if isinstance(op.get("body"), dict):
            _rename_override(op["body"], n1, n2)
        if isinstance(op.get("u"), dict):
            fix(op["u"])
        if active and active != "default" and op["op"] == "query" and op.get("platform") == active and rng.random() < 0.4:
            op["implicit"] = True           # get_component_configuration(..., platform=None): the active platform

    for op in case["ops"]:
        fix(op)
    if case.get("world", {}).get("platform") == "p":
        case["world"]["platform"] = n1
    case["names"] = [n1] + ([n2] if n2 else [])
    if active and active != "default":
        case["active"] = active
    return case


def maybe_rename(rng, case, share):
    """`share` of the cases get other platform names than default / p"""
    if rng.random() >= share:
        return case
    n1, n2 = pick_platform_names(rng)
    active = None
    if case.get("kind") != "ghistory" and rng.random() < 0.4:
        active = rng.choice([n1] + ([n2] if n2 else []))
    return rename_platforms(rng, case, n1, n2, active)


def component_updates(rng, i, n, flav):
    """every way of updating ONE component through the interface (each a list of calls)"""
    out = [[e] for e in component_edits(rng, i, n)]
    out.append([{"op": "updateComp", "stage": i, "name": n, "body": body(n, i, flavour=flav)}])
    out.append([{"op": "deleteComp", "stage": i, "name": n}])
    out.append([{"op": "deleteComp", "stage": i, "name": n},
                {"op": "addComp", "stage": i, "name": n, "body": body(n, i, flavour=flav)}])
    out.append([{"op": "touchComp", "stage": i, "name": n},
                {"op": "setVarViaRef", "stage": i, "name": n, "var": "x", "value": "via-ref"}])
    return out


def gen_platform_names(rng, per_name, names=None):
    """systematic stream: for EVERY platform name of the pools (alone, and next to a second platform whose name sits
    at its lexical boundaries): components whose (stage, name) sit at the lexical boundaries of one another (stage 1 /
    10 / 11, c / c0 / c00 / c0- / c-0 / c0:stage1:c0 ...) - ask everything on every platform - update ONE component
    (per_name of the 15 ways, None = each) - ask everything - flush - ask everything"""
    out = []
    for n1 in (names or REAL_PLATFORMS + ODD_PLATFORMS):
        comps = rng.sample(BOUNDARY_COMPONENTS, 4)
        doc = base_doc([])
        doc["variables"]["default"]["stages"].update({2: {}, 10: {"s": "ten"}, 11: {}})
        doc["components"] = [body(n, i, flavour=rng.randint(0, 12)) for (i, n) in comps]
        i, n = comps[0]
        ways = component_updates(rng, i, n, rng.randint(4, 12))
        for calls in (ways if per_name is None else rng.sample(ways, per_name)):
            ops = [{"op": "sweep"}] + copy.deepcopy(calls) + [{"op": "sweep"}]
            if rng.random() < 0.3:
                ops += [{"op": "setGlobalVar", "var": "g", "value": "flushed"}, {"op": "sweep"}]
            case = {"kind": "history", "meta": False, "doc": copy.deepcopy(doc), "ops": ops}
            n2 = rng.choice(neighbours(n1)) if rng.random() < 0.5 else None
            active = rng.choice([None, None, n1] + ([n2] if n2 else []))
            out.append(rename_platforms(rng, case, n1, n2, active))
    return out


# ----------------------------------------------------------------------------------------
# ambient settings of the process
# ----------------------------------------------------------------------------------------
# The property quantifies over histories of calls, not over how the process that makes them is configured: a user may
# legitimately run with any logging verbosity (`elaunch.py -l <level>` sets the level of the root logger; 10 = debug, the
# code base logs at the custom levels 14 / 15 / 19 too; a deployment may turn up one named logger only).  Code guarded by
# `log.isEnabledFor(...)` / executed while a log record is formatted (`%r` of an object, a "changes from X to Y" report
# that asks the interface for X) runs only then - so a share of every stream runs with logging ENABLED: K._quiet()'s
# process-wide logging.disable() is lifted, the chosen logger(s) get the chosen level, and a handler that really formats
# every record (lazy `%` arguments are evaluated) and throws the text away replaces the root handlers.
LOG_LEVELS = [1, 5, 10, 13, 14, 15, 19]
LOG_SCOPES = ["root", "root", "root", "flowir", "every"]


class _Swallow(logging.Handler):
    """formats every record (so that lazily formatted arguments are evaluated) and discards the text"""

    def emit(self, record):
        try:
            self.format(record)
        except Exception:
            pass


def pick_ambient(rng):
    return {"log": {"scope": rng.choice(LOG_SCOPES), "level": rng.choice(LOG_LEVELS)}}


def maybe_ambient(rng, case, share):
    """`share` of the cases run in a process with verbose logging"""
    if rng.random() < share and "ambient" not in case:
        case = dict(case, ambient=pick_ambient(rng))
    return case


def ambient_tag(case):
    log = (case.get("ambient") or {}).get("log")
    return "ambient:logging:%s:%s" % (log["scope"], log["level"]) if log else "ambient:logging:disabled"


@contextlib.contextmanager
def ambient(case):
    """the process-level settings of the case for the duration of its run (restored afterwards)"""
    log = (case.get("ambient") or {}).get("log")
    if not log:
        yield
        return
    root = logging.getLogger()
    manager = root.manager
    saved_disable = manager.disable
    saved_handlers = list(root.handlers)
    saved_levels = []
    handler = _Swallow(level=1)

    def set_level(lg):
        saved_levels.append((lg, lg.level))
        lg.setLevel(log["level"])

    try:
        root.handlers[:] = [handler]
        if log["scope"] == "flowir":
            set_level(logging.getLogger("flowir"))
        else:
            set_level(root)
            if log["scope"] == "every":
                # loggers whose level was set explicitly somewhere do not follow the root: turn every one up
                for name in sorted(manager.loggerDict):
                    lg = manager.loggerDict[name]
                    if isinstance(lg, logging.Logger) and name.split(".")[0] not in QUIET_LIBRARIES:
                        set_level(lg)
        logging.disable(logging.NOTSET)
        yield
    finally:
        for lg, level in reversed(saved_levels):
            lg.setLevel(level)
        root.handlers[:] = saved_handlers
        logging.disable(saved_disable)


# third-party libraries whose own debug output is of no concern here (and slow)
QUIET_LIBRARIES = {"cwltool", "rdflib", "salad", "urllib3", "kubernetes", "matplotlib", "asyncio", "concurrent",
                   "requests", "docker", "pymongo", "keyring", "PIL", "prov", "schema_salad", "reactivex", "rx"}


def gen_ambient(rng, per_setting, levels=None):
    """systematic stream: for every (logger scope, level): ask everything on every platform - ONE update of one
    component / one variable (per_setting of the ways, None = each) - ask everything - a second update of the same
    kind - ask everything (an answer that lags one update behind shows at the second sweep at the latest)"""
    out = []
    names = ["c0", "c1", "d"]
    for scope in ("root", "flowir", "every"):
        for level in (levels or LOG_LEVELS):
            k = rng.randrange(len(names))
            i, n = k % 2, names[k]
            ways = component_updates(rng, i, n, rng.randint(4, 12))
            P = rng.choice(PLATFORMS)
            ways += [[setter_op(kind, i, n, v, P, rng.choice(["vv", 7, "%(g)s"]))] for kind, v in SETTER_SITES]
            for calls in (ways if per_setting is None else rng.sample(ways, per_setting)):
                second = copy.deepcopy(calls)
                for o in second:
                    if "value" in o:
                        o["value"] = "second"
                ops = [{"op": "sweep"}] + copy.deepcopy(calls) + [{"op": "sweep"}] + second + [{"op": "sweep"}]
                out.append({"kind": "history", "meta": False, "doc": base_doc(names), "ops": ops,
                            "ambient": {"log": {"scope": scope, "level": level}}})
    return out


# ----------------------------------------------------------------------------------------
# real code
# ----------------------------------------------------------------------------------------

scramble = K.scramble


READ_ONLY = ("query", "queryF", "read", "touchComp", "touchVars")


def share_body(store, tid, body):
    """a dictionary with the content of `body` whose nested sections are the SAME objects that earlier calls with
    this template id handed in, wherever their content still coincides: a caller that stamps several components
    out of ONE template dictionary, changing only the name / top-level scalars between the calls"""
    tpl = store.setdefault(tid, {})
    out = {}
    for k, v in body.items():
        if isinstance(v, (dict, list)):
            if k in tpl and canon(K.to_json(tpl[k])) == canon(K.to_json(v)):
                out[k] = tpl[k]
            else:
                tpl[k] = out[k] = copy.deepcopy(v)
        else:
            out[k] = v
    return out


def apply_op(conc, op, store=None):
    """one call of the interface on the real object.  store = the caller-side template dictionaries of the object
    under test: an addComp / updateComp with "share": t hands in a dictionary whose nested sections are shared with
    the other calls of template t, "scribble": the caller mutates its dictionary after the call.  Without a store
    (twin, reference objects) every call gets a brand new deep copy."""
    F = _F()
    k = op["op"]
    try:
        if k == "query":
            res = conc.get_component_configuration((op["stage"], op["name"]), raw=False, include_default=True,
                                                   platform=None if op.get("implicit") else op["platform"])
            out = {"ok": K.to_json(res)}
            scramble(res)
            return out
        if k == "queryF":
            keep = []
            out = K.impl_resolve(conc, (op["stage"], op["name"]), op["platform"], op["flags"]["prim"], op["flags"], keep)
            for r in keep:
                scramble(r)
            return out
        if k == "read":
            return K.apply_read(conc, op)
        if k in ("touchComp", "touchVars"):
            return K.apply_touch(conc, op)
        cid = (op.get("stage"), op.get("name"))
        if k == "setVarViaRef":
            ref = conc.get_component(cid, return_copy=False)
            ref["variables"][op["var"]] = copy.deepcopy(op["value"])
            return {"ok": None}
        if k == "setGlobalVarViaRef":
            ref = conc.get_platform_global_variables(op["platform"], return_copy=False)
            ref[op["var"]] = copy.deepcopy(op["value"])
            return {"ok": None}
        if k == "setVar":
            conc.set_component_variable(cid, op["var"], copy.deepcopy(op["value"]))
        elif k == "delVar":
            conc.delete_component_variable(cid, op["var"])
        elif k == "setOption":
            conc.set_component_option(cid, op["route"], copy.deepcopy(op["value"]))
        elif k == "removeOption":
            conc.remove_component_option(cid, op["route"])
        elif k == "setGlobalVar":
            conc.set_global_variable(op["var"], copy.deepcopy(op["value"]))
        elif k == "setStageVar":
            conc.set_stage_variable(op["stage"], op["var"], copy.deepcopy(op["value"]))
        elif k == "setPlatGlobalVar":
            conc.set_platform_global_variable(op["var"], copy.deepcopy(op["value"]), op["platform"])
        elif k == "setPlatStageVar":
            conc.set_platform_stage_variable(op["stage"], op["var"], copy.deepcopy(op["value"]), op["platform"])
        elif k in ("addComp", "updateComp"):
            if store is not None and op.get("share") is not None:
                mine = share_body(store, op["share"], op["body"])
            else:
                mine = copy.deepcopy(op["body"])
            try:
                if k == "addComp":
                    conc.add_component(mine)
                else:
                    conc.update_component(cid, mine)
            finally:
                if store is not None and op.get("scribble"):
                    scramble(mine)          # the caller re-uses its dictionary for something else
        elif k == "deleteComp":
            conc.delete_component(cid)
        else:
            raise ValueError(k)
        return {"ok": None}
    except BaseException as exc:
        if isinstance(exc, (KeyboardInterrupt, SystemExit)):
            raise
        return K.err_kind(exc)


def expand(ops, conc_ids):
    """not used"""
    return ops


def run_history(case, want_model_ops=True):
    """runs the history on the real code, in a process configured as the case says (logging verbosity); returns
    (flat ops incl. sweep queries, impl answers, oracle failures)"""
    with ambient(case):
        return _run_history(case)


def _run_history(case):
    F = _F()
    active = case.get("active", "default")
    platforms = list(case["doc"].get("platforms") or PLATFORMS)
    conc = F.FlowIRConcrete(copy.deepcopy(case["doc"]), active, {})
    twin = F.FlowIRConcrete(copy.deepcopy(case["doc"]), active, {})     # receives the updates only
    desc = K.desc_of(conc)
    twin_norm = K.desc_norm(twin)
    flat, answers, failures = [], [], []
    store = {}          # the caller's template dictionaries (shared between the calls that name the same template)
    for idx, op in enumerate(case["ops"]):
        if op["op"] != "sweep":
            flat.append(op)
            a = apply_op(conc, op, store)
            answers.append(a)
            if op["op"] == "queryF":
                # every variant of the query answers what a BRAND NEW object built from the current description
                # answers (new for each question: the reference must not have been asked anything before)
                try:
                    ref = apply_op(F.FlowIRConcrete(conc.raw(), active, {}), op)
                except Exception as exc:
                    ref = a
                    failures.append(("description-cannot-be-reloaded", {"error": type(exc).__name__, "before": op}))
                if canon(coarse(a)) != canon(coarse(ref)):
                    failures.append(("query-differs-from-from-scratch-resolution",
                                     {"query": op, "cached": a, "from_scratch": ref,
                                      "difference": K.first_difference(ref, a)}))
            if op["op"] in ("query", "queryF"):
                # private copy: the caller scrambled the answer; the same query again must be unaffected
                again = apply_op(conc, op)
                flat.append(op)
                answers.append(again)
                if canon(again) != canon(a):
                    failures.append(("returned-configuration-is-not-a-private-copy", {"op": op, "first": a, "again": again}))
            if op["op"] not in READ_ONLY:
                b = apply_op(twin, op)
                twin_norm = K.desc_norm(twin)
                if canon(coarse(a)) != canon(coarse(b)):
                    failures.append(("update-answers-differently-after-read-only-operations",
                                     {"op": op, "index": idx, "answer": a, "updates_only": b}))
            # the description is a function of the updates alone
            now = K.desc_norm(conc)
            if now != twin_norm:
                failures.append(("description-differs-from-replaying-only-the-updates",
                                 {"after": op, "index": idx, "difference": K.first_difference(twin_norm, now)}))
                # resynchronise (report each divergence once); a description that cannot even be loaded
                # any more ends the history
                try:
                    twin = F.FlowIRConcrete(conc.raw(), active, {})
                    twin_norm = K.desc_norm(twin)
                except Exception as exc:
                    failures.append(("description-cannot-be-reloaded", {"error": type(exc).__name__, "after": op}))
                    break
            continue
        try:
            ids = sorted(conc.get_component_identifiers(False), key=str)
            fresh = F.FlowIRConcrete(conc.raw(), active, {})
            fresh2 = F.FlowIRConcrete(twin.raw(), active, {})
        except Exception as exc:
            failures.append(("description-cannot-be-reloaded", {"error": type(exc).__name__}))
            continue
        for (i, n) in ids:
            for P in platforms:
                q = {"op": "query", "stage": i, "name": n, "platform": P}
                a = apply_op(conc, q)
                flat.append(q)
                answers.append(a)
                if P == active and "active" in case:
                    # the same question with the platform left out (= the active one): the same answer
                    q2 = dict(q, implicit=True)
                    a2 = apply_op(conc, q2)
                    flat.append(q2)
                    answers.append(a2)
                    if canon(coarse(a2)) != canon(coarse(a)):
                        failures.append(("query-of-the-active-platform-differs-from-naming-it",
                                         {"query": q, "named": a, "left_out": a2}))
                # (several resolution errors can coexist; which one is reported first depends on dictionary
                # order, which differs between two objects: errors are compared by class)
                b = apply_op(fresh, q)
                if canon(coarse(a)) != canon(coarse(b)):
                    failures.append(("query-differs-from-from-scratch-resolution", {"query": q, "cached": a, "from_scratch": b}))
                c = apply_op(fresh2, q)
                if canon(coarse(a)) != canon(coarse(c)):
                    failures.append(("query-differs-from-replaying-only-the-updates",
                                     {"query": q, "answer": a, "updates_only": c,
                                      "difference": K.first_difference(c, a)}))
    return desc, flat, answers, failures


# ----------------------------------------------------------------------------------------
# second layer: histories on a real experiment graph (objects and views: harness/c08_graph.py)
# ----------------------------------------------------------------------------------------

CONCRETE_KINDS = ["setVar", "setVar", "delVar", "setOption", "setOption", "removeOption", "setGlobalVar", "setStageVar",
                  "setPlatGlobalVar", "setPlatStageVar", "updateComp", "setVarViaRef", "setGlobalVarViaRef",
                  "touchComp", "touchVars", "read"]


def world_entries(params):
    return ["spec", "specSibling", "node", "graph", "conf", "concrete"] + (["job"] if params["mode"] == "experiment" else [])


def gen_view(rng, params, i, n):
    e = rng.choice(world_entries(params))
    if e in ("spec", "specSibling"):
        what = rng.choice(GL.SPEC_VIEWS)
    elif e == "job":
        what = rng.choice(GL.JOB_VIEWS)
    elif e in ("graph", "conf"):
        what = rng.choice(["configuration", "configuration", "references"])
    else:
        what = "configuration"
    flags = None
    if e in GL.FREE_FLAG_ENTRIES or e == "node":
        flags = dict(rng.choice(K.ALL_FLAGS)) if rng.random() < 0.5 else \
            {"raw": not params["substitute"], "incl": True, "prim": params["primitive"], "inject": True}
    return {"op": "view", "entry": e, "what": what, "stage": i, "name": n, "flags": flags}


def gen_update(rng, params, cur, i, n, flav, entry=None, kind=None):
    e = entry or rng.choice(world_entries(params))
    # a replicated graph of the default platform is built on a flattened description: `p` no longer exists there
    plats = PLATFORMS if (params["primitive"] and params["mode"] == "graph") or params["platform"] == "p" else ["default"]
    val = lambda slot: pick_value(rng, cur, slot, VALUES)
    if e != "concrete":
        kind = kind or rng.choice(["setOption", "setOption", "setOption", "removeOption"])
        if e == "node":
            kind = "setOption"
        route = rng.choice(GL.GROUTES)
        if kind == "setOption":
            u = {"op": kind, "stage": i, "name": n, "route": route,
                 "value": pick_value(rng, cur, route_slot(i, n, route), GL.route_pool(route, VALUES))}
        else:
            cur.pop(route_slot(i, n, route), None)
            u = {"op": kind, "stage": i, "name": n, "route": route}
        op = {"op": "via", "entry": e, "u": u}
        if e == "job":
            op["alt"] = rng.random() < 0.4
        return op
    kind = kind or rng.choice(CONCRETE_KINDS)
    if kind in ("setVar", "setVarViaRef"):
        v = rng.choice(GL.GVARS)
        u = {"op": kind, "stage": i, "name": n, "var": v, "value": val(("comp", i, n, v))}
    elif kind == "delVar":
        v = rng.choice(GL.GVARS)
        cur.pop(("comp", i, n, v), None)
        u = {"op": kind, "stage": i, "name": n, "var": v}
    elif kind == "setOption":
        route = rng.choice(GL.GROUTES)
        u = {"op": kind, "stage": i, "name": n, "route": route,
             "value": pick_value(rng, cur, route_slot(i, n, route), GL.route_pool(route, VALUES))}
    elif kind == "removeOption":
        route = rng.choice(GL.GROUTES)
        cur.pop(route_slot(i, n, route), None)
        u = {"op": kind, "stage": i, "name": n, "route": route}
    elif kind == "setGlobalVar":
        v = rng.choice(GL.GVARS)
        u = {"op": kind, "var": v, "value": val(("glob", "default", v))}
    elif kind == "setStageVar":
        st, v = rng.choice([0, 1]), rng.choice(GL.GVARS)
        u = {"op": kind, "stage": st, "var": v, "value": val(("stage", "default", st, v))}
    elif kind in ("setPlatGlobalVar", "setGlobalVarViaRef"):
        P, v = rng.choice(plats), rng.choice(GL.GVARS)
        u = {"op": kind, "platform": P, "var": v, "value": val(("glob", P, v))}
    elif kind == "setPlatStageVar":
        P, st, v = rng.choice(plats), rng.choice([0, 1]), rng.choice(GL.GVARS)
        u = {"op": kind, "platform": P, "stage": st, "var": v, "value": val(("stage", P, st, v))}
    elif kind == "updateComp":
        u = {"op": kind, "stage": i, "name": n, "body": GL.gbody(n, i, flavour=flav)}
        note_body(cur, u["body"])
    elif kind == "touchComp":
        u = {"op": kind, "stage": i, "name": n}
    elif kind == "touchVars":
        u = {"op": kind, "platform": rng.choice(plats), "stage": rng.choice([None, 0, 1])}
    else:
        u = K.gen_read(rng, list(GL.NODES), plats)
    return {"op": "via", "entry": "concrete", "u": u}


def gen_opaque(rng, i, n):
    what = rng.choice(GL.OPAQUE)
    op = {"op": "opaque", "what": what, "stage": i, "name": n}
    return op


def gen_ghistory(rng, length, params=None):
    params = dict(params or rng.choice(GL.WORLDS))
    doc = GL.gdoc()
    cur = initial_slots(doc)
    ops = []
    flav = 3
    for _ in range(length):
        i, n = rng.choice(GL.NODES)
        r = rng.random()
        if r < 0.42:
            ops.append(gen_view(rng, params, i, n))
        elif r < 0.77:
            flav += 1
            ops.append(gen_update(rng, params, cur, i, n, flav))
        elif r < 0.87 and params["mode"] == "graph":
            ops.append(gen_opaque(rng, i, n))
        else:
            ops.append({"op": "gsweep"})
    ops.append({"op": "gsweep"})
    return {"kind": "ghistory", "world": params, "doc": doc, "ops": ops}


def gen_gtriples(rng, worlds):
    """systematic stream on the graph layer: every object asked about everything - ONE update through one object -
    every object asked again; every object x every kind of update it offers"""
    out = []
    for params in worlds:
        sites = [(e, k) for e in world_entries(params) if e != "concrete" for k in ("setOption", "removeOption")
                 if not (e == "node" and k == "removeOption")]
        sites += [("concrete", k) for k in sorted(set(CONCRETE_KINDS)) if k not in ("read",)]
        for e, k in sites:
            doc = GL.gdoc()
            cur = initial_slots(doc)
            i, n = rng.choice(GL.NODES)
            out.append({"kind": "ghistory", "world": dict(params), "doc": doc,
                        "ops": [{"op": "gsweep"}, gen_update(rng, params, cur, i, n, rng.randint(4, 12), entry=e, kind=k),
                                {"op": "gsweep"}]})
    return out


def view_model_op(op, flags):
    return dict({"op": "view", "entry": op["entry"], "view": GL.SECTIONS[op["what"]], "stage": op["stage"],
                 "name": op["name"]}, **flags)


def run_ghistory(case):
    """runs a graph-layer history on the real objects, in a process configured as the case says (logging verbosity);
    returns (desc, platform, model ops, answers, failures)"""
    with ambient(case):
        return _run_ghistory(case)


def _run_ghistory(case):
    F = _F()
    scratch = tempfile.mkdtemp(prefix="c08g-")
    try:
        world = GL.World(case["world"], case["doc"], scratch)
        conc = world.conc
        desc = K.desc_of(conc)
        twin = F.FlowIRConcrete(conc.raw(), world.platform, {})           # receives the updates only, plainly
        twin_norm = K.desc_norm(twin)
        flat, answers, failures = [], [], []
        state = {"fresh": None, "rebuilt": None}

        def fresh():
            if state["fresh"] is None:
                state["fresh"] = F.FlowIRConcrete(conc.raw(), world.platform, {})
            return state["fresh"]

        def rebuilt():
            if state["rebuilt"] is None:
                try:
                    state["rebuilt"] = GL.rebuild(world)
                except Exception as exc:
                    state["rebuilt"] = type(exc).__name__       # the description no longer validates: no reference
            return state["rebuilt"]

        def one(op):
            keep = []
            if op["op"] == "view":
                flags = GL.effective_flags(world, op)
                a = GL.do_view(world, op, keep)
                route = GL.SECTIONS[op["what"]]
                i, n = op["stage"], op["name"]
                try:
                    ref = GL.wrap(lambda: GL._lookup(fresh().get_component_configuration((i, n), **K.flag_kwargs(flags)),
                                                     route))
                except Exception as exc:
                    failures.append(("description-cannot-be-reloaded", {"error": type(exc).__name__, "before": op}))
                    ref = a
                if canon(coarse(a)) != canon(coarse(ref)):
                    failures.append(("view-differs-from-from-scratch-resolution",
                                     {"view": op, "flags": flags, "answer": a, "from_scratch": ref,
                                      "difference": K.first_difference(ref, a)}))
                flat.append(view_model_op(op, flags))
                answers.append(a)
            elif op["op"] == "opaque":
                a = GL.do_opaque(world.wg, op, keep)
                ref_world = rebuilt()
                if not isinstance(ref_world, str):
                    ref = GL.do_opaque(ref_world, op, keep)
                    if canon(coarse(a)) != canon(coarse(ref)):
                        failures.append(("view-differs-from-a-graph-rebuilt-from-the-current-description",
                                         {"view": op, "answer": a, "rebuilt": ref,
                                          "difference": K.first_difference(ref, a)}))
                flat.append({"op": "via", "entry": "graph", "u": {"op": "read"}})
                answers.append({"ok": None})
            elif op["op"] == "via":
                u = op["u"]
                a = GL.do_update(world, op, apply_op)
                if u["op"] not in READ_ONLY:
                    b = apply_op(twin, u)
                    state["fresh"] = state["rebuilt"] = None
                    if canon(coarse(a)) != canon(coarse(b)):
                        failures.append(("update-through-an-object-answers-differently-from-the-plain-mutator",
                                         {"op": op, "answer": a, "plain": b}))
                now = K.desc_norm(conc)
                if now != K.desc_norm(twin):
                    failures.append(("description-differs-from-the-same-updates-made-through-FlowIRConcrete",
                                     {"after": op, "difference": K.first_difference(K.desc_norm(twin), now)}))
                    twin_new = F.FlowIRConcrete(conc.raw(), world.platform, {})
                    twin.__dict__.update(twin_new.__dict__)
                flat.append({"op": "via", "entry": op["entry"], "u": model_ops([u])[0]})
                answers.append(a)
            else:
                raise ValueError(op["op"])
            for r in keep:
                scramble(r)

        for op in case["ops"]:
            if op["op"] == "gsweep":
                for q in GL.sweep_ops(world, opaque=case["world"]["mode"] == "graph"):
                    one(q)
            else:
                one(op)
        return desc, world.platform, flat, answers, failures
    finally:
        shutil.rmtree(scratch, ignore_errors=True)


RESOLUTION_ERRORS = {"unknown-variable", "invalid-variable", "incomplete-variable", "invalid-type", "recursion"}


def coarse(a):
    """several resolution errors can coexist in a history; which one is reported first depends on dictionary
    order, which the model does not reproduce: compare the class only"""
    if isinstance(a, dict) and a.get("error") in RESOLUTION_ERRORS:
        return {"error": "resolution-error"}
    return a


def model_ops(flat):
    out = []
    for op in flat:
        o = dict(op)
        if o["op"] == "queryF":
            o.update(o.pop("flags"))
        elif o["op"] == "read":
            o = {"op": "read"}
        elif o["op"] == "touchVars":
            o = {"op": "touchVars"}
        elif o["op"] == "setVarViaRef":
            o["op"] = "setVar"
        elif o["op"] == "setGlobalVarViaRef":
            o["op"] = "setPlatGlobalVar"
        if "value" in o:
            o["value"] = K.to_json(o["value"])
        if "body" in o:
            o["body"] = K.to_json(o["body"])
        out.append(o)
    return out


def stale(case):
    try:
        if case.get("kind") == "ghistory":
            return bool(run_ghistory(case)[4])
        return bool(run_history(case)[3])
    except Exception:
        return False


def shrinker(what, case):
    if case.get("kind") == "ghistory":
        ops = shrink_list(case["ops"], lambda ops: stale(dict(case, ops=list(ops))), max_steps=80)
        small = dict(case, ops=list(ops))
        # a sweep asks ~100 questions: try to do with the single views that fail
        for k, op in enumerate(small["ops"]):
            if op["op"] != "gsweep":
                continue
            try:
                scratch = tempfile.mkdtemp(prefix="c08g-")
                world = GL.World(small["world"], small["doc"], scratch)
                qs = GL.sweep_ops(world, opaque=small["world"]["mode"] == "graph")
            except Exception:
                continue
            finally:
                shutil.rmtree(scratch, ignore_errors=True)
            head, tail = small["ops"][:k], small["ops"][k + 1:]
            qs = shrink_list(qs, lambda q: stale(dict(small, ops=head + list(q) + tail)), max_steps=60)
            cand = dict(small, ops=head + list(qs) + tail)
            if stale(cand):
                return shrinker_tail(cand)
        return small
    ops = shrink_list(case["ops"], lambda ops: stale(dict(case, ops=list(ops) + [{"op": "sweep"}])), max_steps=150)
    small = dict(case, ops=list(ops) + [{"op": "sweep"}])
    comps = shrink_list(small["doc"]["components"],
                        lambda cs: stale(dict(small, doc=dict(small["doc"], components=list(cs)))), max_steps=20)
    return dict(small, doc=dict(small["doc"], components=list(comps)))


def shrinker_tail(case):
    """expand the remaining sweeps of a graph-layer history one at a time (bounded)"""
    for _ in range(3):
        if not any(o["op"] == "gsweep" for o in case["ops"]):
            break
        k = next(k for k, o in enumerate(case["ops"]) if o["op"] == "gsweep")
        scratch = tempfile.mkdtemp(prefix="c08g-")
        try:
            world = GL.World(case["world"], case["doc"], scratch)
            qs = GL.sweep_ops(world, opaque=case["world"]["mode"] == "graph")
        except Exception:
            break
        finally:
            shutil.rmtree(scratch, ignore_errors=True)
        head, tail = case["ops"][:k], case["ops"][k + 1:]
        qs = shrink_list(qs, lambda q: stale(dict(case, ops=head + list(q) + tail)), max_steps=60)
        cand = dict(case, ops=head + list(qs) + tail)
        if not stale(cand):
            break
        case = cand
    return case


def has_meta(s):
    return any(ch in s for ch in "+*?|()[]{}$^\\")


def classify_regex_name(what, case, detail):
    """stale / failing invalidation caused by a component name that contains regular-expression metacharacters"""
    if what not in ("query-differs-from-from-scratch-resolution",):
        return False
    return has_meta(detail.get("query", {}).get("name", ""))


UPDATE_ALIAS = "update_component-keeps-the-callers-nested-objects"
ALIAS_SLUGS = ("query-differs-from-from-scratch-resolution", "query-differs-from-replaying-only-the-updates",
               "description-differs-from-replaying-only-the-updates",
               "update-answers-differently-after-read-only-operations", "description-cannot-be-reloaded")


def classify_update_alias(what, case, detail):
    """a divergence inside a history in which >= 2 update_component calls were given dictionaries that share their
    nested sections (one template dictionary of the caller): update_component() stores the caller's nested objects
    (component.update(new_flowir) is shallow), so an edit of one of the components rewrites its siblings without
    invalidating their cached configurations"""
    if what != UPDATE_ALIAS or case.get("share") != "update":
        return False
    shared = [o.get("share") for o in case.get("ops", []) if o.get("op") == "updateComp" and o.get("share") is not None]
    return any(shared.count(t) >= 2 for t in set(shared))


LABEL_COLLISION = "cache-label-names-two-components"


def colliding_labels(case):
    """two different (platform, stage, component name) triples of the case whose cache label
    `component:<platform>:stage<i>:<name>` is the same text (platform `q:stage0:a` + stage1.b  ==  platform `q` +
    stage0 `a:stage1:b`), or None"""
    doc = case.get("doc") or {}
    plats = list(dict.fromkeys(["default"] + list(doc.get("platforms") or PLATFORMS)))
    ids = [(c.get("stage"), c.get("name")) for c in doc.get("components") or []]
    for o in case.get("ops") or []:
        u = o.get("u") if isinstance(o.get("u"), dict) else o
        if u.get("name") is not None and u.get("stage") is not None:
            ids.append((u["stage"], u["name"]))
    seen = {}
    for P in plats:
        for (i, n) in dict.fromkeys(ids):
            text = "%s:stage%s:%s" % (P, i, n)
            if text in seen and seen[text] != (P, i, n):
                return [list(seen[text]), [P, i, n]]
            seen[text] = (P, i, n)
    return None


def classify_label_collision(what, case, detail):
    """the cache label is plain string formatting of (platform, stage, name): a platform name that contains
    `:stage<i>:<name>` makes two different triples share one label, and a query of one is answered with the cached
    configuration of the other (fixes/C08-cache-label-collision.diff)"""
    return what == LABEL_COLLISION and colliding_labels(case) is not None


_REGISTERED = []
_REGISTERED_COLLISION = []


def label_collision_registered():
    """is the finding in known_findings.json (maintained by the coordinator)? until then such cases are tagged, not run"""
    if not _REGISTERED_COLLISION:
        from harness.common import load_known
        try:
            _REGISTERED_COLLISION.append(any(e.get("classifier") == "c08_cache_label_collision" for e in load_known("C08")))
        except Exception:
            _REGISTERED_COLLISION.append(False)
    return _REGISTERED_COLLISION[0]


def update_alias_registered():
    """is the finding in known_findings.json (maintained by the coordinator)? until then it is only tagged"""
    if not _REGISTERED:
        from harness.common import load_known
        try:
            _REGISTERED.append(any(e.get("classifier") == "c08_update_component_aliases_template"
                                   for e in load_known("C08")))
        except Exception:
            _REGISTERED.append(False)
    return _REGISTERED[0]


CLASSIFIERS = {"c08_component_name_with_regex_metacharacters": classify_regex_name,
               "c08_update_component_aliases_template": classify_update_alias}


def name_tags(case):
    names = case.get("names") or []
    tags = ["platform-name:" + name_class(n) for n in names] or ["platform-name:p"]
    tags.append(ambient_tag(case))
    if len(names) == 2:
        tags.append("platforms:two-renamed")
    if case.get("active"):
        tags.append("active-platform:renamed")
    if any(o.get("implicit") for o in case["ops"]):
        tags.append("query:platform-left-out")
    return tags


def check_ghistory(ctx, case, flat, answers, failures, mo):
    ops = case["ops"]
    upd = [k for k, o in enumerate(ops) if o["op"] == "via" and o["u"]["op"] not in READ_ONLY]
    # non-trivial: an update through one object with a read (or sweep) before it and a read (or sweep) after it
    nontrivial = any(any(o["op"] in ("view", "gsweep", "opaque") for o in ops[:k]) and
                     any(o["op"] in ("view", "gsweep", "opaque") for o in ops[k + 1:]) for k in upd)
    w = case["world"]
    tags = ["gworld:%s/%s/%s/%s" % (w["mode"], "primitive" if w["primitive"] else "replicated",
                                    ("renamed" if case.get("names") else "p") if w["platform"] else "default",
                                    "substitute" if w["substitute"] else "raw")]
    tags += name_tags(case)
    tags += ["gupdate:%s:%s" % (o["entry"], o["u"]["op"]) for o in ops if o["op"] == "via"]
    tags += ["gview:%s:%s" % (o["entry"], o["what"]) for o in ops if o["op"] == "view"]
    tags += ["gopaque:" + o["what"] for o in ops if o["op"] == "opaque"]
    tags += ["ganswer:" + (a.get("error") or "ok") for a in answers]
    ctx.case(case, nontrivial=nontrivial, tags=tags)
    for what, detail in failures:
        ctx.fail(what, case, detail)
    if mo is None:
        return
    manswers = [coarse(a) for a in mo["answers"]]
    answers = [coarse(a) for a in answers]
    if any(a.get("error") == "unsupported" for a in manswers):
        ctx.tag("model:unsupported")
        return
    first = next((k for k, (m, a) in enumerate(zip(manswers, answers)) if canon(m) != canon(a)), None)
    if first is None:
        ctx.compare("experiment graph history == CacheViews.grun", case, {"agree": True}, {"agree": True})
    else:
        ctx.compare("experiment graph history == CacheViews.grun", case,
                    {"agree": True, "index": first, "op": flat[first], "answer": manswers[first]},
                    {"agree": False, "index": first, "op": flat[first], "answer": answers[first]})


def again_stream(ctx, first_runs, n_plain, n_graph):
    """a sample of the histories once more at the end of the run, in another order, after all the unrelated ones
    (the same component names in other roles, other worlds): the implementation must answer what it answered the
    first time - nothing a FlowIRConcrete / graph leaves behind in the process may reach a later one"""
    rng = ctx.rng
    plain = [r for r in first_runs if r[0].get("kind") != "ghistory"]
    graph = [r for r in first_runs if r[0].get("kind") == "ghistory"]
    rng.shuffle(plain)
    rng.shuffle(graph)
    sample = plain[:n_plain] + graph[:n_graph]
    rng.shuffle(sample)
    for case, first in sample:
        # half of them in a process configured differently (logging enabled <-> disabled, another logger / level):
        # no answer of the interface may depend on how verbose the process is
        slug = "result-depends-on-earlier-cases"
        if rng.random() < 0.5:
            first_ambient = case.get("ambient")
            case = dict(case)
            case.pop("ambient", None)
            if not first_ambient or rng.random() < 0.3:
                case["ambient"] = pick_ambient(rng)
            if case.get("ambient") != first_ambient:
                slug = "result-depends-on-the-logging-configuration"
                case["first_run_ambient"] = first_ambient
                ctx.tag("again:other-logging-configuration")
        if case.get("kind") == "ghistory":
            second = run_ghistory(case)[3]
        else:
            second = run_history(case)[2]
        ctx.tag("again:" + case.get("kind", "history"))
        a, b = [coarse(x) for x in first], [coarse(x) for x in second]
        if canon(a) != canon(b):
            k = next((k for k, (x, y) in enumerate(zip(a, b)) if canon(x) != canon(y)), min(len(a), len(b)))
            ctx.fail(slug, case,
                     {"index": k, "first_time": a[k] if k < len(a) else None,
                      "at_the_end_of_the_run": b[k] if k < len(b) else None})


def check_histories(ctx, cases):
    runs = []
    reqs = []
    kept = []
    for case in cases:
        pair = colliding_labels(case)
        kept.append(case)
        if pair is None:
            continue
        # two triples of this case would share the text `<platform>:stage<i>:<name>`.  Before /repo 'fix: component
        # cache labels spell out ...' they shared one cache label and a query of one was answered with the cached
        # configuration of the other (the from-scratch objects collided in the same way, so this direct oracle is what
        # shows it): a query must answer the component it was asked about
        ctx.tag("platform-name:would-collide-as-plain-label")
        try:
            F = _F()
            conc = F.FlowIRConcrete(copy.deepcopy(case["doc"]), case.get("active", "default"), {})
            wrong = []
            for (P, i, n) in pair:
                res = conc.get_component_configuration((i, n), raw=False, include_default=True, platform=P)
                if (res.get("stage"), res.get("name")) != (i, n):
                    wrong.append({"asked": [P, i, n], "answered": [res.get("stage"), res.get("name")]})
        except Exception:
            wrong = []
        if wrong:
            ctx.fail(LABEL_COLLISION, case, {"labels": pair, "wrong": wrong})
    cases = kept
    for case in cases:
        if case.get("kind") == "ghistory":
            desc, platform, flat, answers, failures = run_ghistory(case)
            runs.append((flat, answers, failures))
            reqs.append({"op": "grun", "desc": desc, "platform": platform, "fuel": FUEL, "ops": flat})
            continue
        desc, flat, answers, failures = run_history(case)
        runs.append((flat, answers, failures))
        reqs.append({"op": "run", "desc": desc, "fuel": FUEL, "ops": model_ops(flat)})
    mouts = ctx.model(reqs)
    for case, (flat, answers, failures), mo in zip(cases, runs, mouts or [None] * len(cases)):
        if case.get("kind") == "ghistory":
            check_ghistory(ctx, case, flat, answers, failures, mo)
            continue
        kinds = sorted({o["op"] for o in case["ops"]})
        muts = [o for o in case["ops"] if o["op"] not in READ_ONLY + ("sweep",)]
        triple = case["ops"][0]["op"] == "sweep" and len(muts) == 1
        ctx.case(case, nontrivial=(len(muts) >= 2 or triple) and
                 any(o["op"] in READ_ONLY + ("sweep",) for o in case["ops"][:-1]),
                 tags=["history:" + ("meta-names" if case["meta"] else "plain")] + ["op:" + k for k in kinds] +
                      name_tags(case) +
                      ["read:" + o["what"] for o in case["ops"] if o["op"] == "read"] +
                      [K.flag_tag(o["flags"]) for o in case["ops"] if o["op"] == "queryF"] +
                      ["answer:" + (a.get("error") or "ok") for a in answers])
        # update_component() used to keep the nested objects of the caller's dictionary; repaired in /repo 769ab6f
        # (fixes/C08-update-component-copies.diff).  Histories that share template dictionaries between
        # update_component calls are ordinary cases now: any divergence is an oracle failure.
        for what, detail in failures:
            ctx.fail(what, case, detail)
        if mo is not None:
            manswers = [coarse(a) for a in mo["answers"]]
            answers = [coarse(a) for a in answers]
            if any(a.get("error") == "unsupported" for a in manswers):
                ctx.tag("model:unsupported")
                continue
            # compare answer by answer; report the first difference with its index
            first = next((k for k, (m, a) in enumerate(zip(manswers, answers)) if canon(m) != canon(a)), None)
            if first is None:
                ctx.compare("FlowIRConcrete history == Cache.run", case, {"agree": True}, {"agree": True})
            else:
                ctx.compare("FlowIRConcrete history == Cache.run", case,
                            {"agree": True, "index": first, "op": flat[first], "answer": manswers[first]},
                            {"agree": False, "index": first, "op": flat[first], "answer": answers[first]})
    return [(case, answers) for case, (flat, answers, failures) in zip(cases, runs)]


def run(ctx):
    K._quiet()
    ctx.classifiers = CLASSIFIERS
    rng = ctx.rng
    quick = ctx.tier == "quick"
    ctx.rule = ("cases = histories over 3+ components (stages 0/1, stage-scoped blueprints) and platforms default/p "
                "(renamed, see the end): "
                "random sequences of the 11 mutators (+ writes through the reference getters), fully resolved queries, "
                "queries with every combination of raw/include_default/is_primitive/inject_missing_fields, copying "
                "accessors (instance, replicate, raw, copy, component / blueprint / variable getters; every returned "
                "object scribbled on) and reference getters without a write (length <= 30 quick / <= 200 thorough), "
                "with 'sweep' points at which every component is queried on both platforms and compared with a "
                "from-scratch FlowIRConcrete(raw()) and with a fresh object built from a twin that received only the "
                "updates; every query answer is scrambled in place and the query repeated; after every operation the "
                "description is compared with the twin's; one stream uses component names with regular-expression "
                "metacharacters; plus a systematic stream 'populate the cache everywhere - ONE update - ask everything "
                "again' over every kind of update (variable setters: every variable x platform x stage; component "
                "updates: every component); non-trivial = (>= 2 mutators or the systematic pattern) and a read-only "
                "operation before the end; distinct by canonical JSON of the history.  Setter values include the "
                "value already there, ==-equal scalars of another type (1/1.0/True, 0/0.0/False), their string "
                "spellings and the falsy ones; a systematic stream 'set(x) - ask everything - set(y) - ask everything' "
                "covers every setter x scope x such pair and component replacement by an ==-equal body.  Second layer: "
                "histories on a real experiment graph (7 worlds: graphFromFlowIR primitive/replicated x platform, raw, "
                "experiment_from_flowir x platform) mixing reads and updates through ComponentSpecification (own and "
                "sibling graph), node accessors, WorkflowGraph, FlowIRExperimentConfiguration, Job, FlowIRConcrete; "
                "every read compared with the matching part of a from-scratch resolution, sweeps ask every object "
                "about every node, systematic 'sweep - ONE update through object E - sweep' for every object x update "
                "kind; non-trivial there = an update with a read before and a read after it.  Caller-side aliasing: in "
                "40% of the random histories the components are stamped out of 1-2 template dictionaries of the caller - "
                "add_component (2/5; in 40% of the calls the caller scribbles on its dictionary afterwards) or "
                "update_component (1/5) receive dictionaries whose nested sections are the SAME objects as those of the "
                "earlier calls of the template - and a systematic stream 'stamp 3 components out of one dictionary - ask "
                "everything - ONE edit of one of them (each of 11 kinds) - ask everything - flush - ask everything', "
                "scribbling after add_component, and delete + add out of the same template; the twin and the "
                "reference objects always receive brand new copies.  A sample of the histories (25 + 4 graph-layer "
                "ones; thorough 150 + 20) is run AGAIN at the end of the run in another order: the answers must be the "
                "first ones.  Every flag-variant query inside a history is compared with the answer of a BRAND NEW "
                "FlowIRConcrete(raw()) too, and a systematic stream does 'update - query with flags A - with B - with A - ask "
                "everything' for the ordered pairs (A, B) of the 16 keyword combinations (all 30 with the fully resolved "
                "variant + 20 others quick / all 240 thorough) on a component that mentions only its own variables (the "
                "variants without inherited variables succeed there) or an ordinary one.  Platform names: FlowIR accepts any string; half of the random histories (both layers), 60% "
                "of the systematic 'populate - ONE update - ask again' cases and 30-40% of the other systematic ones "
                "have their second platform renamed from `p` to a name out of 12 deployment-style names "
                "(openshift-kubeflux, lsf.cluster, docker/local, OpenShift, ...) or 50 odd ones (regular-expression "
                "metacharacters, blanks, colons, pieces of the label syntax such as `stage0` / `x:stage0:c0` / `component`, "
                "non-ASCII, one character), in half of them next to a THIRD platform whose name sits at the lexical "
                "boundaries of the second (prefix / suffix / doubling / case variant / escaped spelling; its sections "
                "hold other values) with the operations dealt between the two; in 40% of the renamed first-layer cases the "
                "object is constructed FOR the renamed platform and queries of it leave the platform argument out; a "
                "systematic stream takes EVERY name of the pools x components whose (stage, name) sit at the lexical "
                "boundaries of one another (stages 0/1/2/10/11, c / c0 / c00 / c0- / c-0 / c0:stage1:c0 / stage0 ...): ask "
                "everything on every platform - update ONE component (1 of 15 ways quick, 5 thorough) - ask everything.")
    ctx.assumptions = ["mutators are called on the existing platforms only",
                       "platform names are non-empty (the empty name is an alias of the active platform); names with line "
                       "breaks are in the pools",
                       "no two (platform, stage, component name) triples of a case spell the same cache label "
                       "component:<platform>:stage<i>:<name> (finding cache-label-names-two-components on the unchanged "
                       "tree, fixes/C08-cache-label-collision.diff: such cases are tagged and, once the finding is "
                       "registered, reported under that slug)",
                       "update_component is given a body with the same (stage, name)",
                       "values are strings / integers / booleans / floats / None / short lists",
                       "the caller does not mutate a VALUE (list) after handing it to a setter, nor the dictionary it "
                       "gave to update_component (add_component documents insert_copy=True: there the caller does)",
                       "graph layer: components are not added / deleted (the graph's node set is fixed), "
                       "#workflowAttributes.repeatInterval / isRepeat and #command.interpreter are not driven (isRepeat is "
                       "re-derived from repeatInterval when a description is loaded, so raw() is not a fixed point of "
                       "loading for them; the interpreter digest is outside the Lean resolver)"]
    ctx.trusted.append("C08: aliasing ('private copy') is decided by the harness only (scramble + re-query)")
    ctx.trusted.append("C08 graph layer: which keyword arguments each view of graph.py / conf.py / data.py passes to "
                       "get_component_configuration is written down in harness/c08_graph.py (fixed_flags, SECTIONS) and "
                       "confirmed on every read by the from-scratch comparison; environment / command line / isReplicating "
                       "/ isAggregating are compared with a graph rebuilt from raw() and are opaque to the model")
    ctx.shrinker = shrinker
    cases = []
    n_plain, n_meta = (45, 15) if quick else (260, 60)
    for k in range(n_plain):
        cases.append(maybe_rename(rng, gen_history(rng, rng.randint(5, 30 if quick else 200), False), 0.5))
    for k in range(n_meta):
        cases.append(maybe_rename(rng, gen_history(rng, rng.randint(5, 30 if quick else 120), True), 0.5))
    cases.extend(maybe_rename(rng, c, 0.6) for c in gen_triples(rng, 1 if quick else 4))
    cases.extend(maybe_rename(rng, c, 0.3) for c in gen_equal_resets(rng, 6 if quick else None))
    # components stamped out of ONE dictionary of the caller (add_component / update_component), edited one by one
    for _ in range(1 if quick else 4):
        cases.extend(maybe_rename(rng, c, 0.4) for c in gen_shared_templates(rng, "add"))
        cases.extend(maybe_rename(rng, c, 0.4) for c in gen_shared_templates(rng, "update"))
    # two variants of the query back to back (what one of them caches must never answer the other)
    cases.extend(maybe_rename(rng, c, 0.3) for c in gen_flag_pairs(rng, 20 if quick else None))
    # every platform name of the pools x component-level updates, components at the lexical boundaries of one another
    cases.extend(gen_platform_names(rng, 1 if quick else 5))
    # second layer: the same question through every object of a real experiment graph
    for k in range(35 if quick else 120):
        cases.append(maybe_rename(rng, gen_ghistory(rng, rng.randint(4, 25 if quick else 60), GL.WORLDS[k % len(GL.WORLDS)]),
                                  0.5))
    cases.extend(maybe_rename(rng, c, 0.6) for c in
                 gen_gtriples(rng, [rng.choice(GL.WORLDS[:5]), rng.choice(GL.WORLDS[5:])] if quick else GL.WORLDS))
    # minimal regression inputs (corpus, inline): the read-before-write staleness pattern
    doc = base_doc(["a+b", "c0"])
    cases.insert(0, {"kind": "history", "meta": True, "doc": doc, "ops": [
        {"op": "query", "stage": 0, "name": "a+b", "platform": "default"},
        {"op": "setVar", "stage": 0, "name": "a+b", "var": "x", "value": "2"}, {"op": "sweep"}]})
    # flatten-before-resolve: what creating an experiment instance does (instance() without the built-in
    # defaults), then every component is resolved
    doc = base_doc(["c0", "c1", "d", "c", "c00"])
    cases.insert(1, {"kind": "history", "meta": False, "doc": doc, "ops": [
        {"op": "read", "what": "instance", "platform": "default", "fill_in_all": False, "prim": True, "inject": False},
        {"op": "sweep"},
        {"op": "setVar", "stage": 0, "name": "c0", "var": "x", "value": "2"},
        {"op": "read", "what": "instance", "platform": "p", "fill_in_all": False, "prim": True, "inject": False},
        {"op": "sweep"}]})
    # ambient settings: a share of every stream runs in a process with logging enabled (root / one logger / every
    # logger at a level between 1 and 19), plus the systematic stream over every (scope, level)
    cases = [maybe_ambient(rng, c, 0.5 if len(c["ops"]) <= 6 else 0.35) for c in cases]
    cases.extend(gen_ambient(rng, 2 if quick else 8))
    gworlds = [rng.choice(GL.WORLDS)] if quick else GL.WORLDS
    cases.extend(dict(c, ambient=pick_ambient(rng)) for c in gen_gtriples(rng, gworlds))
    first_runs = check_histories(ctx, cases)
    again_stream(ctx, first_runs, 25 if quick else 150, 4 if quick else 20)


def replay(ctx, doc):
    ctx.classifiers = CLASSIFIERS
    K._quiet()
    case = doc.get("input") or doc["no_longer_checks"][-1]["input"]
    case = K.fix_int_keys(case)
    ctx.shrinker = None
    check_histories(ctx, [case])
