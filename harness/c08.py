"""C08 - Configuration queries always reflect the latest updates.

Implementation under test (real code, in-process): one FlowIRConcrete per history, driven through its
mutators (set/delete component variables and options, global / stage / platform variables, add / replace /
delete components) with get_component_configuration(..., raw=False, include_default=True, platform=P)
queries interleaved.
Model: lean/St4sd/Model/Cache.lean via drv-c08 (state = description + cache).  Theorems: Props/C08.lean.

Oracle (model independent): after an operation, the configuration of every component on every platform
must equal the one computed by a from-scratch FlowIRConcrete(raw(), platform, documents); every returned
dictionary is mutated in place and the query repeated (private-copy clause, decided here only).

Read-only operations are part of the histories: get_component_configuration with every combination of raw /
include_default / is_primitive / inject_missing_fields (answers compared with the model), instance(),
replicate(), raw(), copy(), the component / blueprint / variable getters (answers not modelled, every returned
object is scribbled on), the reference getters without a write, and writes through the reference getters.
A twin object receives ONLY the updates of the history: at every point the description of the object under
test must equal the twin's, and at the sweep points every answer must equal the one of a fresh object built
from the twin's description (read-only operations never change a later answer).
"""
from __future__ import annotations

import copy
import json
import logging
import sys

from harness import c04 as K
from harness.common import shrink_list, canon

FUEL = 400
PLATFORMS = ["default", "p"]
PLAIN_NAMES = ["c0", "c1", "d", "c", "c00"]
META_NAMES = ["a+b", "a.b", "x*", "a?b", "a|b", "x(y", "[ab]", "a{2}", "c$", "a\\d"]
VARS = ["x", "y", "g", "s"]
VALUES = ["1", "2", "vv", 7, True, "%(x)s", "%(g)s", "%(s)s-%(g)s", "", 2.5, "%(nowhere)s"]
ROUTES = ["#command.arguments", "#command.environment", "#command.executable", "#resourceRequest.numberProcesses",
          "#workflowAttributes.replicate", "#resourceManager.config.backend", "x", "y", "#variables.x"]
ROUTE_VALUES = ["-a %(x)s", "%(g)s", "plain", 3, "4", "%(y)s", None, ["in:ref"]]


def _F():
    return K._F()


def body(name, stage, rng=None, flavour=0):
    b = {"stage": stage, "name": name,
         "command": {"executable": "echo", "arguments": ["%(x)s %(g)s", "%(x)s", "%(s)s/%(g)s", "lit"][flavour % 4]},
         "variables": {"x": "X%d" % flavour}, "references": []}
    if flavour % 4 == 2:
        # options of sections that only the stage-scoped blueprints mention
        b["resourceManager"] = {"config": {"walltime": 5 + flavour}}
        b["workflowAttributes"] = {"maxRestarts": flavour}
    if flavour % 3 == 1:
        b["resourceRequest"] = {"numberProcesses": "%(x)s" if flavour % 2 else 2}
        b["variables"]["x"] = "3"
    if flavour % 5 == 2:
        b["override"] = {"p": {"command": {"arguments": "on-p %(g)s"}, "variables": {"x": "XP"}}}
    return b


def base_doc(names):
    comps = []
    for k, n in enumerate(names):
        comps.append(body(n, k % 2, flavour=k))
    return {
        "platforms": list(PLATFORMS),
        "blueprint": {"default": {"global": {"command": {"environment": "%(g)s"}},
                                  "stages": {0: {"resourceManager": {"config": {"walltime": 30}},
                                                 "resourceRequest": {"numberThreads": 2}},
                                             1: {"workflowAttributes": {"maxRestarts": 3, "shutdownOn": ["KnownIssue"]}}}},
                      "p": {"global": {"resourceManager": {"config": {"backend": "%(s)s"}}},
                            "stages": {0: {"workflowAttributes": {"maxRestarts": 4}},
                                       1: {"resourceRequest": {"numberProcesses": 3}, "custom": {"k": "%(g)s"}}}}},
        "variables": {"default": {"global": {"g": "G", "s": "local"}, "stages": {0: {"s": "local"}, 1: {}}},
                      "p": {"global": {"g": "GP"}, "stages": {0: {}, 1: {"s": "lsf"}}}},
        "components": comps,
    }


def gen_history(rng, length, meta):
    pool = list(PLAIN_NAMES) + (rng.sample(META_NAMES, 3) if meta else [])
    names = rng.sample(pool, 3) if not meta else rng.sample(META_NAMES, 2) + rng.sample(PLAIN_NAMES, 1)
    doc = base_doc(names)
    live = {n: k % 2 for k, n in enumerate(names)}
    ops = []
    flav = 3
    for _ in range(length):
        kind = rng.choice(["setVar", "setVar", "delVar", "setOption", "setOption", "removeOption", "setGlobalVar",
                           "setStageVar", "setPlatGlobalVar", "setPlatStageVar", "addComp", "updateComp", "deleteComp",
                           "query", "query", "query", "sweep", "sweep",
                           "queryF", "queryF", "queryF", "read", "read", "read", "touchComp", "touchVars",
                           "setVarViaRef", "setGlobalVarViaRef"])
        known = list(live.items())
        if rng.random() < 0.08 or not known:
            target = (rng.choice(pool), rng.choice([0, 1]))          # possibly unknown component
        else:
            target = rng.choice(known)
        n, i = target
        if kind == "setVar":
            ops.append({"op": kind, "stage": i, "name": n, "var": rng.choice(VARS), "value": rng.choice(VALUES)})
        elif kind == "delVar":
            ops.append({"op": kind, "stage": i, "name": n, "var": rng.choice(VARS)})
        elif kind == "setOption":
            ops.append({"op": kind, "stage": i, "name": n, "route": rng.choice(ROUTES), "value": rng.choice(ROUTE_VALUES)})
        elif kind == "removeOption":
            ops.append({"op": kind, "stage": i, "name": n, "route": rng.choice(ROUTES)})
        elif kind == "setGlobalVar":
            ops.append({"op": kind, "var": rng.choice(VARS), "value": rng.choice(VALUES)})
        elif kind == "setStageVar":
            ops.append({"op": kind, "stage": rng.choice([0, 1, 1, 2]), "var": rng.choice(VARS), "value": rng.choice(VALUES)})
        elif kind == "setPlatGlobalVar":
            ops.append({"op": kind, "platform": rng.choice(PLATFORMS), "var": rng.choice(VARS), "value": rng.choice(VALUES)})
        elif kind == "setPlatStageVar":
            ops.append({"op": kind, "platform": rng.choice(PLATFORMS), "stage": rng.choice([0, 1, 2]),
                        "var": rng.choice(VARS), "value": rng.choice(VALUES)})
        elif kind == "addComp":
            n2 = rng.choice(pool)
            i2 = rng.choice([0, 1])
            flav += 1
            ops.append({"op": kind, "stage": i2, "name": n2, "body": body(n2, i2, flavour=flav)})
            if n2 not in live:
                live[n2] = i2
        elif kind == "updateComp":
            flav += 1
            ops.append({"op": kind, "stage": i, "name": n, "body": body(n, i, flavour=flav)})
        elif kind == "deleteComp":
            ops.append({"op": kind, "stage": i, "name": n})
            if live.get(n) == i:
                del live[n]
        elif kind == "query":
            ops.append({"op": "query", "stage": i, "name": n, "platform": rng.choice(PLATFORMS)})
        elif kind == "queryF":
            ops.append({"op": "queryF", "stage": i, "name": n, "platform": rng.choice(PLATFORMS),
                        "flags": rng.choice(K.ALL_FLAGS)})
        elif kind == "read":
            ops.append(K.gen_read(rng, [(si, sn) for sn, si in known], PLATFORMS))
        elif kind == "touchComp":
            ops.append({"op": kind, "stage": i, "name": n})
        elif kind == "touchVars":
            ops.append({"op": kind, "platform": rng.choice(PLATFORMS), "stage": rng.choice([None, 0, 1])})
        elif kind == "setVarViaRef":
            ops.append({"op": kind, "stage": i, "name": n, "var": rng.choice(VARS), "value": rng.choice(VALUES)})
        elif kind == "setGlobalVarViaRef":
            ops.append({"op": kind, "platform": rng.choice(PLATFORMS), "var": rng.choice(VARS), "value": rng.choice(VALUES)})
        else:
            ops.append({"op": "sweep"})
    ops.append({"op": "sweep"})
    return {"kind": "history", "meta": meta, "doc": doc, "ops": ops}


def gen_triples(rng, repeat):
    """systematic stream: populate the cache for every component on every platform, ONE update, ask again -
    every kind of update, every variable name x every platform (x stage) for the variable setters, every
    component for the component-level ones"""
    names = ["c0", "c1", "d"]
    out = []

    def add(op, pre=None):
        ops = [{"op": "sweep"}] + ([pre] if pre else []) + [op, {"op": "sweep"}]
        out.append({"kind": "history", "meta": False, "doc": base_doc(names), "ops": ops})

    for _ in range(repeat):
        val = lambda: rng.choice(["vv", "1", 7, "%(g)s"])
        for v in VARS:
            add({"op": "setGlobalVar", "var": v, "value": val()})
            for P in PLATFORMS:
                add({"op": "setPlatGlobalVar", "platform": P, "var": v, "value": val()})
                add({"op": "setGlobalVarViaRef", "platform": P, "var": v, "value": val()})
                for st in (0, 1):
                    add({"op": "setPlatStageVar", "platform": P, "stage": st, "var": v, "value": val()})
            for st in (0, 1):
                add({"op": "setStageVar", "stage": st, "var": v, "value": val()})
        for k, n in enumerate(names):
            st = k % 2
            for v in VARS:
                add({"op": "setVar", "stage": st, "name": n, "var": v, "value": val()})
            add({"op": "setVarViaRef", "stage": st, "name": n, "var": rng.choice(VARS), "value": val()})
            add({"op": "delVar", "stage": st, "name": n, "var": "x"})
            add({"op": "setOption", "stage": st, "name": n, "route": rng.choice(ROUTES), "value": rng.choice(ROUTE_VALUES)})
            add({"op": "setOption", "stage": st, "name": n, "route": "#command.arguments", "value": "-a %(x)s"})
            add({"op": "removeOption", "stage": st, "name": n, "route": rng.choice(["x", "#command.arguments", "#references"])})
            add({"op": "updateComp", "stage": st, "name": n, "body": body(n, st, flavour=rng.randint(4, 12))})
            add({"op": "deleteComp", "stage": st, "name": n})
            # a flatten / no-defaults query of a sibling between populating and asking again
            add({"op": "touchComp", "stage": st, "name": n},
                pre={"op": "queryF", "stage": st, "name": n, "platform": rng.choice(PLATFORMS),
                     "flags": {"raw": rng.random() < 0.5, "incl": rng.random() < 0.5, "prim": rng.random() < 0.5,
                               "inject": False}})
        add({"op": "addComp", "stage": 0, "name": "c00", "body": body("c00", 0, flavour=rng.randint(4, 12))})
        add({"op": "touchVars", "platform": rng.choice(PLATFORMS), "stage": rng.choice([None, 0, 1])},
            pre={"op": "read", "what": "instance", "platform": rng.choice(PLATFORMS), "fill_in_all": False,
                 "prim": True, "inject": False})
    return out


# ----------------------------------------------------------------------------------------
# real code
# ----------------------------------------------------------------------------------------

scramble = K.scramble


READ_ONLY = ("query", "queryF", "read", "touchComp", "touchVars")


def apply_op(conc, op):
    F = _F()
    k = op["op"]
    try:
        if k == "query":
            res = conc.get_component_configuration((op["stage"], op["name"]), raw=False, include_default=True,
                                                   platform=op["platform"])
            out = {"ok": K.to_json(res)}
            scramble(res)
            return out
        if k == "queryF":
            keep = []
            out = K.impl_resolve(conc, (op["stage"], op["name"]), op["platform"], op["flags"]["prim"], op["flags"], keep)
            for r in keep:
                scramble(r)
            return out
        if k == "read":
            return K.apply_read(conc, op)
        if k in ("touchComp", "touchVars"):
            return K.apply_touch(conc, op)
        cid = (op.get("stage"), op.get("name"))
        if k == "setVarViaRef":
            ref = conc.get_component(cid, return_copy=False)
            ref["variables"][op["var"]] = copy.deepcopy(op["value"])
            return {"ok": None}
        if k == "setGlobalVarViaRef":
            ref = conc.get_platform_global_variables(op["platform"], return_copy=False)
            ref[op["var"]] = copy.deepcopy(op["value"])
            return {"ok": None}
        if k == "setVar":
            conc.set_component_variable(cid, op["var"], copy.deepcopy(op["value"]))
        elif k == "delVar":
            conc.delete_component_variable(cid, op["var"])
        elif k == "setOption":
            conc.set_component_option(cid, op["route"], copy.deepcopy(op["value"]))
        elif k == "removeOption":
            conc.remove_component_option(cid, op["route"])
        elif k == "setGlobalVar":
            conc.set_global_variable(op["var"], copy.deepcopy(op["value"]))
        elif k == "setStageVar":
            conc.set_stage_variable(op["stage"], op["var"], copy.deepcopy(op["value"]))
        elif k == "setPlatGlobalVar":
            conc.set_platform_global_variable(op["var"], copy.deepcopy(op["value"]), op["platform"])
        elif k == "setPlatStageVar":
            conc.set_platform_stage_variable(op["stage"], op["var"], copy.deepcopy(op["value"]), op["platform"])
        elif k == "addComp":
            conc.add_component(copy.deepcopy(op["body"]))
        elif k == "updateComp":
            conc.update_component(cid, copy.deepcopy(op["body"]))
        elif k == "deleteComp":
            conc.delete_component(cid)
        else:
            raise ValueError(k)
        return {"ok": None}
    except BaseException as exc:
        if isinstance(exc, (KeyboardInterrupt, SystemExit)):
            raise
        return K.err_kind(exc)


def expand(ops, conc_ids):
    """not used"""
    return ops


def run_history(case, want_model_ops=True):
    """runs the history on the real code; returns (flat ops incl. sweep queries, impl answers, oracle failures)"""
    F = _F()
    conc = F.FlowIRConcrete(copy.deepcopy(case["doc"]), "default", {})
    twin = F.FlowIRConcrete(copy.deepcopy(case["doc"]), "default", {})     # receives the updates only
    desc = K.desc_of(conc)
    twin_norm = K.desc_norm(twin)
    flat, answers, failures = [], [], []
    for idx, op in enumerate(case["ops"]):
        if op["op"] != "sweep":
            flat.append(op)
            a = apply_op(conc, op)
            answers.append(a)
            if op["op"] in ("query", "queryF"):
                # private copy: the caller scrambled the answer; the same query again must be unaffected
                again = apply_op(conc, op)
                flat.append(op)
                answers.append(again)
                if canon(again) != canon(a):
                    failures.append(("returned-configuration-is-not-a-private-copy", {"op": op, "first": a, "again": again}))
            if op["op"] not in READ_ONLY:
                b = apply_op(twin, op)
                twin_norm = K.desc_norm(twin)
                if canon(coarse(a)) != canon(coarse(b)):
                    failures.append(("update-answers-differently-after-read-only-operations",
                                     {"op": op, "index": idx, "answer": a, "updates_only": b}))
            # the description is a function of the updates alone
            now = K.desc_norm(conc)
            if now != twin_norm:
                failures.append(("description-differs-from-replaying-only-the-updates",
                                 {"after": op, "index": idx, "difference": K.first_difference(twin_norm, now)}))
                # resynchronise (report each divergence once); a description that cannot even be loaded
                # any more ends the history
                try:
                    twin = F.FlowIRConcrete(conc.raw(), "default", {})
                    twin_norm = K.desc_norm(twin)
                except Exception as exc:
                    failures.append(("description-cannot-be-reloaded", {"error": type(exc).__name__, "after": op}))
                    break
            continue
        try:
            ids = sorted(conc.get_component_identifiers(False), key=str)
            fresh = F.FlowIRConcrete(conc.raw(), "default", {})
            fresh2 = F.FlowIRConcrete(twin.raw(), "default", {})
        except Exception as exc:
            failures.append(("description-cannot-be-reloaded", {"error": type(exc).__name__}))
            continue
        for (i, n) in ids:
            for P in PLATFORMS:
                q = {"op": "query", "stage": i, "name": n, "platform": P}
                a = apply_op(conc, q)
                flat.append(q)
                answers.append(a)
                # (several resolution errors can coexist; which one is reported first depends on dictionary
                # order, which differs between two objects: errors are compared by class)
                b = apply_op(fresh, q)
                if canon(coarse(a)) != canon(coarse(b)):
                    failures.append(("query-differs-from-from-scratch-resolution", {"query": q, "cached": a, "from_scratch": b}))
                c = apply_op(fresh2, q)
                if canon(coarse(a)) != canon(coarse(c)):
                    failures.append(("query-differs-from-replaying-only-the-updates",
                                     {"query": q, "answer": a, "updates_only": c,
                                      "difference": K.first_difference(c, a)}))
    return desc, flat, answers, failures


RESOLUTION_ERRORS = {"unknown-variable", "invalid-variable", "incomplete-variable", "invalid-type", "recursion"}


def coarse(a):
    """several resolution errors can coexist in a history; which one is reported first depends on dictionary
    order, which the model does not reproduce: compare the class only"""
    if isinstance(a, dict) and a.get("error") in RESOLUTION_ERRORS:
        return {"error": "resolution-error"}
    return a


def model_ops(flat):
    out = []
    for op in flat:
        o = dict(op)
        if o["op"] == "queryF":
            o.update(o.pop("flags"))
        elif o["op"] == "read":
            o = {"op": "read"}
        elif o["op"] == "touchVars":
            o = {"op": "touchVars"}
        elif o["op"] == "setVarViaRef":
            o["op"] = "setVar"
        elif o["op"] == "setGlobalVarViaRef":
            o["op"] = "setPlatGlobalVar"
        if "value" in o:
            o["value"] = K.to_json(o["value"])
        if "body" in o:
            o["body"] = K.to_json(o["body"])
        out.append(o)
    return out


def stale(case):
    try:
        return bool(run_history(case)[3])
    except Exception:
        return False


def shrinker(what, case):
    ops = shrink_list(case["ops"], lambda ops: stale(dict(case, ops=list(ops) + [{"op": "sweep"}])), max_steps=150)
    small = dict(case, ops=list(ops) + [{"op": "sweep"}])
    comps = shrink_list(small["doc"]["components"],
                        lambda cs: stale(dict(small, doc=dict(small["doc"], components=list(cs)))), max_steps=20)
    return dict(small, doc=dict(small["doc"], components=list(comps)))


def has_meta(s):
    return any(ch in s for ch in "+*?|()[]{}$^\\")


def classify_regex_name(what, case, detail):
    """stale / failing invalidation caused by a component name that contains regular-expression metacharacters"""
    if what not in ("query-differs-from-from-scratch-resolution",):
        return False
    return has_meta(detail.get("query", {}).get("name", ""))


CLASSIFIERS = {"c08_component_name_with_regex_metacharacters": classify_regex_name}


def check_histories(ctx, cases):
    runs = []
    reqs = []
    for case in cases:
        desc, flat, answers, failures = run_history(case)
        runs.append((flat, answers, failures))
        reqs.append({"op": "run", "desc": desc, "fuel": FUEL, "ops": model_ops(flat)})
    mouts = ctx.model(reqs)
    for case, (flat, answers, failures), mo in zip(cases, runs, mouts or [None] * len(cases)):
        kinds = sorted({o["op"] for o in case["ops"]})
        muts = [o for o in case["ops"] if o["op"] not in READ_ONLY + ("sweep",)]
        triple = case["ops"][0]["op"] == "sweep" and len(muts) == 1
        ctx.case(case, nontrivial=(len(muts) >= 2 or triple) and
                 any(o["op"] in READ_ONLY + ("sweep",) for o in case["ops"][:-1]),
                 tags=["history:" + ("meta-names" if case["meta"] else "plain")] + ["op:" + k for k in kinds] +
                      ["read:" + o["what"] for o in case["ops"] if o["op"] == "read"] +
                      [K.flag_tag(o["flags"]) for o in case["ops"] if o["op"] == "queryF"] +
                      ["answer:" + (a.get("error") or "ok") for a in answers])
        for what, detail in failures:
            ctx.fail(what, case, detail)
        if mo is not None:
            manswers = [coarse(a) for a in mo["answers"]]
            answers = [coarse(a) for a in answers]
            if any(a.get("error") == "unsupported" for a in manswers):
                ctx.tag("model:unsupported")
                continue
            # compare answer by answer; report the first difference with its index
            first = next((k for k, (m, a) in enumerate(zip(manswers, answers)) if canon(m) != canon(a)), None)
            if first is None:
                ctx.compare("FlowIRConcrete history == Cache.run", case, {"agree": True}, {"agree": True})
            else:
                ctx.compare("FlowIRConcrete history == Cache.run", case,
                            {"agree": True, "index": first, "op": flat[first], "answer": manswers[first]},
                            {"agree": False, "index": first, "op": flat[first], "answer": answers[first]})


def run(ctx):
    K._quiet()
    ctx.classifiers = CLASSIFIERS
    rng = ctx.rng
    quick = ctx.tier == "quick"
    ctx.rule = ("cases = histories over 3+ components (stages 0/1, stage-scoped blueprints) and platforms default/p: "
                "random sequences of the 11 mutators (+ writes through the reference getters), fully resolved queries, "
                "queries with every combination of raw/include_default/is_primitive/inject_missing_fields, copying "
                "accessors (instance, replicate, raw, copy, component / blueprint / variable getters; every returned "
                "object scribbled on) and reference getters without a write (length <= 30 quick / <= 200 thorough), "
                "with 'sweep' points at which every component is queried on both platforms and compared with a "
                "from-scratch FlowIRConcrete(raw()) and with a fresh object built from a twin that received only the "
                "updates; every query answer is scrambled in place and the query repeated; after every operation the "
                "description is compared with the twin's; one stream uses component names with regular-expression "
                "metacharacters; plus a systematic stream 'populate the cache everywhere - ONE update - ask everything "
                "again' over every kind of update (variable setters: every variable x platform x stage; component "
                "updates: every component); non-trivial = (>= 2 mutators or the systematic pattern) and a read-only "
                "operation before the end; distinct by canonical JSON of the history.")
    ctx.assumptions = ["mutators are called on the existing platforms (default, p) only",
                       "update_component is given a body with the same (stage, name)",
                       "values are strings / integers / booleans / floats / None / short lists"]
    ctx.trusted.append("C08: aliasing ('private copy') is decided by the harness only (scramble + re-query)")
    ctx.shrinker = shrinker
    cases = []
    n_plain, n_meta = (45, 15) if quick else (260, 60)
    for k in range(n_plain):
        cases.append(gen_history(rng, rng.randint(5, 30 if quick else 200), False))
    for k in range(n_meta):
        cases.append(gen_history(rng, rng.randint(5, 30 if quick else 120), True))
    cases.extend(gen_triples(rng, 1 if quick else 4))
    # minimal regression inputs (corpus, inline): the read-before-write staleness pattern
    doc = base_doc(["a+b", "c0"])
    cases.insert(0, {"kind": "history", "meta": True, "doc": doc, "ops": [
        {"op": "query", "stage": 0, "name": "a+b", "platform": "default"},
        {"op": "setVar", "stage": 0, "name": "a+b", "var": "x", "value": "2"}, {"op": "sweep"}]})
    # flatten-before-resolve: what creating an experiment instance does (instance() without the built-in
    # defaults), then every component is resolved
    doc = base_doc(["c0", "c1", "d", "c", "c00"])
    cases.insert(1, {"kind": "history", "meta": False, "doc": doc, "ops": [
        {"op": "read", "what": "instance", "platform": "default", "fill_in_all": False, "prim": True, "inject": False},
        {"op": "sweep"},
        {"op": "setVar", "stage": 0, "name": "c0", "var": "x", "value": "2"},
        {"op": "read", "what": "instance", "platform": "p", "fill_in_all": False, "prim": True, "inject": False},
        {"op": "sweep"}]})
    check_histories(ctx, cases)


def replay(ctx, doc):
    ctx.classifiers = CLASSIFIERS
    K._quiet()
    case = doc.get("input") or doc["no_longer_checks"][-1]["input"]
    case = K.fix_int_keys(case)
    ctx.shrinker = None
    check_histories(ctx, [case])
