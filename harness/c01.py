"""C01 — Tasks start only after everything they consume from is finished.

Implementation under test: the real Controller / ComponentState / StageState of /repo (and, in a quarter of the
cases, the real Engine: run / restart / kill / exitReason with a scripted task generator), executed deterministically by
harness/detsim.py; the harness chooses the order of task exits, notification deliveries, scheduler passes (and an
occasional killController).  Notifications travel through the REAL RxPY pipelines of the Controller
(observe_on(controllerPool), filter): the controller pool is a queue whose items run when the harness says so.  The
handler of a finished-notification may be executed in three separately scheduled parts - before / under / after
Controller.comp_lock (ops finA, finB, finC) - between which scheduler passes and other events happen.  The external
stage-completion hook (hooks/status.py::IsStageComplete / Controller.completionCheck) is an event as well: op
["complete", k] makes it answer True for stage k and ticks the poll timer of _observe_completionCheck, the real
pipeline and closure run.  The stand-in of a RepeatingEngine ends only after notify_all_producers_finished or kill().
Model: lean/St4sd/Model/Ctrl.lean + CtrlSplit.lean via drv-c01.  Theorems: lean/St4sd/Props/C01.lean.

A. per static case: a generated FlowIR template (1-3 stages) is replicated by the real loader, exit scripts are drawn
per component, the stage loop (Controller.initialise / real Controller.run() per stage, elaunch's
continue-on-error rule) is driven by a random schedule; the recorded op list is then
applied to the Lean model and the canonical state after EVERY op is compared
({component: (state, in comp_done, in comp_staged_in, #engine.run(), finishCalled)}, stop_executing,
queued notifications, notifications in flight) as well as the launch log (what every first launch saw of its producers).
Oracle (model independent): at every engine.run() the property text is evaluated on the producers'
TRUE states: a producer that has ended is judged by the first final state it entered (its own exit / the first
finish() call), whatever the controller reports about it at launch time.
B. per DoWhile case (no Lean model of loops: failing-input search): a package with one DoWhile document (1-4
iterations, the condition file is written when the condition producer succeeds) and consumers outside the loop
(:ref / :loopref, same or next stage); oracle at the end of the run: every launched component is judged against ALL
producers it finally has in the graph, i.e. every iteration instantiated while the workflow ran.  A second generator
(CS.gen_loop_case_offpath) builds the loop around a looped component that is OFF the critical path of the loop
condition (the next iteration is instantiated as soon as the producer of the condition has finished, so such an
instance can still be running when newer instances of it are over), consumers outside the loop reference it, and
the schedule keeps older instances running (CS.laggard_chooser).  Runs in which every task succeeds are compared
after every op with the Lean model St4sd.CtrlLoop (Model/CtrlLoop.lean, second entry point of drv-c01): current
iteration, phase of every instance (not over / final / locked part of finishedCheck done / in comp_done), consumer
launched - per consumer outside the loop.
"""
from __future__ import annotations

import json
import os
import random

from harness import common
from harness import ctrl_sim as CS
from harness import detsim

CLASSIFIERS = {}

RULE = ("case = A. (FlowIR template of 2-8 components over 1-3 stages - random, or built around a motif: replicated "
        "producer with an aggregating consumer in the same or a later stage / shutdown chain across stages / "
        "observer with several subjects / repeating consumers of producers of EARLIER stages (only, or next to a "
        "same-stage subject without inputs) - with at most one replicated chain (2-3, rarely 10-11 replicas), aggregators (also without replicated "
        "inputs), repeating observers, shutdownOn/restartHookOn/maxRestarts drawn at random, continue-on-error on "
        "some stages; exit script per component (with real engines also launches that raise); the whole stage loop is "
        "run: random schedule of task exits / postmortem deliveries / finished deliveries - atomic or split in the three "
        "parts before / under / after comp_lock - / scheduler passes / ticks / rare kill / in 40% of the cases the "
        "stage-completion hook answering True at a random moment, under one of 6 "
        "delivery biases, stage transitions when a stage completes; a sample is run again at the end of the process) or B. (DoWhile package: loop of 1-4 iterations of "
        "1-2 components in stage 0/1, consumers of the looped components outside the loop in the same or the next stage, "
        "same kinds of schedule; or loop of 2-4 iterations of 2-3 components work / check / side of which at least one is "
        "not upstream of the condition, :ref / :loopref consumers of those, schedule that keeps older instances of "
        "them running while newer iterations are instantiated and end).  Non-trivial = A: the workflow has >= 3 components after "
        "replication, >= 2 components were launched and at least one scheduler pass ran inside a window in which "
        "some component had reached a final state that the controller had not recorded yet; B: >= 2 iterations, >= 3 "
        "launches and (a scheduler pass ran while a finished-notification was being handled or an instance of a looped "
        "component was still running when the instance of the next iteration was over).  Distinct by "
        "canonical JSON of (template | loop, scripts, ops).")


def check_case(ctx, case, ops=None, tag_prefix=""):
    """case = {"template", "scripts" | None, "seed", "personality", "p_kill", "flavour"}; ops given => scripted"""
    rng = random.Random(case.get("seed", 0))
    scripts = case.get("scripts")
    flav = {}

    def mk_scripts(info):
        f, s = CS.gen_scripts(rng, info, case.get("flavour"), real=bool(case.get("real")))
        flav["f"] = f
        return s
    if ops is not None:
        factory = lambda sim: detsim.scripted(ops, finish=case.get("finish", True))
    else:
        factory = lambda sim: CS.random_chooser(rng, case["personality"], case.get("p_kill", 0.0),
                                                p_split=case.get("p_split", 0.0),
                                                p_complete=case.get("p_complete", 0.0))
    try:
        res = CS.run_real(case["template"], scripts if scripts is not None else mk_scripts, factory,
                          cont=case.get("cont", ()), real=bool(case.get("real")), verbose=bool(case.get("verbose")))
    except Exception as exc:  # noqa: the generated package was rejected / could not be built
        ctx.tag(tag_prefix + "build-error:" + type(exc).__name__)
        return None
    full = dict(case)
    full["scripts"] = res.scripts
    full["ops"] = res.ops
    full["finish"] = res.result != "stopped"
    if case.get("verbose"):
        ctx.tag("logging:enabled-down-to-level-1")
    n = len(res.info["comps"])
    launched = sum(1 for c in res.snaps[-1]["comps"] if c[3] > 0) if res.snaps else 0
    win = CS.window_scheds(res)
    tags = [tag_prefix + "result:" + res.result, "n=%d" % n, "personality:" + str(case.get("personality")),
            "flavour:" + str(flav.get("f", case.get("flavour")))]
    kinds = set(op[0] for op in res.ops)
    tags += ["op:" + k for k in sorted(kinds)]
    if any(c["isRepeat"] for c in res.info["comps"]):
        tags.append("has:repeat")
    cs_ = res.info["comps"]
    if any(c["isRepeat"] and any(cs_[p]["stage"] < c["stage"] for p in c["preds"]) for c in cs_):
        tags.append("has:repeating-consumer-of-earlier-stage-producer")
    if any(c["isRepeat"] and c["preds"] and all(cs_[p]["stage"] < c["stage"] for p in c["preds"]) for c in cs_):
        tags.append("has:repeating-consumer-with-earlier-stage-producers-only")
    if any(c["isRepeat"] and not c["preds"] for c in cs_):
        tags.append("has:repeating-component-without-producers")
    for i_, views in res.launches:
        c_ = cs_[i_]
        if c_["isRepeat"] and views and all(v is not None for (_p, v, _s) in views):
            tags.append("observer-staged-in-after-all-its-producers-ended")
            break
    for op, snap in zip(res.ops, res.snaps):
        if op[0] == "complete":
            tags.append("completion-hook-fired")
            if any(c[0] not in CS.FINAL and c[4] and cs_[i]["stage"] == op[1] for i, c in enumerate(snap["comps"])):
                tags.append("completion-hook-fired-while-a-task-of-the-stage-was-running")
            break
    if any(len(c["preds"]) >= 10 for c in cs_):
        tags.append("has:ten-or-more-producers")
    if any(c["isAgg"] for c in res.info["comps"]):
        tags.append("has:aggregator")
    if any(c["isRepl"] for c in res.info["comps"]):
        tags.append("has:replicas")
    if any(c["stage"] > 0 for c in res.info["comps"]):
        tags.append("has:two-stages")
    tags.append("engines:" + ("real" if case.get("real") else "fake"))
    if any(":" in x for sc in res.scripts.values() for x in sc):
        tags.append("script:launch-raises")
    tags.append("stages=%d" % (res.info["lastStage"] + 1))
    tags.append("stages-run=%d" % len(res.results))
    if res.info["cont"]:
        tags.append("has:continue-on-error")
    comps_ = res.info["comps"]
    if any(c["isAgg"] and any(comps_[p]["isRepl"] and comps_[p]["stage"] < c["stage"] for p in c["preds"])
           for c in comps_):
        tags.append("has:aggregator-in-later-stage-than-replicas")
    if any(c["isAgg"] and not any(comps_[p]["isRepl"] for p in c["preds"]) for c in comps_):
        tags.append("has:aggregator-without-replicated-input")
    for i_, views in res.launches:
        c_ = comps_[i_]
        if c_["stage"] > 0 and any(comps_[p]["stage"] < c_["stage"] and v not in (None, "finished")
                                   for (p, v, _s) in views):
            tags.append("launch-saw-nonfinished-final-producer-of-earlier-stage")
            break
    finals = set(res.final)
    tags += ["final:" + f for f in sorted(finals)]
    if win:
        tags.append("sched-inside-window")
    if any(op[0] == "sched" and "inflight" in snap for op, snap in zip(res.ops, res.snaps)):
        tags.append("sched-while-a-finished-notification-is-being-handled")
    if any(len(snap.get("inflight", [])) > 1 for snap in res.snaps):
        tags.append("two-finished-notifications-in-flight")
    if any(c[3] > 1 for c in (res.snaps[-1]["comps"] if res.snaps else [])):
        tags.append("restart-happened")
    ctx.case({"template": case["template"], "cont": list(case.get("cont", ())), "scripts": res.scripts,
              "ops": res.ops},
             nontrivial=(n >= 3 and launched >= 2 and win >= 1), tags=tags)
    ctx.tag("ops-compared", len(res.ops))
    ctx.tag("launches-checked", len(res.launches))
    # oracle -----------------------------------------------------------------------------
    for what, i, at in res.launch_bad:
        ctx.fail(what, full, {"component": res.info["comps"][i]["ref"], "after_ops": at,
                              "launches": res.launches[-3:]})
    if len(res.ops) >= CS.MAX_OPS:
        ctx.tag("op-budget-exhausted")
    ctx.compare("no exception escapes a callback run on the controller pool", full, {"errors": []},
                {"errors": res.pool_errors})
    # correspondence ---------------------------------------------------------------------
    outs = ctx.model([CS.model_request(res.info, res.scripts, res.ops)])
    if outs is not None:
        m = outs[0]
        k = CS.first_mismatch(m["snaps"], res.snaps)
        if k is None:
            ctx.compare("state after every op == Ctrl.step", full, {"agree": True}, {"agree": True})
        else:
            ctx.compare("state after every op == Ctrl.step", full,
                        {"at": k, "op": res.ops[k] if k < len(res.ops) else None,
                         "snap": m["snaps"][k] if k < len(m["snaps"]) else None},
                        {"at": k, "op": res.ops[k] if k < len(res.ops) else None,
                         "snap": res.snaps[k] if k < len(res.snaps) else None,
                         "refs": [c["ref"] for c in res.info["comps"]]})
        first = []
        seen = set()
        for i, views in res.launches:
            if i not in seen:
                seen.add(i)
                first.append([i, views])
        ctx.compare("launch log (producer views at first launch) == Ctrl ghost log", full,
                    {"log": m["log"]}, {"log": first})
    return res


def check_loop_case(ctx, case, ops=None, tag_prefix=""):
    """DoWhile package (case["loop"], see CS.gen_loop_case): real Controller only - the Lean model has no loops.
    Oracle: every launched component is judged against ALL producers it finally has in the graph (the iterations that
    were instantiated while the workflow ran)."""
    rng = random.Random(case.get("seed", 0))
    run_case = dict(case, _rng=rng)
    if ops is not None:
        factory = lambda sim: detsim.scripted(ops, finish=case.get("finish", True))
    else:
        def factory(sim):
            ch = CS.random_chooser(rng, case["personality"], 0.0, p_split=case.get("p_split", 0.0))
            if case.get("laggards"):
                # older instances of the looped components that are off the critical path of the loop condition are
                # kept running while newer iterations are instantiated, run and end
                ch = CS.laggard_chooser(ch, rng, case["laggards"], case.get("hold", 30))
            return ch
    try:
        res = CS.run_loop(run_case, factory)
    except Exception as exc:  # noqa: the generated package was rejected / could not be built
        ctx.tag(tag_prefix + "loop-build-error:" + type(exc).__name__)
        return None
    full = dict(case)
    full["scripts"] = res.scripts
    full["ops"] = res.ops
    full["finish"] = res.result != "stopped"
    lp = case["loop"]
    tags = [tag_prefix + "loop:result:" + res.result, "loop:iterations=%d" % res.iterations,
            "loop:condition-by:" + lp["cond"], "loop:engines:" + ("real" if case.get("real") else "fake")]
    tags += ["loop:consumer:%s-%s" % (c["method"], "same-stage" if c["stage"] == lp["stage"] else "later-stage")
             for c in lp["consumers"]]
    kinds = set(op[0] for op in res.ops)
    tags += ["loop:op:" + k for k in sorted(kinds)]
    if res.inflight_scheds:
        tags.append("loop:sched-while-a-finished-notification-is-being-handled")
    off = [n for n in CS.loop_names(lp) if n not in CS.loop_upstream(lp, lp["cond"])]
    if off:
        tags.append("loop:has-looped-component-off-the-critical-path-of-the-condition")
        tags += ["loop:consumer-of-off-path-component:" + c["method"] for c in lp["consumers"] if c["of"] in off]
    if lp.get("side"):
        tags.append("loop:three-kinds-of-looped-component" if lp["two"] else "loop:side-component")
    if res.outlived:
        tags.append("loop:older-instance-still-running-when-the-next-iteration-was-over")
    if res.waited_for_outlived:
        tags.append("loop:consumer-launched-after-waiting-for-an-older-instance-that-outlived-the-next-iteration")
    ctx.case({"loop": lp, "scripts": res.scripts, "ops": res.ops},
             nontrivial=(res.iterations >= 2 and len(res.launches) >= 3
                         and (res.inflight_scheds >= 1 or bool(res.outlived))), tags=tags)
    ctx.tag("launches-checked", len(res.launches))
    for what, ref, prod, at in res.launch_bad:
        ctx.fail(what, full, {"component": ref, "producer": prod, "after_ops": at, "refs": res.refs,
                              "final": res.final, "launches": res.launches})
    if len(res.ops) >= CS.MAX_OPS:
        ctx.tag("op-budget-exhausted")
    ctx.compare("no exception escapes a callback run on the controller pool", full, {"errors": []},
                {"errors": res.pool_errors})
    # correspondence with St4sd.CtrlLoop (runs in which every task succeeds: the model has no failures) -------------
    if any(res.scripts.get(r) for r in res.refs) or any(op[0] == "kill" for op in res.ops):
        ctx.tag("loop:not-compared-with-CtrlLoop(failing-tasks)")
        return res
    triples = CS.loop_model_requests(lp, res)
    outs = ctx.model([req for _c, req, _e in triples]) if triples else None
    if outs is not None:
        for (cref, _req, expected), m in zip(triples, outs):
            got = m.get("snaps") if isinstance(m, dict) else None
            k = None if got == expected else next(
                (i for i in range(len(expected)) if got is None or i >= len(got) or got[i] != expected[i]), len(expected))
            ctx.tag("loop:consumers-compared-with-CtrlLoop")
            if k is None:
                ctx.compare("DoWhile consumer: (iteration, phases of all instances, launched) after every op == "
                            "CtrlLoop.step", full, {"agree": True}, {"agree": True})
            else:
                ctx.compare("DoWhile consumer: (iteration, phases of all instances, launched) after every op == "
                            "CtrlLoop.step", full,
                            {"consumer": cref, "at": k, "op": res.ops[k] if k < len(res.ops) else None,
                             "snap": got[k] if got is not None and k < len(got) else m},
                            {"consumer": cref, "at": k, "op": res.ops[k] if k < len(res.ops) else None,
                             "snap": expected[k] if k < len(expected) else None, "refs": res.refs})
    return res


def gen_case(rng, idx):
    template, cont = CS.gen_workflow(rng)
    return {"template": template, "cont": cont, "scripts": None, "seed": rng.randrange(1 << 30),
            "personality": rng.choice(sorted(CS.PERSONALITIES)), "p_kill": rng.choice([0, 0, 0, 0.01, 0.03]),
            "flavour": None, "real": rng.random() < 0.25, "p_split": rng.choice([0, 0.25, 0.5, 0.8]),
            "p_complete": rng.choice([0, 0, 0, 0.02, 0.06]), "verbose": rng.random() < 0.06}


def corpus_cases():
    d = os.path.join(common.VERIF, "corpus", "C01")
    out = []
    if os.path.isdir(d):
        for fn in sorted(os.listdir(d)):
            if fn.endswith(".json"):
                out.append(json.load(open(os.path.join(d, fn))))
    return out


def shrink(what, case):
    """ddmin on the op list: keep a shorter schedule as long as the same oracle failure shows on the real code"""
    if not case.get("ops"):
        return None

    def still_fails(ops):
        probe = common.Ctx("C01", "quick", 0)
        fn = check_loop_case if "loop" in case else check_case
        res = fn(probe, dict(case, finish=False), ops=ops)
        return res is not None and any(w == what for w, _c, _d in probe.failures)
    ops = common.shrink_list(case["ops"], still_fails, max_steps=60)
    return dict(case, ops=ops, finish=False)


def setup(ctx):
    ctx.rule = RULE
    ctx.shrinker = shrink
    ctx.assumptions = [
        "one thread runs at a time (strict hand-off): a scheduler pass, postMortemCheck and every other callback are "
        "atomic with respect to each other; finishedCheck is interruptible at the outermost acquisition and release of "
        "Controller.comp_lock (three parts); notifications of one observe_on pipeline are delivered in emission order "
        "(as RxPY's ScheduledObserver does), between pipelines in any order; real thread interleavings inside RxPY "
        "operators and inside Engine.run are not explored",
        "engines are stand-ins (a task exit is an event chosen by the harness, Engine.restart is reduced to its "
        "counters: maxRestarts, restartHookOn, SubmissionFailed cap) or - a quarter of the cases - the real Engine with a "
        "scripted task generator and a restart hook that always prepares the restart (hook answers are C12's business); "
        "repeating components always use the stand-in, which - like the real RepeatingEngine - ends only after "
        "ComponentState told it notify_all_producers_finished() or after kill()",
        "the external stage-completion hook answers True at most once per stage, at a moment chosen by the harness, and "
        "its closure runs atomically with respect to scheduler passes and the three parts of finishedCheck (it holds "
        "comp_lock); the set of components it hands to _stopComponents is iterated in reference order",
        "references are ':ref' references (no file has to exist for stage-in to succeed)",
        "DoWhile: the launch rules are evaluated by the oracle on every run; the Lean model of loops (St4sd.CtrlLoop: "
        "one consumer outside the loop, dependencies inside the loop abstracted away, no failing tasks) is compared "
        "with the runs in which every task succeeds; failed / shut-down looped components stay oracle-only",
    ]
    ctx.trusted.append("C01/C02: harness/detsim.py (monkey-patched rx schedulers/timers, held controller / engine-task "
                       "pools read through ScheduledObserver.queue, FakeEngine, HLock + worker threads with strict "
                       "hand-off, recording wrapper of ComponentState.finish) faithfully serialises the notification "
                       "channel; networkx graph API")
    detsim.install()


def rerun_later(ctx, kept):
    """Family "state shared between independent runs in one process" (class attributes, module-level caches, memo
    tables keyed by component names - every generated workflow uses the names stage0.c0, stage0.c1 ... in different
    roles): a sample of the cases is run AGAIN at the end, in reverse order, after all the unrelated cases, under
    exactly the recorded schedule; the real Controller must give the same answers (state after every op, launches,
    results of run())."""
    for case, res in reversed(kept):
        try:
            again = CS.run_real(case["template"], res.scripts,
                                lambda sim: detsim.scripted(res.ops, finish=res.result != "stopped"),
                                cont=case.get("cont", ()), real=bool(case.get("real")))
        except Exception as exc:  # noqa
            ctx.tag("rerun:build-error:" + type(exc).__name__)
            continue
        ctx.tag("cases-run-again-later-in-the-same-process")
        k = len(res.snaps)
        first = {"results": res.results, "final": res.final, "launches": res.launches, "snaps": res.snaps}
        later = {"results": again.results, "final": again.final, "launches": again.launches[:len(res.launches)],
                 "snaps": again.snaps[:k]}
        if common.canon(first) != common.canon(later):
            kk = CS.first_mismatch(first["snaps"], later["snaps"])
            ctx.fail("result-depends-on-earlier-cases", dict(case, scripts=res.scripts, ops=res.ops),
                     {"first_difference_at_op": kk, "first_run": {"results": res.results, "final": res.final},
                      "later_run": {"results": again.results, "final": again.final}})


def run_n(ctx, n, n_loops=0, n_again=12, n_offpath=0):
    rng = ctx.rng
    for case in corpus_cases():
        if "loop" in case:
            check_loop_case(ctx, case, ops=case.get("ops"), tag_prefix="corpus:")
        else:
            check_case(ctx, case, ops=case.get("ops"), tag_prefix="corpus:")
    kept = []
    every = max(1, n // max(1, n_again))
    for i in range(n):
        case = gen_case(rng, i)
        res = check_case(ctx, case)
        if res is not None and i % every == 0 and len(kept) < n_again:
            kept.append((case, res))
    for i in range(n_loops):
        check_loop_case(ctx, CS.gen_loop_case(rng))
    for i in range(n_offpath):
        check_loop_case(ctx, CS.gen_loop_case_offpath(rng))
    rerun_later(ctx, kept)


def run(ctx):
    setup(ctx)
    if ctx.tier == "quick":
        run_n(ctx, 300, 60, 12, 40)
    else:
        run_n(ctx, 2700, 600, 60, 450)


def replay(ctx, doc):
    setup(ctx)
    case = doc.get("input")
    if case is None:
        for b in doc.get("no_longer_checks", []):
            if b.get("kind") == "correspondence":
                case = b["input"]
                break
    if case is None:
        raise common.InfraError("replay file carries no input")
    if "loop" in case:
        check_loop_case(ctx, case, ops=case.get("ops"), tag_prefix="replay:")
    else:
        check_case(ctx, case, ops=case.get("ops"), tag_prefix="replay:")
