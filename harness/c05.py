"""C05 — DoWhile unrolling is wired correctly for any number of iterations.

Implementation under test (real code, in-process): a generated package (main FlowIR + imported DoWhile document)
is loaded into a real Experiment; then, exactly as Controller._instantiate_next_dowhile_iteration does, the real
WorkflowGraph.instantiate_dowhile_next_iteration(document, state['currentIteration'] + 1, True) is called k times.
After every call the harness observes: components of the concrete FlowIR with their references, graph nodes and
edges, WorkflowGraph._placeholders (represents as a set, latest), the DoWhile state, and the resolution by the real
DataReference.resolve() of `:ref` / `:loopref` references to every placeholder and of the references of the
outside consumers.

Model: lean/St4sd/Model/Loop.lean via drv-c05 (num=true: the repaired sort keys).  Theorems: lean/St4sd/Props/C05.lean.
Oracle: the property text restated on the real observations (independent of the model).
"""
from __future__ import annotations

import copy
import logging
import os
import re
import shutil
import tempfile

AGG = ("loopref", "loopoutput")
SPECIAL = ("input", "data", "bin", "conf")


# ----------------------------------------------------------------------------------------
# references: structured form <-> text
# ----------------------------------------------------------------------------------------

def ref_text(r):
    s = r["producer"]
    if r.get("file"):
        s += "/" + r["file"]
    s += ":" + r["method"]
    if r.get("stage") is not None:
        s = "stage%d.%s" % (r["stage"], s)
    return s


_REF = re.compile(r"^(?:stage(\d+)\.)?([^/:]+)(?:/([^:]*))?:([a-z]+)$")


def ref_parse(text):
    """own, code-independent parser of the reference strings this harness generates"""
    m = _REF.match(text)
    if not m:
        return {"unparsed": text}
    stage, producer, file, method = m.groups()
    direct = stage is None and producer in SPECIAL
    return {"direct": direct, "stage": int(stage) if stage is not None else None, "producer": producer,
            "file": file or "", "method": method}


def R(producer, method, stage=None, file="", direct=False):
    return {"direct": direct, "stage": stage, "producer": producer, "file": file, "method": method}


def cid(stage, name):
    return "stage%d.%s" % (stage, name)


# ----------------------------------------------------------------------------------------
# generator
# ----------------------------------------------------------------------------------------

NAMES = ["a", "b", "c", "calc", "x1", "step2", "add", "gen-1", "y_z", "n10", "s9"]
COND_NAMES = ["stop", "check", "cond1", "a0"]
METHODS = ["ref", "output", "copy", "link"]


def gen_case(rng, kmax, kchoices=None):
    imp = rng.randint(0, 2)
    nloop = rng.randint(1, 3)
    names = rng.sample(NAMES, nloop)
    cond_name = rng.choice([n for n in COND_NAMES if n not in names])
    # input bindings; one outside source per binding so that no two bindings denote the same reference (a component
    # using both would declare a duplicate reference, which the loader rejects for unrelated reasons)
    nb = rng.randint(1, 3)
    sources = [{"stage": rng.randint(0, imp), "name": "src%d" % i, "refs": []} for i in range(nb)]
    keys = ["in%d" % i for i in range(nb)]
    bind_method = {k: rng.choice(["output", "ref", "copy"]) for k in keys}
    bindings = []
    for i, k in enumerate(keys):
        s = sources[i]
        f = rng.choice(["", "", "out.txt"]) if bind_method[k] != "output" else ""
        bindings.append({"key": k, "ref": R(s["name"], bind_method[k], stage=s["stage"], file=f)})
    # template components, stages non-decreasing
    comps = []
    st = 0
    for n in names:
        st = min(2, st + rng.choice([0, 0, 1]))
        comps.append({"stage": st, "name": n, "refs": []})
    cond_stage = min(2, st + rng.choice([0, 1]))
    other_stage = [c for c in comps if c["stage"] != cond_stage]
    if other_stage and rng.random() < 0.2:
        # looped components of different stages may share a name: the condition has a namesake in another stage
        cond_name = rng.choice(other_stage)["name"]
    comps.append({"stage": cond_stage, "name": cond_name, "refs": []})
    if rng.random() < 0.3:
        rng.shuffle(comps)
    order = sorted(comps, key=lambda c: c["stage"])

    def internal_ref(owner, target):
        m = rng.choice(METHODS)
        f = rng.choice(["", "", "res.dat"]) if m != "output" else ""
        if target["stage"] == owner["stage"] and rng.random() < 0.5:
            return R(target["name"], m, stage=None, file=f)           # relative spelling
        return R(target["name"], m, stage=target["stage"], file=f)    # template-absolute spelling

    used_keys = set()
    for c in comps:
        earlier = [t for t in order if t is not c and (t["stage"] < c["stage"] or
                                                        (t["stage"] == c["stage"] and order.index(t) < order.index(c)))]
        if (c["stage"], c["name"]) != (cond_stage, cond_name) or not earlier:
            for k in rng.sample(keys, rng.randint(0 if earlier else 1, min(2, nb))):
                c["refs"].append(R(k, bind_method[k], stage=None,
                                   file="" if bind_method[k] == "output" or dict((b["key"], b) for b in bindings)[k]["ref"]["file"]
                                   else rng.choice(["", "sub.txt"])))
                used_keys.add(k)
        for t in rng.sample(earlier, min(len(earlier), rng.randint(1 if (c["stage"], c["name"]) == (cond_stage, cond_name) else 0, 2))):
            c["refs"].append(internal_ref(c, t))
        if rng.random() < 0.15:
            c["refs"].append(R("data", "ref", file="d.txt", direct=True))
        rng.shuffle(c["refs"])
    # loop bindings: a subset of the used keys is fed from a looped component of the previous iteration
    loop_bindings = []
    free_targets = list(comps)
    rng.shuffle(free_targets)
    for k in sorted(used_keys):
        if rng.random() < 0.7 and free_targets:
            t = free_targets.pop()         # distinct targets: no duplicate references after projection
            f = ""
            bf = dict((b["key"], b) for b in bindings)[k]["ref"]["file"]
            if bind_method[k] != "output":
                f = bf  # same file name as the original binding (a use site may override only an empty one)
            spelled_stage = t["stage"] if (t["stage"] > 0 or rng.random() < 0.5) else None
            loop_bindings.append({"key": k, "ref": R(t["name"], bind_method[k], stage=spelled_stage, file=f)})
    # a component that uses a loop-carried binding fed by looped component t may also read t of its own iteration
    # through the relative spelling (`t:method`): after the binding is substituted the relative spelling is a suffix
    # of the substituted text
    lb = {b["key"]: b["ref"] for b in loop_bindings}
    for c in comps:
        for r in list(c["refs"]):
            if r["producer"] in lb and rng.random() < 0.35:
                b = lb[r["producer"]]
                t = [t for t in comps if (t["stage"], t["name"]) == (b["stage"] or 0, b["producer"])][0]
                if t["stage"] == c["stage"] and order.index(t) < order.index(c) and not any(
                        (x["producer"], x["method"]) == (t["name"], r["method"]) for x in c["refs"]):
                    c["refs"].append(R(t["name"], r["method"], stage=None, file=r["file"] or b["file"] if r["method"] != "output" else ""))
    # reference occurrences of the command line: every argument-capable reference once, sometimes one of them twice
    for c in comps:
        idx = [i for i, r in enumerate(c["refs"]) if r["method"] in ARG_METHODS]
        if idx and rng.random() < 0.08:
            idx.append(rng.choice(idx))
            c["args"] = idx
    cond_file = rng.choice(["", "next.txt"])
    # outside consumers
    last = imp + max(c["stage"] for c in comps)
    consumers = []
    nplain = rng.randint(1, 2)
    for i in range(nplain):
        t = rng.choice(comps)
        m = rng.choice(["ref", "output", "copy"])
        consumers.append({"stage": last + rng.randint(0, 1), "name": "plain%d" % i,
                          "refs": [R(t["name"], m, stage=t["stage"] + imp, file="" if m == "output" else rng.choice(["", "f.csv"]))]})
    for i in range(rng.randint(1, 2)):
        t = rng.choice(comps)
        refs = [R(t["name"], "loopref", stage=t["stage"] + imp, file=rng.choice(["", "f.csv"]))]
        if rng.random() < 0.3:
            t2 = rng.choice(comps)
            refs.append(R(t2["name"], "ref", stage=t2["stage"] + imp))
        consumers.append({"stage": last + rng.randint(0, 1), "name": "agg%d" % i, "refs": refs})
    # the loader requires the stage indices of a package to be contiguous from 0
    used = {c["stage"] for c in sources + consumers} | {c["stage"] + imp for c in comps}
    for st in range(max(used) + 1):
        if st not in used:
            sources.append({"stage": st, "name": "fill%d" % st, "refs": []})
    k = rng.choice(kchoices) if kchoices else rng.randint(0, kmax)
    return {"import": imp, "loop": comps, "bindings": bindings, "loopBindings": loop_bindings,
            "cond": {"stage": cond_stage, "name": cond_name, "file": cond_file},
            "sources": sources, "consumers": consumers, "k": k}


MINIMAL = {
    "import": 1, "k": 10,
    "loop": [{"stage": 0, "name": "x", "refs": [R("in0", "output")]},
             {"stage": 0, "name": "stop", "refs": [R("x", "output")]}],
    "bindings": [{"key": "in0", "ref": R("src0", "output", stage=0)}],
    "loopBindings": [{"key": "in0", "ref": R("x", "output")}],
    "cond": {"stage": 0, "name": "stop", "file": ""},
    "sources": [{"stage": 0, "name": "src0", "refs": []}],
    "consumers": [{"stage": 2, "name": "plain0", "refs": [R("x", "ref", stage=1)]},
                  {"stage": 2, "name": "agg0", "refs": [R("x", "loopref", stage=1)]}],
}


ARG_METHODS = ("ref", "output", "loopref", "loopoutput")


def arg_indices(c):
    """indices (into c["refs"]) of the reference occurrences of the command line, in textual order; only these methods
    may appear in an argument string, copy/link references are listed in `references` only"""
    if "args" in c:
        return list(c["args"])
    return [i for i, r in enumerate(c["refs"]) if r["method"] in ARG_METHODS]


def args_text(c, texts=None):
    texts = texts if texts is not None else [ref_text(r) for r in c["refs"]]
    return " ".join(texts[i] for i in arg_indices(c))


SAME_NAME = {
    "import": 1, "k": 4,
    "loop": [{"stage": 0, "name": "stop", "refs": [R("in0", "output")]},
             {"stage": 1, "name": "stop", "refs": [R("stop", "output", stage=0)]}],
    "bindings": [{"key": "in0", "ref": R("src0", "output", stage=0)}],
    "loopBindings": [],
    "cond": {"stage": 1, "name": "stop", "file": ""},
    "sources": [{"stage": 0, "name": "src0", "refs": []}],
    "consumers": [{"stage": 2, "name": "plain0", "refs": [R("stop", "ref", stage=2)]}],
}

REPEATED_ARG = {
    "import": 0, "k": 1,
    "loop": [{"stage": 0, "name": "x", "refs": [R("in0", "output")], "args": [0, 0]},
             {"stage": 0, "name": "y", "refs": [R("in0", "output"), R("x", "output")]},
             {"stage": 0, "name": "stop", "refs": [R("y", "output")]}],
    "bindings": [{"key": "in0", "ref": R("src0", "output", stage=0)}],
    "loopBindings": [{"key": "in0", "ref": R("x", "output")}],
    "cond": {"stage": 0, "name": "stop", "file": ""},
    "sources": [{"stage": 0, "name": "src0", "refs": []}],
    "consumers": [{"stage": 1, "name": "plain0", "refs": [R("y", "ref", stage=0)]}],
}


def comp_yaml(c, loop=False):
    d = {"name": c["name"], "stage": c["stage"],
         "command": {"executable": "echo", "arguments": args_text(c) or "hello"},
         "references": [ref_text(r) for r in c["refs"]]}
    return d


def package_for(case):
    import yaml
    dw = {"type": "DoWhile",
          "inputBindings": {b["key"]: {"type": b["ref"]["method"]} for b in case["bindings"]},
          "loopBindings": {b["key"]: ref_text(b["ref"]) for b in case["loopBindings"]},
          "condition": ref_text(R(case["cond"]["name"], "output", stage=case["cond"]["stage"], file=case["cond"]["file"])),
          "components": [comp_yaml(c, True) for c in case["loop"]]}
    if not dw["loopBindings"]:
        del dw["loopBindings"]
    main = {"components": [comp_yaml(c) for c in case["sources"]] +
            [{"stage": case["import"], "name": "loop", "$import": "dowhile.yaml",
              "bindings": {b["key"]: ref_text(b["ref"]) for b in case["bindings"]}}] +
            [comp_yaml(c) for c in case["consumers"]]}
    return yaml.safe_dump(main), yaml.safe_dump(dw)


def model_request(case, num=True):
    def comp(c):
        return {"stage": c["stage"], "name": c["name"], "refs": c["refs"], "args": [c["refs"][i] for i in arg_indices(c)]}
    return {"op": "run", "num": num, "k": case["k"],
            "doc": {"comps": [comp(c) for c in case["loop"]], "bindings": case["bindings"],
                    "loopBindings": case["loopBindings"], "condStage": case["cond"]["stage"],
                    "condName": case["cond"]["name"], "condFile": case["cond"]["file"], "importStage": case["import"]},
            "out": [comp(c) for c in case["sources"] + case["consumers"]]}


# ----------------------------------------------------------------------------------------
# real code driver
# ----------------------------------------------------------------------------------------

def path_to_id(path, root):
    """<instance>/stages/stage<N>/<name>[/file] -> ('stage<N>.<name>', file)"""
    rel = os.path.relpath(path, root)
    parts = rel.split(os.sep)
    if len(parts) >= 3 and parts[0] == "stages" and parts[1].startswith("stage"):
        return "%s.%s" % (parts[1], parts[2]), "/".join(parts[3:])
    return "?" + rel, ""


def observe(wg, case, G):
    import experiment.model.frontends.flowir as F
    concrete = wg._concrete
    comps = {}
    for stage, name in concrete.get_component_identifiers(True, False):
        conf = concrete.get_component((stage, name), True)
        comps[cid(stage, name)] = {"refs": list(conf.get("references", [])),
                                   "args": conf.get("command", {}).get("arguments")}
    root = wg.rootStorage.location
    dw_name = list(wg._documents["DoWhile"].keys())[0]
    node = wg.get_document_metadata("DoWhile", dw_name)
    placeholders = {}
    for p, d in wg._placeholders.items():
        e = {"latest": d["latest"], "represents": sorted(d["represents"]), "n_represents": len(d["represents"])}
        try:
            e["ref"] = path_to_id(G.DataReference(p + ":ref").resolve(wg), root)[0]
        except Exception as exc:  # noqa
            e["ref"] = "error:" + type(exc).__name__
        try:
            e["loopref"] = [path_to_id(x, root)[0] for x in G.DataReference(p + ":loopref").resolve(wg).split()]
        except Exception as exc:  # noqa
            e["loopref"] = "error:" + type(exc).__name__
        try:
            pc = G.ComponentIdentifier(p)
            m = F.map_placeholder_id_to_iteration((pc.stageIndex, pc.componentName), [node],
                                                  concrete.get_component_identifiers(True, False))
            e["maplatest"] = cid(*m) if m else None
        except Exception as exc:  # noqa
            e["maplatest"] = "error:" + type(exc).__name__
        placeholders[p] = e
    consumers = {}
    for c in case["consumers"]:
        spec = wg.graph.nodes[cid(c["stage"], c["name"])]["componentSpecification"]
        res = []
        for dr in spec.dataReferences:
            try:
                if dr.method == "output":
                    # resolve() of :output reads the producer's stdout file (not there: nothing ran); the producer it
                    # reads from is the one true_reference_to_component_id reports
                    res.append([dr.stringRepresentation,
                                [[cid(*x), ""] for x in dr.true_reference_to_component_id(wg)]])
                else:
                    res.append([dr.stringRepresentation,
                                [list(path_to_id(x, root)) for x in dr.resolve(wg).split()]])
            except Exception as exc:  # noqa
                res.append([dr.stringRepresentation, "error:" + type(exc).__name__])
        consumers[c["name"]] = sorted(res)
    return {"comps": comps, "nodes": sorted(wg.graph.nodes), "edges": sorted([a, b] for a, b in wg.graph.edges),
            "placeholders": placeholders, "state": dict(node["state"]), "consumers": consumers,
            "doc_bindings": dict(node["document"].get("bindings", {})),
            "doc_loopBindings": dict(node["document"].get("loopBindings", {}))}


def impl_run(case, tmp):
    """returns {"steps": [observation_0 … observation_k]} or {"error": …, "steps": […so far]}"""
    import tests.utils as TU
    import experiment.model.graph as G
    main, dw = package_for(case)
    cwd = os.getcwd()
    steps = []
    prev = logging.root.manager.disable
    logging.disable(logging.CRITICAL)
    try:
        try:
            exp = TU.experiment_from_flowir(main, tmp, extra_files={"conf/dowhile.yaml": dw, "data/d.txt": "d\n"},
                                            checkExecutables=False)
        except Exception as exc:  # noqa
            return {"error": "load:" + type(exc).__name__, "msg": str(exc)[-1500:], "steps": steps}
        wg = exp.experimentGraph
        try:
            steps.append(observe(wg, case, G))
            for _ in range(case["k"]):
                dw_name = list(wg._documents["DoWhile"].keys())[0]
                node = wg.get_document_metadata("DoWhile", dw_name)
                nxt = node["state"]["currentIteration"] + 1
                wg.instantiate_dowhile_next_iteration(node["document"], nxt, True)
                steps.append(observe(wg, case, G))
        except Exception as exc:  # noqa
            import traceback
            return {"error": "iterate:" + type(exc).__name__, "msg": traceback.format_exc()[-1500:], "steps": steps}
        return {"steps": steps}
    finally:
        logging.disable(prev)
        os.chdir(cwd)
        try:
            shutil.rmtree(exp.instanceDirectory.location, ignore_errors=True)  # noqa
        except Exception:
            pass


# ----------------------------------------------------------------------------------------
# oracle: the property text restated on the observations (independent of the Lean model)
# ----------------------------------------------------------------------------------------

def expected_refs(case, c, i):
    """references of instance i of template component c according to the property text"""
    imp = case["import"]
    loop_ids = {(t["stage"] + imp, t["name"]) for t in case["loop"]}
    binds = {b["key"]: b["ref"] for b in case["bindings"]}
    lbinds = {b["key"]: b["ref"] for b in case["loopBindings"]}
    out = []
    for r in c["refs"]:
        if r["direct"]:
            out.append(ref_text(r))
        elif r["producer"] in binds:
            if i > 0 and r["producer"] in lbinds:
                b = lbinds[r["producer"]]     # loop-carried: produced by instance i-1
                out.append(ref_text(R("%d#%s" % (i - 1, b["producer"]), b["method"], stage=(b["stage"] or 0) + imp,
                                      file=r["file"] or b["file"])))
            else:
                b = binds[r["producer"]]      # original binding
                out.append(ref_text(R(b["producer"], b["method"], stage=b["stage"], file=r["file"] or b["file"])))
        else:
            st = (r["stage"] if r["stage"] is not None else c["stage"]) + imp
            assert (st, r["producer"]) in loop_ids
            prod = r["producer"] if r["method"] in AGG else "%d#%s" % (i, r["producer"])
            out.append(ref_text(R(prod, r["method"], stage=st, file=r["file"])))
    return out


def oracle_step(case, j, obs, base_nodes):
    """list of (slug, detail) for the observation after j further iterations"""
    bad = []
    imp = case["import"]
    want = {cid(c["stage"] + imp, "%d#%s" % (i, c["name"])) for c in case["loop"] for i in range(j + 1)}
    outside = {cid(c["stage"], c["name"]) for c in case["sources"] + case["consumers"]}
    got_nodes = set(obs["nodes"])
    got_comps = set(obs["comps"])
    if got_nodes != want | outside or got_comps != want | outside:
        bad.append(("instances-not-exactly-0-to-k", {"j": j, "missing": sorted((want | outside) - got_nodes),
                                                       "unexpected": sorted(got_nodes - (want | outside)),
                                                       "concrete_missing": sorted((want | outside) - got_comps),
                                                       "concrete_unexpected": sorted(got_comps - (want | outside))}))
    for c in case["loop"]:
        for i in range(j + 1):
            name = cid(c["stage"] + imp, "%d#%s" % (i, c["name"]))
            if name not in obs["comps"]:
                continue
            exp = expected_refs(case, c, i)
            got = obs["comps"][name]
            if got["refs"] != exp:
                bad.append(("wiring-references-of-instance", {"j": j, "instance": name, "expected": exp, "got": got["refs"]}))
            elif args_text(c, exp) and got["args"] != args_text(c, exp):
                bad.append(("wiring-arguments-of-instance", {"j": j, "instance": name, "expected": args_text(c, exp),
                                                             "got": got["args"]}))
            # dataflow edges: every component reference of the instance is an edge of the graph
            for t in exp:
                pr = ref_parse(t)
                if pr.get("direct") or pr["method"] in AGG:
                    continue
                if [cid(pr["stage"], pr["producer"]), name] not in obs["edges"]:
                    bad.append(("wiring-edge-missing", {"j": j, "instance": name, "producer": cid(pr["stage"], pr["producer"])}))
    for c in case["loop"]:
        p = cid(c["stage"] + imp, c["name"])
        ph = obs["placeholders"].get(p)
        insts = [cid(c["stage"] + imp, "%d#%s" % (i, c["name"])) for i in range(j + 1)]
        if ph is None:
            bad.append(("placeholder-missing", {"j": j, "placeholder": p}))
            continue
        if ph["represents"] != sorted(insts) or ph["n_represents"] != len(insts):
            bad.append(("placeholder-represents-not-all-instances", {"j": j, "placeholder": p, "got": ph["represents"]}))
        if ph["latest"] != insts[-1] or ph["ref"] != insts[-1]:
            bad.append(("outside-reference-not-numerically-latest-instance",
                        {"j": j, "placeholder": p, "expected": insts[-1], "latest": ph["latest"], "resolved": ph["ref"]}))
        if ph["loopref"] != insts:
            bad.append(("loopref-not-in-increasing-iteration-order",
                        {"j": j, "placeholder": p, "expected": insts, "got": ph["loopref"]}))
    for c in case["consumers"]:
        got = dict((a, b) for a, b in obs["consumers"].get(c["name"], []))
        for r in c["refs"]:
            tgt = [t for t in case["loop"] if (t["stage"] + imp, t["name"]) == (r["stage"], r["producer"])][0]
            insts = [cid(r["stage"], "%d#%s" % (i, tgt["name"])) for i in range(j + 1)]
            res = got.get(ref_text(r))
            if r["method"] in AGG:
                if res != [[x, r["file"]] for x in insts]:
                    bad.append(("loopref-not-in-increasing-iteration-order",
                                {"j": j, "consumer": c["name"], "reference": ref_text(r), "got": res}))
            elif r["method"] != "output":
                if res != [[insts[-1], r["file"]]]:
                    bad.append(("outside-reference-not-numerically-latest-instance",
                                {"j": j, "consumer": c["name"], "reference": ref_text(r), "got": res,
                                 "expected": insts[-1]}))
            else:
                if not (isinstance(res, list) and len(res) == 1 and res[0][0] == insts[-1]):
                    bad.append(("outside-reference-not-numerically-latest-instance",
                                {"j": j, "consumer": c["name"], "reference": ref_text(r), "got": res,
                                 "expected": insts[-1]}))
    cond = case["cond"]
    want_cond = ref_text(R("%d#%s" % (j, cond["name"]), "output", stage=cond["stage"] + imp, file=cond["file"]))
    if obs["state"].get("currentIteration") != j or obs["state"].get("currentCondition") != want_cond:
        bad.append(("current-condition-not-iteration-k", {"j": j, "expected": want_cond, "state": obs["state"]}))
    # stage indices of the stored bindings do not drift
    if obs["doc_loopBindings"] != {b["key"]: ref_text(b["ref"]) for b in case["loopBindings"]}:
        bad.append(("stored-loopbindings-drift", {"j": j, "got": obs["doc_loopBindings"]}))
    if obs["doc_bindings"] != {b["key"]: ref_text(b["ref"]) for b in case["bindings"]}:
        bad.append(("stored-bindings-drift", {"j": j, "got": obs["doc_bindings"]}))
    return bad


# ----------------------------------------------------------------------------------------
# comparison with the model
# ----------------------------------------------------------------------------------------

def canon_impl_step(obs):
    comps = {}
    for name, d in obs["comps"].items():
        args = d["args"] if isinstance(d["args"], str) else ""
        comps[name] = {"refs": [ref_parse(t) for t in d["refs"]],
                       "args": [] if args == "hello" else [ref_parse(t) for t in args.split()]}
    ph = {p: {"latest": d["latest"], "represents": d["represents"], "ref": d["ref"], "loopref": d["loopref"],
              "maplatest": d["maplatest"]}
          for p, d in obs["placeholders"].items()}
    return {"comps": comps, "nodes": obs["nodes"], "edges": sorted(obs["edges"]), "placeholders": ph,
            "iter": obs["state"].get("currentIteration"), "cond": obs["state"].get("currentCondition")}


def canon_model_step(ms):
    comps = {c["id"]: {"refs": c["refs"], "args": c["args"]} for c in ms["comps"]}
    ph = {p["id"]: {"latest": p["latest"], "represents": sorted(p["represents"]), "ref": p["ref"], "loopref": p["loopref"],
                    "maplatest": p["maplatest"]}
          for p in ms["placeholders"]}
    cond = None
    if ms["cond"] is not None:
        st, name = ms["cond"].split(".", 1)
        cond = "%s.%s%s:output" % (st, name, "/" + ms["condFile"] if ms["condFile"] else "")
    return {"comps": comps, "nodes": sorted(comps), "edges": sorted(set(map(tuple, ms["edges"]))), "placeholders": ph,
            "iter": ms["iter"], "cond": cond}


def summarize(step):
    """the comparison is per relation so that a disagreement names what differs"""
    return step


RELATIONS = [("components, their references and the reference occurrences of their arguments == Loop.run(...).comps", "comps"),
             ("graph nodes == ids of Loop.run(...).comps", "nodes"),
             ("graph edges == Loop.run(...).edges", "edges"),
             ("placeholders (represents as a set, latest, :ref producer, :loopref order, map_placeholder_id_to_iteration) == "
              "Loop.placeholders/resolveProducer/loopRefOrder/mapPlaceholderLatest", "placeholders"),
             ("currentIteration == Loop.curIter", "iter"),
             ("currentCondition == Loop.currentCondition", "cond")]


def check_cases(ctx, cases):
    tmp = tempfile.mkdtemp(prefix="c05-")
    try:
        known = known_ids()
        num = "c05_string_sorted_iteration_numbers" not in known
        if known:
            ctx.notes.append("known findings recorded for C05: %s (model compared with num=%s)" % (sorted(known), num))
        mouts = ctx.model([model_request(c, num=num) for _, c in cases])
        for idx, (kind, case) in enumerate(cases):
            out = impl_run(case, tmp)
            k = case["k"]
            nontrivial = k >= 1 and len(case["loop"]) >= 1
            tags = ["kind:" + kind, "k:%s" % ("0" if k == 0 else "1-9" if k <= 9 else "10-12" if k <= 12 else "13-25"),
                    "import-stage:%d" % case["import"], "looped-components:%d" % len(case["loop"]),
                    "loopBindings:%d" % len(case["loopBindings"])]
            if any(r["direct"] for c in case["loop"] for r in c["refs"]):
                tags.append("has-direct-reference")
            if any(r["stage"] is None and not r["direct"] and r["producer"] not in {b["key"] for b in case["bindings"]}
                   for c in case["loop"] for r in c["refs"]):
                tags.append("has-relative-internal-reference")
            if any(c["stage"] > 0 for c in case["loop"]):
                tags.append("template-stage>0")
            ctx.case(case, nontrivial=nontrivial, tags=tags)
            if "error" in out:
                ctx.tag("impl:" + out["error"])
                ctx.fail("real-code-raises-" + out["error"].replace(":", "-"), case, {"msg": out.get("msg"),
                                                                                      "steps_done": len(out["steps"])})
            else:
                ctx.tag("impl:ok")
            ctx.tag("iterations-executed", max(0, len(out["steps"]) - 1))
            seen = set()
            for j, obs in enumerate(out["steps"]):
                for slug, detail in oracle_step(case, j, obs, None):
                    if slug not in seen:      # first j at which this clause fails
                        seen.add(slug)
                        ctx.fail(slug, case, detail)
                        ctx.tag("oracle:" + slug)
            shared_names = len({c["name"] for c in case["loop"]}) < len(case["loop"])
            if shared_names:
                ctx.tag("looped-components-share-a-name")
            if mouts is not None:
                msteps = mouts[idx]["steps"]
                first_bad = None
                for j, obs in enumerate(out["steps"]):
                    ci, cm = canon_impl_step(obs), canon_model_step(msteps[j])
                    if shared_names:      # map_placeholder_id_to_iteration matches on the name only: set-order dependent
                        for side in (ci, cm):
                            for e in side["placeholders"].values():
                                e["maplatest"] = None
                    if "c05_argument_text_rewrite" in known and has_repeated_or_overlapping_args(case):
                        for side in (ci, cm):
                            for e in side["comps"].values():
                                e["args"] = None
                    if "c05_condition_namesake" in known and has_condition_namesake(case):
                        ci["cond"] = cm["cond"] = None
                        ci["edges"] = cm["edges"] = None     # the condition is a predecessor of the outside consumers
                    for rel, key in RELATIONS:
                        ok = ctx.compare(rel, {"case": case, "j": j} if first_bad is None else {"j": j},
                                         {key: cm[key]}, {key: ci[key]}) if first_bad is None else True
                        if not ok and first_bad is None:
                            first_bad = (j, key)
                    if first_bad is not None:
                        break
                if first_bad is not None and ctx.driver is not None:
                    # diagnostic: does the implementation follow the string-keyed (unrepaired) model instead?
                    old = ctx.model([model_request(case, num=False)])[0]["steps"]
                    same = not shared_names and all(canon_impl_step(o) == canon_model_step(old[j])
                                                    for j, o in enumerate(out["steps"]))
                    ctx.tag("impl==string-keyed-model(Old)" if same else "impl!=string-keyed-model(Old)")
    finally:
        shutil.rmtree(tmp, ignore_errors=True)


# ----------------------------------------------------------------------------------------
# shrinking
# ----------------------------------------------------------------------------------------

def fails_with(what, case, tmp):
    out = impl_run(case, tmp)
    if "error" in out and what.startswith("real-code-raises-"):
        return what == "real-code-raises-" + out["error"].replace(":", "-")
    for j, obs in enumerate(out["steps"]):
        if any(s == what for s, _ in oracle_step(case, j, obs, None)):
            return True
    return False


def drop_component(case, idx):
    c2 = copy.deepcopy(case)
    gone = c2["loop"][idx]
    name = gone["name"]
    gid = (gone["stage"], name)
    if gid == (case["cond"]["stage"], case["cond"]["name"]) or len(c2["loop"]) <= 1:
        return None
    del c2["loop"][idx]
    for c in c2["loop"]:
        keep = [i for i, r in enumerate(c["refs"]) if r["direct"] or
                ((r["stage"] if r["stage"] is not None else c["stage"]), r["producer"]) != gid]
        if "args" in c:
            c["args"] = [keep.index(i) for i in c["args"] if i in keep]
        c["refs"] = [c["refs"][i] for i in keep]
    c2["loopBindings"] = [b for b in c2["loopBindings"] if ((b["ref"]["stage"] or 0), b["ref"]["producer"]) != gid]
    for c in c2["consumers"]:
        c["refs"] = [r for r in c["refs"] if (r["stage"], r["producer"]) != (gid[0] + case["import"], name)]
    c2["consumers"] = [c for c in c2["consumers"] if c["refs"]]
    return c2


def shrink(what, case):
    tmp = tempfile.mkdtemp(prefix="c05-shrink-")
    try:
        best = case
        # which namesake is taken for the condition depends on the set order of the process: keep enough iterations
        # for the replay to hit it whatever the hash seed
        kstart = 6 if what == "current-condition-not-iteration-k" else 0
        for k in range(kstart, case["k"]):      # smallest k with the same failure
            c2 = dict(best, k=k)
            if fails_with(what, c2, tmp):
                best = c2
                break
        changed = True
        while changed:
            changed = False
            for ci in range(len(best["loop"])):
                c2 = drop_component(best, ci)
                if c2 is not None and fails_with(what, c2, tmp):
                    best, changed = c2, True
                    break
            if changed:
                continue
            for i in range(len(best["consumers"])):
                if len(best["consumers"]) <= 1:
                    break
                c2 = copy.deepcopy(best)
                del c2["consumers"][i]
                if fails_with(what, c2, tmp):
                    best, changed = c2, True
                    break
        if best is not case:
            best = dict(best, note="shrunk input; the recorded detail belongs to the unshrunk case - replay this file "
                                   "to see the detail for this input")
        return best
    finally:
        shutil.rmtree(tmp, ignore_errors=True)


def classify_string_sorted_iterations(what, case, detail):
    """known-finding classifier (only used if the defect is recorded instead of fixed): the failure is the string-keyed
    sort of iteration numbers: the clause is `latest`/loopref order and it fails at an iteration >= 10"""
    return (what in ("outside-reference-not-numerically-latest-instance", "loopref-not-in-increasing-iteration-order")
            and isinstance(detail, dict) and detail.get("j", 0) >= 10)


def has_repeated_or_overlapping_args(case):
    """some looped component's command line repeats a reference, or uses a binding together with the relative spelling
    of a looped component of its own stage with the same method (the spelling is then a suffix of the substituted text)"""
    keys = {b["key"] for b in case["bindings"]}
    for c in case["loop"]:
        idx = arg_indices(c)
        if len(set(idx)) < len(idx):
            return True
        rel = [r for r in c["refs"] if not r["direct"] and r["stage"] is None and r["producer"] not in keys]
        via = [r for r in c["refs"] if r["producer"] in keys]
        if any(a["method"] == b["method"] for a in rel for b in via):
            return True
    return False


def classify_argument_text_rewrite(what, case, detail):
    return (what in ("wiring-arguments-of-instance", "real-code-raises-load-UndeclaredDataReferenceError",
                     "real-code-raises-iterate-UndeclaredDataReferenceError")
            and has_repeated_or_overlapping_args(case))


def has_condition_namesake(case):
    cond = case["cond"]
    return any(c["name"] == cond["name"] and c["stage"] != cond["stage"] for c in case["loop"])


def classify_condition_namesake(what, case, detail):
    """currentCondition names iteration j of a looped component that has the condition's name but another stage"""
    if what != "current-condition-not-iteration-k" or not has_condition_namesake(case) or not isinstance(detail, dict):
        return False
    st = detail.get("state", {})
    got = ref_parse(st.get("currentCondition", ""))
    j = detail.get("j")
    return (st.get("currentIteration") == j and got.get("producer") == "%d#%s" % (j, case["cond"]["name"])
            and any(c["name"] == case["cond"]["name"] and c["stage"] + case["import"] == got.get("stage")
                    for c in case["loop"]))


CLASSIFIERS = {"c05_string_sorted_iteration_numbers": classify_string_sorted_iterations,
               "c05_argument_text_rewrite": classify_argument_text_rewrite,
               "c05_condition_namesake": classify_condition_namesake}


def known_ids():
    """classifiers named by `known` entries of known_findings.json: for a recorded (unrepaired) defect the comparison
    uses the unrepaired model (`num = false`) resp. skips the relation the defect breaks on the affected cases"""
    from harness import common
    try:
        return {e.get("classifier") for e in common.load_known("C05")}
    except Exception:
        return set()


# ----------------------------------------------------------------------------------------

def run(ctx):
    ctx.rule = ("case = generated package: 1-2 source components, a DoWhile document imported at stage 0-2 with 1-3 looped "
                "components + a condition component at template stages 0-2, 1-3 input bindings (types output/ref/copy, "
                "optional file names), loopBindings for a random subset of the used bindings, references between looped "
                "components spelled relative or template-absolute with methods ref/output/copy/link, optional direct "
                "data reference, 1-2 outside consumers using :ref/:output/:copy and 1-2 using :loopref; k further "
                "iterations (quick: k <= 12 with at least a third of the cases at k >= 10, thorough: k <= 25); all "
                "prefixes j <= k of each history are observed and compared.  non-trivial = k >= 1; distinct by the "
                "canonical JSON of the case.")
    ctx.assumptions = [
        "names of generated components contain no '#', looped component ids (stage, name) are distinct, binding values are "
        "absolute references to components outside the loop (as in every DoWhile test of the repo)",
        "no replication inside the loop; one DoWhile document per package",
        ":loopoutput shares looped_reference_to_paths with :loopref and is not exercised separately (it reads files)",
        "reference strings are parsed by the harness' own regular expression; the text-level parse/compile of references "
        "inside the real code is trusted here (property C09)"]
    ctx.trusted.append("C05: references modelled in parsed form; experiment_from_flowir (tests/utils.py) used to load the package")
    ctx.classifiers = CLASSIFIERS
    ctx.shrinker = shrink
    rng = ctx.rng
    quick = ctx.tier == "quick"
    cases = [("corpus:minimal-k10", copy.deepcopy(MINIMAL)), ("corpus:minimal-k3", dict(copy.deepcopy(MINIMAL), k=3)),
             ("corpus:condition-has-namesake-in-other-stage", copy.deepcopy(SAME_NAME)),
             ("corpus:repeated-and-overlapping-argument-references", copy.deepcopy(REPEATED_ARG))]
    cdir = os.path.join(os.path.dirname(os.path.dirname(os.path.abspath(__file__))), "corpus", "C05")
    if os.path.isdir(cdir):
        import json
        for fn in sorted(os.listdir(cdir)):
            if fn.endswith(".json"):
                doc = json.load(open(os.path.join(cdir, fn)))
                cases.append(("corpus:" + fn, doc.get("input", doc)))
    if quick:
        ks = [0, 1, 2, 3, 5, 7, 9, 10, 10, 11, 12, 12]
        n = 44
    else:
        ks = [0, 1, 2, 4, 6, 9, 10, 11, 12, 13, 15, 19, 20, 21, 22, 25, 25]
        n = 280
    for _ in range(n):
        cases.append(("generated", gen_case(rng, 12 if quick else 25, ks)))
    check_cases(ctx, cases)


def replay(ctx, doc):
    ctx.classifiers = CLASSIFIERS
    case = doc.get("input")
    if case is None:
        case = doc["no_longer_checks"][-1]["input"]
    if "case" in case:
        case = case["case"]
    check_cases(ctx, [("replay", case)])
