"""C05 — DoWhile unrolling is wired correctly for any number of iterations.

Implementation under test (real code, in-process): a generated package (main FlowIR + 1-3 imported DoWhile documents)
is loaded into a real Experiment.  Then a generated sequence of operations is applied:

  ["adv", l]      document l instantiates its next iteration: with a Controller (most cases; built under the
                  deterministic runtime harness/detsim.py: fake engines, no threads) the real
                  Controller._instantiate_next_dowhile_iteration(dw_node) — i.e. WorkflowGraph.
                  instantiate_dowhile_next_iteration + ComponentState creation + Controller.parse_workflow_graph —,
                  otherwise WorkflowGraph.instantiate_dowhile_next_iteration(document, currentIteration + 1, True);
  ["read", kind]  the Controller / a consumer READS the placeholders: generate_status_report_for_nodes (the dependency
                  analysis Controller.initialise and every finishedCheck run), _comp_get_active_predecessors,
                  get_node_state / get_placeholder_state, _true_nodes_from_identifiers, _input_dependencies_satisfied,
                  DataReference.resolve / true_reference_to_component_id of the consumers.

  ["read", "reload"]  the instance as stored on disk is loaded anew (Experiment.experimentFromInstance) and observed.

  ["files", spec(, "reload")]  the state of the DISK while references are resolved: for every placeholder and every one
                  of its instances 0..k independently, the instance has produced its outputs (stdout and named
                  files, with a content that names the iteration; possibly empty), or its working directory is there
                  without them (never executed / shut down / cleaned), or the directory is missing.  Against that disk
                  the harness drives the entry points the runtime uses: DataReference.resolve of
                  <placeholder>[/file]:loopoutput | :loopref | :output | :ref, StageReference (what Job.stageIn calls)
                  for the aggregate references, and ComponentSpecification.resolveArguments (strict, as
                  Job.resolveArguments calls it, and with ignoreErrors as ComponentSpecification.command does) of the
                  outside consumers and of the newest instance of every looped component that aggregates a sibling;
                  with "reload" in the graph of the instance loaded anew.  Then the disk is put back.

Every case carries its ambient logging configuration (`log`: None = disabled, or levels of the root logger / the
loggers of the anchored modules), optionally `hashseed` (the real code is run in a child process with that
PYTHONHASHSEED), `again_after` (other cases to run before the case is run a second time in this process) and `sparse`
(observe only at the start and the end: cases with >= 100 iterations).

After the load and after EVERY operation the harness observes: components of the concrete FlowIR with their
references, graph nodes and edges, WorkflowGraph._placeholders (represents, latest), the state of every DoWhile document,
the Controller's registered condition producers and its dependency analysis of every placeholder, and the resolution
by the real DataReference.resolve() of `:ref` / `:loopref` references to every placeholder and of the references of
the outside consumers.

Model: lean/St4sd/Model/Loop.lean + LoopMulti.lean via drv-c05 (`runOps`; num=true: the repaired sort keys);
lean/St4sd/Model/LoopDisk.lean for the `files` operations (loopOutputM, resolveOutputM, stageLoopRefM, argLoopOutputM,
argOutputM over an arbitrary state of the disk).
Theorems: lean/St4sd/Props/C05.lean.  Oracle: the property text restated on the real observations (independent of
the model), per document with the document's own iteration count.
"""
from __future__ import annotations

import copy
import logging
import os
import re
import shutil
import tempfile

AGG = ("loopref", "loopoutput")
SPECIAL = ("input", "data", "bin", "conf")


# ----------------------------------------------------------------------------------------
# references: structured form <-> text
# ----------------------------------------------------------------------------------------

def ref_text(r):
    s = r["producer"]
    if r.get("file"):
        s += "/" + r["file"]
    s += ":" + r["method"]
    if r.get("stage") is not None:
        s = "stage%d.%s" % (r["stage"], s)
    return s


_REF = re.compile(r"^(?:stage(\d+)\.)?([^/:]+)(?:/([^:]*))?:([a-z]+)$")


def ref_parse(text):
    """own, code-independent parser of the reference strings this harness generates"""
    m = _REF.match(text)
    if not m:
        return {"unparsed": text}
    stage, producer, file, method = m.groups()
    direct = stage is None and producer in SPECIAL
    return {"direct": direct, "stage": int(stage) if stage is not None else None, "producer": producer,
            "file": file or "", "method": method}


def R(producer, method, stage=None, file="", direct=False):
    return {"direct": direct, "stage": stage, "producer": producer, "file": file, "method": method}


def cid(stage, name):
    return "stage%d.%s" % (stage, name)


# ----------------------------------------------------------------------------------------
# generator
# ----------------------------------------------------------------------------------------

NAMES = ["a", "b", "c", "calc", "x1", "step2", "add", "gen-1", "y_z", "n10", "s9"]
COND_NAMES = ["stop", "check", "cond1", "a0"]
METHODS = ["ref", "output", "copy", "link"]
ARG_METHODS = ("ref", "output", "loopref", "loopoutput")
# operations that only READ the placeholders: the first group needs a Controller
READ_CTL = ["status", "status-active", "preds", "state", "deps", "reload"]
READ_GRAPH = ["resolve"]


def gen_loop(rng, imp, src_no, avoid_names, aggregate=None):
    """one DoWhile document imported at stage `imp`, the source components its bindings point to and the template ids
    of the looped components that a looped sibling aggregates (:loopref/:loopoutput inside the loop); `avoid_names`:
    names that must not be used (None: any name); `aggregate`: force / forbid aggregate references inside the loop"""
    pool = [n for n in NAMES if not avoid_names or n not in avoid_names]
    cpool = [n for n in COND_NAMES if not avoid_names or n not in avoid_names]
    nloop = rng.randint(1, min(3, len(pool)))
    names = rng.sample(pool, nloop)
    cond_name = rng.choice([n for n in cpool if n not in names])
    # input bindings; one outside source per binding so that no two bindings denote the same reference (a component
    # using both would declare a duplicate reference, which the loader rejects for unrelated reasons)
    nb = rng.randint(1, 3)
    sources = [{"stage": rng.randint(0, imp), "name": "src%d" % (src_no + i), "refs": []} for i in range(nb)]
    keys = ["in%d" % i for i in range(nb)]
    bind_method = {k: rng.choice(["output", "ref", "copy"]) for k in keys}
    bindings = []
    for i, k in enumerate(keys):
        s = sources[i]
        f = rng.choice(["", "", "out.txt"]) if bind_method[k] != "output" else ""
        bindings.append({"key": k, "ref": R(s["name"], bind_method[k], stage=s["stage"], file=f)})
    # template components, stages non-decreasing
    comps = []
    st = 0
    for n in names:
        st = min(2, st + rng.choice([0, 0, 1]))
        comps.append({"stage": st, "name": n, "refs": []})
    cond_stage = min(2, st + rng.choice([0, 1]))
    other_stage = [c for c in comps if c["stage"] != cond_stage]
    if other_stage and rng.random() < 0.2:
        # looped components of different stages may share a name: the condition has a namesake in another stage
        cond_name = rng.choice(other_stage)["name"]
    comps.append({"stage": cond_stage, "name": cond_name, "refs": []})
    if rng.random() < 0.3:
        rng.shuffle(comps)
    order = sorted(comps, key=lambda c: c["stage"])

    def internal_ref(owner, target):
        m = rng.choice(METHODS)
        f = rng.choice(["", "", "res.dat"]) if m != "output" else ""
        if target["stage"] == owner["stage"] and rng.random() < 0.5:
            return R(target["name"], m, stage=None, file=f)           # relative spelling
        return R(target["name"], m, stage=target["stage"], file=f)    # template-absolute spelling

    used_keys = set()
    bfile = dict((b["key"], b["ref"]["file"]) for b in bindings)
    for c in comps:
        earlier = [t for t in order if t is not c and (t["stage"] < c["stage"] or
                                                        (t["stage"] == c["stage"] and order.index(t) < order.index(c)))]
        is_cond = (c["stage"], c["name"]) == (cond_stage, cond_name)
        if not is_cond or not earlier:
            for k in rng.sample(keys, rng.randint(0 if earlier else 1, min(2, nb))):
                c["refs"].append(R(k, bind_method[k], stage=None,
                                   file="" if bind_method[k] == "output" or bfile[k] else rng.choice(["", "sub.txt"])))
                used_keys.add(k)
        for t in rng.sample(earlier, min(len(earlier), rng.randint(1 if is_cond else 0, 2))):
            c["refs"].append(internal_ref(c, t))
        if rng.random() < 0.15:
            c["refs"].append(R("data", "ref", file="d.txt", direct=True))
        rng.shuffle(c["refs"])
    # loop bindings: a subset of the used keys is fed from a looped component of the previous iteration
    loop_bindings = []
    free_targets = list(comps)
    rng.shuffle(free_targets)
    for k in sorted(used_keys):
        if rng.random() < 0.7 and free_targets:
            t = free_targets.pop()         # distinct targets: no duplicate references after projection
            f = ""
            if bind_method[k] != "output":
                f = bfile[k]  # same file name as the original binding (a use site may override only an empty one)
            spelled_stage = t["stage"] if (t["stage"] > 0 or rng.random() < 0.5) else None
            loop_bindings.append({"key": k, "ref": R(t["name"], bind_method[k], stage=spelled_stage, file=f)})
    # a component that uses a loop-carried binding fed by looped component t may also read t of its own iteration
    # through the relative spelling (`t:method`): after the binding is substituted the relative spelling is a suffix
    # of the substituted text
    lb = {b["key"]: b["ref"] for b in loop_bindings}
    for c in comps:
        for r in list(c["refs"]):
            if r["producer"] in lb and rng.random() < 0.35:
                b = lb[r["producer"]]
                t = [t for t in comps if (t["stage"], t["name"]) == (b["stage"] or 0, b["producer"])][0]
                if t["stage"] == c["stage"] and order.index(t) < order.index(c) and not any(
                        (x["producer"], x["method"]) == (t["name"], r["method"]) for x in c["refs"]):
                    c["refs"].append(R(t["name"], r["method"], stage=None, file=r["file"] or b["file"] if r["method"] != "output" else ""))
    # aggregate references INSIDE the loop (`stop when the history of x:loopoutput has converged`): a looped component
    # on which nothing in the loop depends (no reference to it, not the source of a loop-carried binding) — most often
    # the condition component itself — reads all instances of a looped sibling of its own or an earlier stage.  (A
    # component that something else in the loop depends on cannot: the reference expands to all instances + the
    # producer of the current condition, which would close a cycle.)
    agg_targets = []
    if aggregate is None:
        aggregate = rng.random() < 0.3
    if aggregate and len(comps) >= 2:
        referenced = {((r["stage"] if r["stage"] is not None else c["stage"]), r["producer"])
                      for c in comps for r in c["refs"] if not r["direct"] and r["producer"] not in keys}
        referenced |= {((b["ref"]["stage"] or 0), b["ref"]["producer"]) for b in loop_bindings}
        sinks = [c for c in comps if (c["stage"], c["name"]) not in referenced]
        cond_c = [c for c in sinks if (c["stage"], c["name"]) == (cond_stage, cond_name)]
        owners = cond_c if (cond_c and rng.random() < 0.75) else sinks
        if owners:
            for c in rng.sample(owners, min(len(owners), rng.choice([1, 1, 2]))):
                if (c["stage"], c["name"]) in referenced:
                    continue          # an earlier aggregate reference made another component depend on it
                # never a component that aggregates itself: it must stay one nothing depends on
                cands = [t for t in comps if t is not c and t["stage"] <= c["stage"] and
                         not any(r["method"] in AGG and r["producer"] not in keys for r in t["refs"])]
                if not cands:
                    continue
                t = rng.choice(cands)
                m = rng.choice(AGG)
                f = rng.choice(["", "", "res.dat"]) if m == "loopref" else ""
                spelled = None if (t["stage"] == c["stage"] and rng.random() < 0.5) else t["stage"]
                c["refs"].insert(rng.randint(0, len(c["refs"])), R(t["name"], m, stage=spelled, file=f))
                agg_targets.append((t["stage"], t["name"]))
                referenced.add((t["stage"], t["name"]))
    # reference occurrences of the command line: every argument-capable reference once, sometimes one of them twice
    for c in comps:
        idx = [i for i, r in enumerate(c["refs"]) if r["method"] in ARG_METHODS]
        if idx and rng.random() < 0.08:
            idx.append(rng.choice(idx))
            c["args"] = idx
    cond_file = rng.choice(["", "next.txt"])
    loop = {"import": imp, "loop": comps, "bindings": bindings, "loopBindings": loop_bindings,
            "cond": {"stage": cond_stage, "name": cond_name, "file": cond_file}}
    return loop, sources, agg_targets


def gen_ops(rng, ks, ctl):
    """an interleaving of the documents' iterations with reads in between"""
    nl = len(ks)
    mode = rng.choice(["seq", "revseq", "random", "random"]) if nl > 1 else "seq"
    order = list(range(nl))
    if mode == "revseq":
        order.reverse()
    advs = [l for l in order for _ in range(ks[l])]
    if mode == "random":
        rng.shuffle(advs)
    ops = [["adv", l] for l in advs]
    kinds = (READ_CTL + READ_GRAPH) if ctl else READ_GRAPH
    if rng.random() < 0.75:
        for _ in range(rng.randint(1, 4)):
            ops.insert(rng.randint(0, len(ops)), ["read", rng.choice(kinds)])
        if rng.random() < 0.8:
            ops.append(["read", rng.choice(kinds)])
    return ops, mode


# ambient setting: the logging configuration of the process (`elaunch.py -l 10`, a notebook that configured the root
# logger, …).  The loggers of the anchored modules and the numeric levels their statements use (12-15, 18, 19 besides
# the standard ones).  None = logging disabled altogether (what the other cases run with).
LOGGERS = ["graph", "graph.workflowgraph", "flowir", "control.controller", "controller.transitiontofinalstate"]
LOG_LEVELS = [1, 5, 10, 12, 13, 14, 15, 18, 19, 20, 30]


def gen_log(rng):
    r = rng.random()
    if r < 0.45:
        return None
    if r < 0.75:
        # the whole process at one level (root logger; 0 = NOTSET on the root: everything is emitted)
        return {"root": rng.choice([0, 1, 10, 10, 12, 13, 13, 14, 15, 19, 20]), "loggers": {}}
    # the root stays at its default (WARNING) or INFO, some loggers of the anchored modules are turned up (or NOTSET)
    names = rng.sample(LOGGERS, rng.randint(1, 3))
    return {"root": rng.choice([None, 20, 30, 10]), "loggers": {n: rng.choice(LOG_LEVELS + [0, 10, 13]) for n in names}}


def gen_case(rng, budget, kchoices):
    nl = rng.choice([1, 1, 2, 2, 2, 3])
    loops, sources, taken, used_names, aggregated = [], [], set(), set(), []
    for l in range(nl):
        imp = rng.randint(0, 2)
        share = rng.random() < 0.5     # documents may use the same component names in different stages
        agg = rng.random() < 0.3       # a looped component (mostly the condition) aggregates a looped sibling
        for attempt in range(12):
            lp, srcs, aggt = gen_loop(rng, imp, len(sources), None if (share and attempt < 6) else used_names, agg)
            ids = {(c["stage"] + imp, c["name"]) for c in lp["loop"]}
            if not (ids & taken):
                break
        taken |= ids
        used_names |= {c["name"] for c in lp["loop"]}
        loops.append(lp)
        sources.extend(srcs)
        aggregated += [(lp, [c for c in lp["loop"] if (c["stage"], c["name"]) == t][0]) for t in aggt]
    everything = [(lp, c) for lp in loops for c in lp["loop"]]
    last = max(lp["import"] + c["stage"] for lp, c in everything)
    consumers = []
    for i, (lp, t) in enumerate(aggregated[:2]):
        # the looped component that a looped sibling aggregates is also read from outside the loop (so the same
        # placeholder has a consumer inside — possibly the producer of the condition — and one outside)
        if rng.random() < 0.85:
            m = rng.choice(["ref", "output", "copy", "loopref", "loopoutput"])
            consumers.append({"stage": last + rng.randint(0, 1), "name": "share%d" % i,
                              "refs": [R(t["name"], m, stage=t["stage"] + lp["import"],
                                         file=rng.choice(["", "f.csv"]) if m in ("ref", "copy", "loopref") else "")]})
    for i in range(rng.randint(1, 2)):
        lp, t = rng.choice(everything)
        m = rng.choice(["ref", "output", "copy"])
        consumers.append({"stage": last + rng.randint(0, 1), "name": "plain%d" % i,
                          "refs": [R(t["name"], m, stage=t["stage"] + lp["import"],
                                     file="" if m == "output" else rng.choice(["", "f.csv"]))]})
    if nl > 1 and rng.random() < 0.6:
        # one consumer of the newest instance of a looped component of every document
        refs = []
        for lp in loops:
            t = rng.choice(lp["loop"])
            m = rng.choice(["ref", "output", "copy"])
            refs.append(R(t["name"], m, stage=t["stage"] + lp["import"], file="" if m == "output" else rng.choice(["", "f.csv"])))
        consumers.append({"stage": last + rng.randint(0, 1), "name": "report", "refs": refs})
    for i in range(rng.randint(1, 2)):
        lp, t = rng.choice(everything)
        refs = [R(t["name"], "loopref", stage=t["stage"] + lp["import"], file=rng.choice(["", "f.csv"]))]
        if rng.random() < 0.3:
            lp2, t2 = rng.choice(everything)
            refs.append(R(t2["name"], "ref", stage=t2["stage"] + lp2["import"]))
        consumers.append({"stage": last + rng.randint(0, 1), "name": "agg%d" % i, "refs": refs})
    # the loader requires the stage indices of a package to be contiguous from 0
    used = {c["stage"] for c in sources + consumers} | {c["stage"] + lp["import"] for lp, c in everything}
    for st in range(max(used) + 1):
        if st not in used:
            sources.append({"stage": st, "name": "fill%d" % st, "refs": []})
    ks = [rng.choice(kchoices) for _ in range(nl)]
    while sum(ks) > budget:
        i = ks.index(max(ks))
        ks[i] = rng.randint(0, max(0, ks[i] - 1)) if nl > 1 else budget
    r = rng.random()
    if nl > 1 and r < 0.3:
        ks.sort()                      # the document listed first is the one that iterates least
    elif nl > 1 and r < 0.45:
        ks.sort(reverse=True)
    ctl = rng.random() < 0.65
    ops, mode = gen_ops(rng, ks, ctl)
    case = {"loops": loops, "sources": sources, "consumers": consumers, "ops": ops, "ctl": ctl, "mode": mode}
    log = gen_log(rng)
    if log is not None:
        case["log"] = log
    starts = restart_stages(case)
    if ctl and starts and rng.random() < 0.6:
        # restart: the documents that lie entirely before the start stage did their iterations in the earlier run
        # (instantiated on the WorkflowGraph before the Controller exists); the Controller starts at stage `start`
        # and marks their placeholders as finished; the other documents iterate under the Controller
        start = rng.choice(starts)
        fin = finished_documents(case, start)
        case["ops"] = [op for op in ops if op[0] == "adv" and op[1] in fin] + \
                      [op for op in ops if not (op[0] == "adv" and op[1] in fin)]
        case["start"] = start
        case["mode"] = "restart"
    return case


def finished_documents(case, start):
    """documents all of whose looped components are in stages before `start`"""
    return [l for l, lp in enumerate(case["loops"]) if max(lp["import"] + c["stage"] for c in lp["loop"]) < start]


def restart_stages(case):
    """start stages > 0 such that every document lies entirely before or entirely at/after the stage, at least one before and one after"""
    out = []
    last = max(c["stage"] for c in case["consumers"])
    for st in range(1, last + 1):
        fin = finished_documents(case, st)
        live = [l for l, lp in enumerate(case["loops"]) if lp["import"] >= st]
        if fin and live and len(fin) + len(live) == len(case["loops"]):
            out.append(st)
    return out


def norm(case):
    """cases written before the generator produced several documents: one document, `k` iterations, no reads"""
    if "loops" in case:
        return case
    lp = {k: case[k] for k in ("import", "loop", "bindings", "loopBindings", "cond")}
    return {"loops": [lp], "sources": case["sources"], "consumers": case["consumers"],
            "ops": [["adv", 0]] * case["k"], "ctl": bool(case.get("ctl", False)), "mode": "seq"}


def counts(ops, nl):
    ks = [0] * nl
    for op in ops:
        if op[0] == "adv" and op[1] < nl:
            ks[op[1]] += 1
    return ks


MINIMAL = {
    "import": 1, "k": 10,
    "loop": [{"stage": 0, "name": "x", "refs": [R("in0", "output")]},
             {"stage": 0, "name": "stop", "refs": [R("x", "output")]}],
    "bindings": [{"key": "in0", "ref": R("src0", "output", stage=0)}],
    "loopBindings": [{"key": "in0", "ref": R("x", "output")}],
    "cond": {"stage": 0, "name": "stop", "file": ""},
    "sources": [{"stage": 0, "name": "src0", "refs": []}],
    "consumers": [{"stage": 2, "name": "plain0", "refs": [R("x", "ref", stage=1)]},
                  {"stage": 2, "name": "agg0", "refs": [R("x", "loopref", stage=1)]}],
}


def arg_indices(c):
    """indices (into c["refs"]) of the reference occurrences of the command line, in textual order; only these methods
    may appear in an argument string, copy/link references are listed in `references` only"""
    if "args" in c:
        return list(c["args"])
    return [i for i, r in enumerate(c["refs"]) if r["method"] in ARG_METHODS]


def args_text(c, texts=None):
    texts = texts if texts is not None else [ref_text(r) for r in c["refs"]]
    return " ".join(texts[i] for i in arg_indices(c))


SAME_NAME = {
    "import": 1, "k": 4,
    "loop": [{"stage": 0, "name": "stop", "refs": [R("in0", "output")]},
             {"stage": 1, "name": "stop", "refs": [R("stop", "output", stage=0)]}],
    "bindings": [{"key": "in0", "ref": R("src0", "output", stage=0)}],
    "loopBindings": [],
    "cond": {"stage": 1, "name": "stop", "file": ""},
    "sources": [{"stage": 0, "name": "src0", "refs": []}],
    "consumers": [{"stage": 2, "name": "plain0", "refs": [R("stop", "ref", stage=2)]}],
}

REPEATED_ARG = {
    "import": 0, "k": 1,
    "loop": [{"stage": 0, "name": "x", "refs": [R("in0", "output")], "args": [0, 0]},
             {"stage": 0, "name": "y", "refs": [R("in0", "output"), R("x", "output")]},
             {"stage": 0, "name": "stop", "refs": [R("y", "output")]}],
    "bindings": [{"key": "in0", "ref": R("src0", "output", stage=0)}],
    "loopBindings": [{"key": "in0", "ref": R("x", "output")}],
    "cond": {"stage": 0, "name": "stop", "file": ""},
    "sources": [{"stage": 0, "name": "src0", "refs": []}],
    "consumers": [{"stage": 1, "name": "plain0", "refs": [R("y", "ref", stage=0)]}],
}


# the component that produces the condition aggregates a looped sibling (`stop when the history of x has converged`)
# and the same sibling is read from outside the loop
COND_AGGREGATES = {
    "import": 1, "k": 3,
    "loop": [{"stage": 0, "name": "x", "refs": [R("in0", "output")]},
             {"stage": 0, "name": "y", "refs": [R("x", "ref")]},
             {"stage": 0, "name": "stop", "refs": [R("x", "loopoutput"), R("y", "loopref", stage=0, file="res.dat"),
                                                    R("x", "output")]}],
    "bindings": [{"key": "in0", "ref": R("src0", "output", stage=0)}],
    "loopBindings": [{"key": "in0", "ref": R("x", "output")}],
    "cond": {"stage": 0, "name": "stop", "file": ""},
    "sources": [{"stage": 0, "name": "src0", "refs": []}],
    "consumers": [{"stage": 2, "name": "plain0", "refs": [R("x", "ref", stage=1)]},
                  {"stage": 2, "name": "agg0", "refs": [R("y", "loopref", stage=1)]},
                  {"stage": 1, "name": "share0", "refs": [R("x", "loopoutput", stage=1)]}],
}


def _same_template(imp):
    return {"import": imp,
            "loop": [{"stage": 0, "name": "x", "refs": [R("in0", "output")]},
                     {"stage": 0, "name": "stop", "refs": [R("x", "output")]}],
            "bindings": [{"key": "in0", "ref": R("src0", "output", stage=0)}],
            "loopBindings": [{"key": "in0", "ref": R("x", "output")}],
            "cond": {"stage": 0, "name": "stop", "file": ""}}


# restart at stage 2 (the Controller marks the placeholders of the document in stage 1 as finished), then the document
# of stage 2 iterates (fixed: fixes/C05-finished-placeholders-keep-their-instances.diff, /repo aa98233)
RESTART_TWO_DOCUMENTS = {
    "loops": [_same_template(1), _same_template(2)],
    "sources": [{"stage": 0, "name": "src0", "refs": []}],
    "consumers": [{"stage": 3, "name": "report", "refs": [R("x", "ref", stage=1), R("x", "ref", stage=2)]}],
    "ops": [["adv", 1], ["read", "status"], ["adv", 1]],
    "ctl": True, "start": 2, "mode": "seq",
}

# the same template imported twice; the document listed first iterates less than the second, the Controller analyses
# its dependencies in between and at the end
TWO_DOCUMENTS = {
    "loops": [_same_template(1), _same_template(2)],
    "sources": [{"stage": 0, "name": "src0", "refs": []}],
    "consumers": [{"stage": 3, "name": "report", "refs": [R("x", "ref", stage=1), R("x", "ref", stage=2)]},
                  {"stage": 3, "name": "agg0", "refs": [R("x", "loopref", stage=1)]},
                  {"stage": 3, "name": "agg1", "refs": [R("x", "loopref", stage=2)]}],
    "ops": [["adv", 0], ["read", "status"], ["adv", 1], ["adv", 1], ["read", "preds"], ["adv", 1], ["read", "state"],
            ["read", "status-active"], ["read", "deps"], ["read", "resolve"]],
    "ctl": True, "mode": "seq",
}


def disk_corpus():
    """fixed cases of the `files` family: the condition component aggregates `x` (:loopoutput) and `y` (:loopref), an
    outside consumer reads stage1.x:loopoutput; the outputs of the instances are all there / partially there"""
    out = []

    def case_k(k, x_states, ctl, y_states=None, reload=False):
        c = norm(dict(copy.deepcopy(COND_AGGREGATES), k=k))
        c["consumers"].append({"stage": 2, "name": "last0", "refs": [R("x", "output", stage=1)]})
        c["consumers"].append({"stage": 2, "name": "hist0", "refs": [R("y", "loopoutput", stage=1, file="f.csv")]})
        c["ctl"] = ctl
        full = lambda nm: [value_token(i, nm) for i in range(k + 1)]
        spec = [{"stage": 1, "name": "x", "states": x_states},
                {"stage": 1, "name": "y", "states": y_states if y_states is not None else full("y")},
                {"stage": 1, "name": "stop", "states": full("stop")}]
        c["ops"] = c["ops"] + [["files", spec] + (["reload"] if reload else [])]
        return c

    def holes(k, idx, absent=None):
        return [absent if i in idx else value_token(i, "x") for i in range(k + 1)]
    out.append(("disk-k3-all-present", case_k(3, holes(3, []), False)))
    out.append(("disk-k3-middle-missing", case_k(3, holes(3, [2]), False)))
    out.append(("disk-k3-first-missing-controller", case_k(3, holes(3, [0]), True, y_states=holes(3, [1, 2], False))))
    out.append(("disk-k2-newest-missing", case_k(2, holes(2, [2]), True)))
    out.append(("disk-k1-none-present", case_k(1, holes(1, [0, 1]), False, y_states=[None, False])))
    out.append(("disk-k11-tenth-missing", case_k(11, holes(11, [10]), False)))
    out.append(("disk-k10-directory-of-ninth-missing-reloaded", case_k(10, holes(10, [9], False), True, reload=True)))
    return out


def comp_yaml(c, loop=False):
    d = {"name": c["name"], "stage": c["stage"],
         "command": {"executable": "echo", "arguments": args_text(c) or "hello"},
         "references": [ref_text(r) for r in c["refs"]]}
    return d


def dw_file(l):
    return "dowhile%d.yaml" % l


def dw_name(case, l):
    return "stage%d.loop%d" % (case["loops"][l]["import"], l)


def package_for(case):
    """(main FlowIR text, {relative path: text} of the imported documents)"""
    import yaml
    case = norm(case)
    extra = {"data/d.txt": "d\n"}
    stubs = []
    for l, lp in enumerate(case["loops"]):
        dw = {"type": "DoWhile",
              "inputBindings": {b["key"]: {"type": b["ref"]["method"]} for b in lp["bindings"]},
              "loopBindings": {b["key"]: ref_text(b["ref"]) for b in lp["loopBindings"]},
              "condition": ref_text(R(lp["cond"]["name"], "output", stage=lp["cond"]["stage"], file=lp["cond"]["file"])),
              "components": [comp_yaml(c, True) for c in lp["loop"]]}
        if not dw["loopBindings"]:
            del dw["loopBindings"]
        extra["conf/" + dw_file(l)] = yaml.safe_dump(dw)
        stubs.append({"stage": lp["import"], "name": "loop%d" % l, "$import": dw_file(l),
                      "bindings": {b["key"]: ref_text(b["ref"]) for b in lp["bindings"]}})
    main = {"components": [comp_yaml(c) for c in case["sources"]] + stubs + [comp_yaml(c) for c in case["consumers"]]}
    return yaml.safe_dump(main), extra


def model_request(case, num=True):
    case = norm(case)

    def comp(c):
        return {"stage": c["stage"], "name": c["name"], "refs": c["refs"], "args": [c["refs"][i] for i in arg_indices(c)]}
    docs = [{"comps": [comp(c) for c in lp["loop"]], "bindings": lp["bindings"], "loopBindings": lp["loopBindings"],
             "condStage": lp["cond"]["stage"], "condName": lp["cond"]["name"], "condFile": lp["cond"]["file"],
             "importStage": lp["import"]} for lp in case["loops"]]
    ops = []
    for n, op in enumerate(case["ops"]):
        if op[0] == "adv":
            ops.append(["adv", op[1]])
        elif op[0] == "files":
            st = norm_spec(case, counts(case["ops"][:n], len(case["loops"])), op[1])
            ops.append(["files", [{"stage": s_, "name": n_, "states": v} for (s_, n_), v in sorted(st.items())]])
        else:
            ops.append(["read"])
    return {"op": "runm", "num": num, "docs": docs, "sparse": bool(case.get("sparse")), "ops": ops,
            "out": [comp(c) for c in case["sources"] + case["consumers"]]}


# ----------------------------------------------------------------------------------------
# the state of the disk: which instances have produced their outputs when a reference is resolved
# ----------------------------------------------------------------------------------------
#
# operation ["files", spec(, "reload")]: spec = [{"stage": S, "name": N, "states": [st_0 … st_k]}] for the placeholders
# stage<S>.<N>; st_i is what instance i has on disk while the references are resolved: a string = its stdout and the
# files DISK_FILES exist with that content (""= empty files), None = its working directory exists without them,
# False = its working directory does not exist.  Afterwards the disk is put back (nothing ran).

DISK_FILES = ("out.stdout", "f.csv", "res.dat")
DISK_VARIANTS = ("", "f.csv")          # aggregate / newest-instance references without and with a file path
DISK_PATTERNS = ["all", "all", "none", "first", "last", "middle", "middle", "one", "two", "independent", "independent",
                 "only-last", "only-first", "tenth", "one-empty"]


def value_token(i, name):
    return "v%d_%s" % (i, name)


def gen_states(rng, k, name, kind=None):
    n = k + 1
    st = [value_token(i, name) for i in range(n)]
    kind = kind or rng.choice(DISK_PATTERNS)

    def absent():
        return rng.choice([None, None, False])
    if kind == "none":
        st = [absent() for _ in range(n)]
    elif kind == "first":
        st[0] = absent()
    elif kind == "last":
        st[-1] = absent()
    elif kind == "middle":
        st[rng.randint(min(1, n - 1), max(n - 2, min(1, n - 1)))] = absent()
    elif kind == "one":
        st[rng.randrange(n)] = absent()
    elif kind == "two":
        for i in rng.sample(range(n), min(2, n)):
            st[i] = absent()
    elif kind == "independent":
        st = [rng.choice([v, v, v, "", None, False]) for v in st]
    elif kind == "only-last":
        st = [absent() for _ in range(n - 1)] + st[-1:]
    elif kind == "only-first":
        st = st[:1] + [absent() for _ in range(n - 1)]
    elif kind == "tenth":
        st[10 if n > 10 else rng.randrange(n)] = absent()
    elif kind == "one-empty":
        st[rng.randrange(n)] = ""
    return st


def placeholder_ids(case):
    """{(stage, name): document index} of the looped components"""
    return {(c["stage"] + lp["import"], c["name"]): l for l, lp in enumerate(case["loops"]) for c in lp["loop"]}


def norm_spec(case, ks, spec):
    """{(stage, name): [state of instance 0 … k]} for the placeholders of the case the specification names; instances
    it does not cover have no working directory"""
    known = placeholder_ids(case)
    out = {}
    for e in spec:
        p = (e["stage"], e["name"])
        if p in known:
            k = ks[known[p]]
            out[p] = (list(e["states"]) + [False] * (k + 1))[:k + 1]
    return out


def add_files(rng, case):
    """insert 1-2 `files` operations into the operations of the case (restart cases: after the iterations of the earlier
    run) and give the case an outside consumer of a `:loopoutput` reference"""
    nl = len(case["loops"])
    everything = [(lp, c) for lp in case["loops"] for c in lp["loop"]]
    if rng.random() < 0.6:
        lp, t = rng.choice(everything)
        case["consumers"].append({"stage": max(c["stage"] for c in case["consumers"]), "name": "hist0",
                                  "refs": [R(t["name"], "loopoutput", stage=t["stage"] + lp["import"],
                                             file=rng.choice(["", "", "f.csv"]))]})
    ops = case["ops"]
    lo = 0
    if case.get("start"):
        fin = finished_documents(case, case["start"])
        lo = max([i + 1 for i, op in enumerate(ops) if op[0] == "adv" and op[1] in fin] or [0])
    positions = {len(ops) if rng.random() < 0.6 else rng.randint(lo, len(ops)) for _ in range(rng.choice([1, 1, 2]))}
    for pos in sorted(positions, reverse=True):
        ks = counts(ops[:pos], nl)
        spec = [{"stage": c["stage"] + lp["import"], "name": c["name"],
                 "states": gen_states(rng, ks[l], c["name"])}
                for l, lp in enumerate(case["loops"]) for c in lp["loop"]]
        op = ["files", spec]
        if rng.random() < 0.12:
            op.append("reload")        # resolved in the instance loaded anew from disk
        ops.insert(pos, op)
    return case


def inst_dir(root, stage, i, name):
    return os.path.join(root, "stages", "stage%d" % stage, "%d#%s" % (i, name))


def apply_disk(root, states, aside):
    """make the disk look like `states`; returns the undo list"""
    undo = []
    os.makedirs(aside, exist_ok=True)

    def away(path):
        dest = os.path.join(aside, "%d" % len(os.listdir(aside)))
        os.rename(path, dest)
        undo.append(("mv", dest, path))
    for (stage, name), sts in sorted(states.items()):
        for i, st in enumerate(sts):
            d = inst_dir(root, stage, i, name)
            had = os.path.isdir(d)
            if st is False:
                if had:
                    away(d)
                continue
            if not had:
                os.makedirs(d)
                undo.append(("rmtree", d, None))
            for fn in DISK_FILES:
                f = os.path.join(d, fn)
                if os.path.lexists(f):
                    away(f)
                if isinstance(st, str):
                    with open(f, "w") as fh:
                        fh.write(st + "\n" if st else "")
                    undo.append(("rm", f, None))
    return undo


def undo_disk(undo):
    for kind, a, b in reversed(undo):
        try:
            if kind == "mv":
                os.rename(a, b)
            elif kind == "rm":
                os.remove(a)
            else:
                shutil.rmtree(a, ignore_errors=True)
        except OSError:
            pass


def observe_disk(wg, case, G, ks, states):
    """the entry points that resolve references against the disk: DataReference.resolve, StageReference (Job.stageIn)
    and ComponentSpecification.resolveArguments (the command line), for synthetic references to every placeholder of
    `states` and for the consumers of the case"""
    import experiment.model.data as D
    import experiment.model.errors as E
    root = wg.rootStorage.location

    def missing(exc):
        return [path_to_id(x, root)[0] for _, x in exc.referenceErrors]

    def resolve(text, method):
        try:
            v = G.DataReference(text).resolve(wg)
        except E.DataReferenceFilesDoNotExistError as exc:
            return {"err": missing(exc)}
        except Exception as exc:  # noqa
            return {"raised": type(exc).__name__}
        if method == "loopoutput":
            return {"ok": v.split(" ")}
        if method == "output":
            return {"ok": v}
        return {"ok": [list(path_to_id(x, root)) for x in v.split(" ")]}

    def stage(text):
        try:
            D.StageReference(G.DataReference(text), None, wg)
            return {"ok": True}
        except E.DataReferenceFilesDoNotExistError as exc:
            return {"err": missing(exc)}
        except Exception as exc:  # noqa
            return {"raised": type(exc).__name__}
    phs = {}
    for (stage_, name) in sorted(states):
        p = cid(stage_, name)
        e = {}
        for f in DISK_VARIANTS:
            sfx = "/" + f if f else ""
            for m in ("loopoutput", "loopref", "output", "ref"):
                e[m + sfx] = resolve("%s%s:%s" % (p, sfx, m), m)
            for m in ("loopoutput", "loopref"):
                e["stage:" + m + sfx] = stage("%s%s:%s" % (p, sfx, m))
        phs[p] = e

    def cmdline(node):
        spec = wg.graph.nodes[node]["componentSpecification"]
        out = {}
        for key, kw in (("strict", {}), ("lenient", {"ignoreErrors": True})):
            try:
                out[key] = {"ok": spec.resolveArguments(**kw).replace(root, "$I")}
            except Exception as exc:  # noqa
                out[key] = {"raised": type(exc).__name__}
        return out
    cmds = {}
    for node in cmdline_nodes(case, ks):
        if wg.graph.has_node(node):
            cmds[node] = cmdline(node)
    return {"placeholders": phs, "cmdlines": cmds}


def cmdline_nodes(case, ks):
    """{component id: (argument reference texts in textual order, all declared reference texts)} of the components whose
    command line is resolved against the disk: the outside consumers and the newest instance of every looped
    component that aggregates a looped sibling"""
    out = {}
    for c in case["consumers"]:
        texts = [ref_text(r) for r in c["refs"]]
        out[cid(c["stage"], c["name"])] = ([texts[i] for i in arg_indices(c)], texts)
    for l, lp in enumerate(case["loops"]):
        keys = {b["key"] for b in lp["bindings"]}
        for c in lp["loop"]:
            if any(r["method"] in AGG and not r["direct"] and r["producer"] not in keys for r in c["refs"]):
                texts = expected_refs(lp, c, ks[l])
                out[cid(c["stage"] + lp["import"], "%d#%s" % (ks[l], c["name"]))] = ([texts[i] for i in arg_indices(c)], texts)
    return out


# ----------------------------------------------------------------------------------------
# real code driver
# ----------------------------------------------------------------------------------------

def path_to_id(path, root):
    """<instance>/stages/stage<N>/<name>[/file] -> ('stage<N>.<name>', file)"""
    rel = os.path.relpath(path, root)
    parts = rel.split(os.sep)
    if len(parts) >= 3 and parts[0] == "stages" and parts[1].startswith("stage"):
        return "%s.%s" % (parts[1], parts[2]), "/".join(parts[3:])
    return "?" + rel, ""


def resolve_consumer(wg, spec, root):
    res = []
    for dr in spec.dataReferences:
        try:
            if dr.method == "output":
                # resolve() of :output reads the producer's stdout file (not there: nothing ran); the producer it
                # reads from is the one true_reference_to_component_id reports
                res.append([dr.stringRepresentation,
                            [[cid(*x), ""] for x in dr.true_reference_to_component_id(wg)]])
            elif dr.method == "loopoutput":
                # resolve() of :loopoutput reads one file per instance, in the order of the aggregate (nothing ran:
                # none of them is there and the error lists them in that order)
                import experiment.model.errors as E
                try:
                    got = dr.resolve(wg)
                    res.append([dr.stringRepresentation, "resolved:" + got])
                except E.DataReferenceFilesDoNotExistError as exc:
                    res.append([dr.stringRepresentation, [list(path_to_id(x, root)) for _, x in exc.referenceErrors]])
            else:
                res.append([dr.stringRepresentation,
                            [list(path_to_id(x, root)) for x in dr.resolve(wg).split()]])
        except Exception as exc:  # noqa
            res.append([dr.stringRepresentation, "error:" + type(exc).__name__])
    return sorted(res)


def observe(wg, case, G, ctl=None):
    import experiment.model.frontends.flowir as F
    concrete = wg._concrete
    comps = {}
    for stage, name in concrete.get_component_identifiers(True, False):
        conf = concrete.get_component((stage, name), True)
        comps[cid(stage, name)] = {"refs": list(conf.get("references", [])),
                                   "args": conf.get("command", {}).get("arguments")}
    root = wg.rootStorage.location
    nodes = [wg.get_document_metadata("DoWhile", dw_name(case, l)) for l in range(len(case["loops"]))]
    placeholders = {}
    for p, d in wg._placeholders.items():
        e = {"latest": d["latest"], "represents": sorted(d["represents"]), "n_represents": len(d["represents"]),
             "dw": d.get("DoWhileId")}
        try:
            e["ref"] = path_to_id(G.DataReference(p + ":ref").resolve(wg), root)[0]
        except Exception as exc:  # noqa
            e["ref"] = "error:" + type(exc).__name__
        try:
            e["loopref"] = [path_to_id(x, root)[0] for x in G.DataReference(p + ":loopref").resolve(wg).split()]
        except Exception as exc:  # noqa
            e["loopref"] = "error:" + type(exc).__name__
        try:
            pc = G.ComponentIdentifier(p)
            m = F.map_placeholder_id_to_iteration((pc.stageIndex, pc.componentName), nodes,
                                                  concrete.get_component_identifiers(True, False))
            e["maplatest"] = cid(*m) if m else None
        except Exception as exc:  # noqa
            e["maplatest"] = "error:" + type(exc).__name__
        placeholders[p] = e
    consumers = {}
    for c in case["consumers"]:
        spec = wg.graph.nodes[cid(c["stage"], c["name"])]["componentSpecification"]
        consumers[c["name"]] = resolve_consumer(wg, spec, root)
    obs = {"comps": comps, "nodes": sorted(wg.graph.nodes), "edges": sorted([a, b] for a, b in wg.graph.edges),
           "placeholders": placeholders, "consumers": consumers,
           "docs": [{"state": dict(n["state"]), "bindings": dict(n["document"].get("bindings", {})),
                     "loopBindings": dict(n["document"].get("loopBindings", {}))} for n in nodes]}
    if ctl is not None:
        # an attribute of the Controller, set by parse_workflow_graph: {producer of the current condition: document}
        obs["ctl_conditions"] = dict(ctl.comp_condition_to_dowhile)
    return obs


def do_read(kind, wg, case, G, ctl):
    """operations of the real code that only read the placeholders; returns what the Controller's dependency analysis
    reported for the placeholders (kind `preds`), None otherwise"""
    root = wg.rootStorage.location
    names = list(wg._placeholders)
    if ctl is None or kind == "resolve":
        for c in case["consumers"]:
            spec = wg.graph.nodes[cid(c["stage"], c["name"])]["componentSpecification"]
            resolve_consumer(wg, spec, root)
            for dr in spec.dataReferences:
                dr.true_reference_to_component_id(wg)
            list(wg.graph.predecessors(cid(c["stage"], c["name"])))
        for p in names:
            for m in ("ref", "loopref", "copy"):
                G.DataReference("%s:%s" % (p, m)).resolve(wg)
        return None
    if kind == "status":
        ctl.generate_status_report_for_nodes(components=None, filter_done=False)
    elif kind == "status-active":
        ctl.generate_status_report_for_nodes(components=None, filter_done=True)
    elif kind == "preds":
        out = {}
        for p in names:
            r = ctl._comp_get_active_predecessors(p)
            out[p] = {"producers": sorted(r["producers"]), "n": len(r["producers"]), "subjects": sorted(r["subjects"])}
        return out
    elif kind == "state":
        for p in names:
            ctl.get_node_state(p)
            ctl.get_placeholder_state(p)
            ctl.node_is_active(p)
        ctl._true_nodes_from_identifiers(names, only_latest_looped=True)
        ctl._true_nodes_from_identifiers(names, only_latest_looped=False)
        for st in range(len(ctl.experiment._stages)):
            ctl._get_placeholder_nodes_in_stage(st)
    elif kind == "deps":
        # the scheduler's question for the outside consumers and the newest instances
        for c in case["consumers"]:
            ctl._input_dependencies_satisfied(ctl.get_compstate(cid(c["stage"], c["name"])))
        for p in names:
            latest = wg._placeholders[p]["latest"]
            if wg.graph.has_node(latest):
                ctl._input_dependencies_satisfied(ctl.get_compstate(latest))
    else:
        raise ValueError("unknown read %r" % kind)
    return None


def apply_log(cfg):
    """the ambient logging configuration of the case: None = logging disabled; otherwise the level of the root logger
    (None: left as it is) and of named loggers; records go to a NullHandler (nothing is printed; `isEnabledFor`, the
    formatting of the messages and whatever the statements evaluate happen as in a verbose run).  Returns the undo."""
    if cfg is None:
        logging.disable(logging.CRITICAL)
        return lambda: None
    root = logging.getLogger()
    saved_handlers, saved_level = root.handlers[:], root.level
    names = list(cfg.get("loggers", {}))
    saved = {n: logging.getLogger(n).level for n in names}
    root.handlers = [logging.NullHandler()]
    logging.disable(logging.NOTSET)
    if cfg.get("root") is not None:
        root.setLevel(cfg["root"])
    for n in names:
        logging.getLogger(n).setLevel(cfg["loggers"][n])

    def undo():
        for n in names:
            logging.getLogger(n).setLevel(saved[n])
        root.setLevel(saved_level)
        root.handlers = saved_handlers
    return undo


def impl_run(case, tmp):
    """returns {"steps": [observation after the load, after op 1, …]} or {"error": …, "steps": […so far]}"""
    from harness import detsim
    env = detsim.install()
    import tests.utils as TU
    import experiment.model.graph as G
    case = norm(case)
    main, extra = package_for(case)
    cwd = os.getcwd()
    steps = []
    at = []            # number of operations applied when the observation was made
    sparse = bool(case.get("sparse"))       # observe only after the load and after the last operation
    store = any((op[0] == "read" and op[1] == "reload") or (op[0] == "files" and "reload" in op[2:]) for op in case["ops"])
    disk = []          # observations of the `files` operations: {"at": operations applied, "obs": …}
    prev = logging.root.manager.disable
    restore_log = apply_log(case.get("log"))
    n_int, n_eng = len(env["intervals"]), len(env["ENGINES"])
    exp = None
    try:
        try:
            exp = TU.experiment_from_flowir(main, tmp, extra_files=extra, checkExecutables=False)
        except Exception as exc:  # noqa
            return {"error": "load:" + type(exc).__name__, "msg": str(exc)[-1500:], "steps": steps, "at": at}
        wg = exp.experimentGraph
        ctl = None
        where = "controller"
        start = int(case.get("start", 0))
        fin = finished_documents(case, start) if start else []
        npre = 0        # leading iterations of the documents of the skipped stages: done before the Controller exists
        while npre < len(case["ops"]) and case["ops"][npre][0] == "adv" and case["ops"][npre][1] in fin:
            npre += 1

        def make_controller():
            # `start` > 0: the Controller starts at a later stage (restart): the components and placeholders of
            # the earlier stages are marked as finished
            c, _ = TU.new_controller(exp, initial_stage=start)
            # Controller.initialise runs the dependency analysis of every node and placeholder
            c.initialise(exp._stages[start], detsim.FakeStatus())
            return c
        try:
            if case.get("ctl") and npre == 0:
                ctl = make_controller()
            where = "observe"
            steps.append(observe(wg, case, G, ctl))
            at.append(0)
            for n, op in enumerate(case["ops"]):
                reloaded = None
                if op[0] == "adv":
                    where = "iterate"
                    node = wg.get_document_metadata("DoWhile", dw_name(case, op[1]))
                    if ctl is not None:
                        ctl._instantiate_next_dowhile_iteration(node)
                    else:
                        new = wg.instantiate_dowhile_next_iteration(node["document"], node["state"]["currentIteration"] + 1, store)
                        if case.get("ctl"):
                            # the earlier run of a restarted experiment: give the new nodes their Job and working
                            # directory (what Controller._instantiate_next_dowhile_iteration does besides the
                            # ComponentState), so that a Controller can be built on the experiment afterwards
                            import experiment.model.data as D
                            for reference in new:
                                ident = wg.graph.nodes[reference]["componentSpecification"].identification
                                directory = exp.instanceDirectory.createJobWorkingDirectory(ident.stageIndex, ident.componentName)
                                exp.getStage(ident.stageIndex).add_job(D.Job.jobFromConfiguration(ident, wg, directory))
                    preds = None
                elif op[0] == "files":
                    # the instances have / have not produced their outputs: resolve the references against that disk
                    where = "files"
                    ks_now = counts(case["ops"][:n], len(case["loops"]))
                    states = norm_spec(case, ks_now, op[1])
                    target = wg
                    if "reload" in op[2:]:
                        # another entry point to the same code: the graph of the instance loaded anew from disk
                        # (loading creates missing working directories: the disk is prepared afterwards)
                        import experiment.model.data as D
                        target = D.Experiment.experimentFromInstance(exp.instanceDirectory.location).experimentGraph
                    undo = apply_disk(wg.rootStorage.location, states, os.path.join(tmp, "aside"))
                    try:
                        disk.append({"at": n + 1, "obs": observe_disk(target, case, G, ks_now, states)})
                    finally:
                        undo_disk(undo)
                    preds = None
                elif op[1] == "reload":
                    # another entry point to the same code: the instance as stored on disk is loaded anew (restart,
                    # read-only tools): all iterations are there at load time instead of arriving one by one
                    where = "read-reload"
                    import experiment.model.data as D
                    exp2 = D.Experiment.experimentFromInstance(exp.instanceDirectory.location)
                    reloaded = observe(exp2.experimentGraph, case, G, None)
                    preds = None
                else:
                    where = "read-" + op[1]
                    preds = do_read(op[1], wg, case, G, ctl)
                if case.get("ctl") and ctl is None and n + 1 == npre:
                    where = "controller"
                    ctl = make_controller()
                if sparse and n + 1 < len(case["ops"]):
                    continue
                where = "observe"
                obs = observe(wg, case, G, ctl)
                if preds is not None:
                    obs["ctl_preds"] = preds
                if reloaded is not None:
                    obs["reloaded"] = reloaded
                steps.append(obs)
                at.append(n + 1)
        except Exception as exc:  # noqa
            import traceback
            return {"error": "%s:%s" % (where, type(exc).__name__), "msg": traceback.format_exc()[-1500:],
                    "steps": steps, "at": at, "disk": disk}
        return {"steps": steps, "at": at, "disk": disk}
    finally:
        restore_log()
        logging.disable(prev if isinstance(prev, int) else logging.CRITICAL)
        os.chdir(cwd)
        for _, s in env["intervals"][n_int:]:
            try:
                s.on_completed()
            except Exception:
                pass
        del env["intervals"][n_int:]
        del env["ENGINES"][n_eng:]
        try:
            shutil.rmtree(exp.instanceDirectory.location, ignore_errors=True)  # noqa
        except Exception:
            pass


def out_digest(out):
    import json
    return json.dumps({"steps": out["steps"], "error": out.get("error"), "disk": out.get("disk")}, sort_keys=True)


def run_children(items):
    """cases with a `hashseed`: the real code is run in a child process with that PYTHONHASHSEED (the order in which
    the code under test enumerates its sets of component ids depends on it); one child per seed.  {index: out}"""
    import json
    import subprocess
    import sys
    outs = {}
    by_seed = {}
    for idx, case in items:
        by_seed.setdefault(int(case["hashseed"]), []).append((idx, case))
    for seed, lst in sorted(by_seed.items()):
        tmp = tempfile.mkdtemp(prefix="c05-child-")
        try:
            fin, fout = os.path.join(tmp, "in.json"), os.path.join(tmp, "out.json")
            json.dump([c for _, c in lst], open(fin, "w"))
            env = dict(os.environ, PYTHONHASHSEED=str(seed), PYTHONDONTWRITEBYTECODE="1")
            try:
                r = subprocess.run([sys.executable, os.path.abspath(__file__), "--child", fin, fout], env=env,
                                   stdout=subprocess.PIPE, stderr=subprocess.STDOUT, text=True, timeout=900)
                res = json.load(open(fout))
            except Exception as exc:  # noqa
                raise RuntimeError("C05 child process (PYTHONHASHSEED=%d) failed: %r" % (seed, exc))
            for (idx, _), o in zip(lst, res):
                outs[idx] = o
        finally:
            shutil.rmtree(tmp, ignore_errors=True)
    return outs


def child_main(fin, fout):
    import json
    import sys
    import warnings
    verif = os.path.dirname(os.path.dirname(os.path.abspath(__file__)))
    repo = os.environ.get("ST4SD_REPO", "/repo")
    sys.path[:0] = [os.path.join(repo, "python"), repo, verif]
    warnings.filterwarnings("ignore")
    sys.dont_write_bytecode = True
    os.chdir(verif)
    from harness import c05, detsim
    detsim.install()
    tmp = tempfile.mkdtemp(prefix="c05-")
    try:
        res = [c05.impl_run(c, tmp) for c in json.load(open(fin))]
        json.dump(res, open(fout, "w"))
    finally:
        shutil.rmtree(tmp, ignore_errors=True)
    sys.stdout.flush()
    os._exit(0)


# ----------------------------------------------------------------------------------------
# oracle: the property text restated on the observations (independent of the Lean model)
# ----------------------------------------------------------------------------------------

def expected_refs(lp, c, i):
    """references of instance i of template component c of document lp according to the property text"""
    imp = lp["import"]
    loop_ids = {(t["stage"] + imp, t["name"]) for t in lp["loop"]}
    binds = {b["key"]: b["ref"] for b in lp["bindings"]}
    lbinds = {b["key"]: b["ref"] for b in lp["loopBindings"]}
    out = []
    for r in c["refs"]:
        if r["direct"]:
            out.append(ref_text(r))
        elif r["producer"] in binds:
            if i > 0 and r["producer"] in lbinds:
                b = lbinds[r["producer"]]     # loop-carried: produced by instance i-1
                out.append(ref_text(R("%d#%s" % (i - 1, b["producer"]), b["method"], stage=(b["stage"] or 0) + imp,
                                      file=r["file"] or b["file"])))
            else:
                b = binds[r["producer"]]      # original binding
                out.append(ref_text(R(b["producer"], b["method"], stage=b["stage"], file=r["file"] or b["file"])))
        else:
            st = (r["stage"] if r["stage"] is not None else c["stage"]) + imp
            assert (st, r["producer"]) in loop_ids
            prod = r["producer"] if r["method"] in AGG else "%d#%s" % (i, r["producer"])
            out.append(ref_text(R(prod, r["method"], stage=st, file=r["file"])))
    return out


def oracle_step(case, ks, obs):
    """list of (slug, detail) for an observation made when document l has instantiated ks[l] further iterations"""
    bad = []
    loops = case["loops"]
    want = {cid(c["stage"] + lp["import"], "%d#%s" % (i, c["name"]))
            for l, lp in enumerate(loops) for c in lp["loop"] for i in range(ks[l] + 1)}
    outside = {cid(c["stage"], c["name"]) for c in case["sources"] + case["consumers"]}
    got_nodes = set(obs["nodes"])
    got_comps = set(obs["comps"])
    if got_nodes != want | outside or got_comps != want | outside or len(obs["nodes"]) != len(got_nodes):
        bad.append(("instances-not-exactly-0-to-k", {"ks": ks, "j": max(ks), "missing": sorted((want | outside) - got_nodes),
                                                       "unexpected": sorted(got_nodes - (want | outside)),
                                                       "concrete_missing": sorted((want | outside) - got_comps),
                                                       "concrete_unexpected": sorted(got_comps - (want | outside))}))
    producers_of = {}
    for a, b in obs["edges"]:
        producers_of.setdefault(b, set()).add(a)
        if a == b:
            bad.append(("component-depends-on-itself", {"ks": ks, "j": max(ks), "component": a}))
    all_placeholders = set()
    for l, lp in enumerate(loops):
        imp, j = lp["import"], ks[l]
        for c in lp["loop"]:
            for i in range(j + 1):
                name = cid(c["stage"] + imp, "%d#%s" % (i, c["name"]))
                if name not in obs["comps"]:
                    continue
                exp = expected_refs(lp, c, i)
                got = obs["comps"][name]
                if got["refs"] != exp:
                    bad.append(("wiring-references-of-instance", {"j": j, "loop": l, "instance": name, "expected": exp,
                                                                  "got": got["refs"]}))
                elif args_text(c, exp) and got["args"] != args_text(c, exp):
                    bad.append(("wiring-arguments-of-instance", {"j": j, "loop": l, "instance": name,
                                                                 "expected": args_text(c, exp), "got": got["args"]}))
                # dataflow edges: every component reference of the instance is an edge of the graph; an aggregate
                # reference to a looped sibling is an edge from each of its instances 0 … j
                for t in exp:
                    pr = ref_parse(t)
                    if pr.get("direct"):
                        continue
                    if pr["method"] in AGG:
                        want_p = {cid(pr["stage"], "%d#%s" % (ii, pr["producer"])) for ii in range(j + 1)}
                        if not want_p <= producers_of.get(name, set()):
                            bad.append(("wiring-edge-missing", {"j": j, "loop": l, "instance": name, "reference": t,
                                                                "producer": sorted(want_p - producers_of.get(name, set()))}))
                        continue
                    if cid(pr["stage"], pr["producer"]) not in producers_of.get(name, set()):
                        bad.append(("wiring-edge-missing", {"j": j, "loop": l, "instance": name,
                                                            "producer": cid(pr["stage"], pr["producer"])}))
        for c in lp["loop"]:
            p = cid(c["stage"] + imp, c["name"])
            all_placeholders.add(p)
            ph = obs["placeholders"].get(p)
            insts = [cid(c["stage"] + imp, "%d#%s" % (i, c["name"])) for i in range(j + 1)]
            if ph is None:
                bad.append(("placeholder-missing", {"j": j, "loop": l, "placeholder": p}))
                continue
            if ph["represents"] != sorted(insts) or ph["n_represents"] != len(insts):
                bad.append(("placeholder-represents-not-all-instances", {"j": j, "loop": l, "placeholder": p,
                                                                         "got": ph["represents"]}))
            if ph["latest"] != insts[-1] or ph["ref"] != insts[-1]:
                bad.append(("outside-reference-not-numerically-latest-instance",
                            {"j": j, "loop": l, "placeholder": p, "expected": insts[-1], "latest": ph["latest"],
                             "resolved": ph["ref"]}))
            if ph["loopref"] != insts:
                bad.append(("loopref-not-in-increasing-iteration-order",
                            {"j": j, "loop": l, "placeholder": p, "expected": insts, "got": ph["loopref"]}))
        cond = lp["cond"]
        want_cond = ref_text(R("%d#%s" % (j, cond["name"]), "output", stage=cond["stage"] + imp, file=cond["file"]))
        doc = obs["docs"][l]
        if doc["state"].get("currentIteration") != j or doc["state"].get("currentCondition") != want_cond:
            bad.append(("current-condition-not-iteration-k", {"j": j, "loop": l, "expected": want_cond, "state": doc["state"]}))
        if "ctl_conditions" in obs:
            # the Controller's view of the loop's current condition: the component whose termination decides on the
            # next iteration of this document
            mine = sorted(k for k, v in obs["ctl_conditions"].items() if v == dw_name(case, l))
            if mine != [cid(cond["stage"] + imp, "%d#%s" % (j, cond["name"]))]:
                bad.append(("controller-condition-not-iteration-k", {"j": j, "loop": l, "registered": mine}))
        # stage indices of the stored bindings do not drift
        if doc["loopBindings"] != {b["key"]: ref_text(b["ref"]) for b in lp["loopBindings"]}:
            bad.append(("stored-loopbindings-drift", {"j": j, "loop": l, "got": doc["loopBindings"]}))
        if doc["bindings"] != {b["key"]: ref_text(b["ref"]) for b in lp["bindings"]}:
            bad.append(("stored-bindings-drift", {"j": j, "loop": l, "got": doc["bindings"]}))
    if set(obs["placeholders"]) - all_placeholders:
        bad.append(("placeholder-unexpected", {"ks": ks, "got": sorted(set(obs["placeholders"]) - all_placeholders)}))
    for c in case["consumers"]:
        got = dict((a, b) for a, b in obs["consumers"].get(c["name"], []))
        for r in c["refs"]:
            l, tgt = [(l, t) for l, lp in enumerate(loops) for t in lp["loop"]
                      if (t["stage"] + lp["import"], t["name"]) == (r["stage"], r["producer"])][0]
            j = ks[l]
            insts = [cid(r["stage"], "%d#%s" % (i, tgt["name"])) for i in range(j + 1)]
            res = got.get(ref_text(r))
            # wiring of the consumer: it depends on (has an edge from) what its reference denotes — the newest
            # instance resp. all instances — and on the producer of the loop's current condition, the one of
            # iteration j (the loop is not over before that component decided)
            me = cid(c["stage"], c["name"])
            mine = producers_of.get(me, set())
            lpc = loops[l]["cond"]
            cond_j = cid(lpc["stage"] + loops[l]["import"], "%d#%s" % (j, lpc["name"]))
            if r["method"] in AGG:
                if not set(insts) <= mine:
                    bad.append(("aggregate-consumer-not-wired-to-all-instances",
                                {"j": j, "loop": l, "consumer": c["name"], "reference": ref_text(r),
                                 "missing": sorted(set(insts) - mine), "producers": sorted(mine)}))
            elif insts[-1] not in mine:
                bad.append(("outside-consumer-not-wired-to-numerically-latest-instance",
                            {"j": j, "loop": l, "consumer": c["name"], "reference": ref_text(r),
                             "expected": insts[-1], "producers": sorted(mine)}))
            if cond_j not in mine:
                bad.append(("outside-consumer-not-wired-to-condition-of-iteration-k",
                            {"j": j, "loop": l, "consumer": c["name"], "reference": ref_text(r),
                             "expected": cond_j, "producers": sorted(mine)}))
            if r["method"] in AGG:
                want_file = r["file"] or ("out.stdout" if r["method"] == "loopoutput" else "")
                if res != [[x, want_file] for x in insts]:
                    bad.append(("loopref-not-in-increasing-iteration-order",
                                {"j": j, "loop": l, "consumer": c["name"], "reference": ref_text(r), "got": res}))
            elif r["method"] != "output":
                if res != [[insts[-1], r["file"]]]:
                    bad.append(("outside-reference-not-numerically-latest-instance",
                                {"j": j, "loop": l, "consumer": c["name"], "reference": ref_text(r), "got": res,
                                 "expected": insts[-1]}))
            else:
                if not (isinstance(res, list) and len(res) == 1 and res[0][0] == insts[-1]):
                    bad.append(("outside-reference-not-numerically-latest-instance",
                                {"j": j, "loop": l, "consumer": c["name"], "reference": ref_text(r), "got": res,
                                 "expected": insts[-1]}))
    return bad


def oracle_run(case, out):
    """[(slug, detail)]: first failure of every clause over all observations of the run"""
    case = norm(case)
    res, seen = [], set()
    nl = len(case["loops"])
    at = out.get("at") or list(range(len(out["steps"])))
    for i, obs in enumerate(out["steps"]):
        n = at[i]
        ks = counts(case["ops"][:n], nl)
        found = [(slug, detail) for slug, detail in oracle_step(case, ks, obs)]
        if "reloaded" in obs:
            # the instance loaded anew from disk is the same workflow: every clause holds for it as well
            found += [(slug, dict(detail, observed="instance reloaded from disk"))
                      for slug, detail in oracle_step(case, ks, obs["reloaded"])]
        for slug, detail in found:
            if slug not in seen:      # first observation at which this clause fails
                seen.add(slug)
                detail = dict(detail, after_ops=n, last_op=case["ops"][n - 1] if n else None)
                res.append((slug, detail))
    return res


_INST = re.compile(r"^(\d+)#(.+)$")


def disk_value(case, ks, states, text):
    """what the reference `text` on a command line stands for, given the state of the disk, according to the property
    text: (value, complete) — `complete` False: an :output/:loopoutput reference whose files are not all there (the value
    is then the empty string: `resolveArguments` substitutes nothing for outputs that are not there yet — never a
    part of the list, never the output of another iteration); None: not a reference this oracle knows"""
    pr = ref_parse(text)
    if pr.get("unparsed") or pr.get("direct") or pr["method"] not in ARG_METHODS:
        return None
    known = placeholder_ids(case)
    sfx = "/" + pr["file"] if pr["file"] else ""

    def path(name):
        return "$I/stages/stage%d/%s%s" % (pr["stage"], name, sfx)
    p = (pr["stage"], pr["producer"])
    m = pr["method"]
    if p in known:
        st = states.get(p)
        k = ks[known[p]]
        if st is None:
            return None
        if m == "loopref":
            return " ".join(path("%d#%s" % (i, p[1])) for i in range(k + 1)), True
        if m == "ref":
            return path("%d#%s" % (k, p[1])), True
        if m == "output":
            return (st[k], True) if isinstance(st[k], str) else ("", False)
        if all(isinstance(x, str) for x in st):
            return " ".join(st), True
        return "", False
    im = _INST.match(pr["producer"])
    if im and (pr["stage"], im.group(2)) in known:
        st = states.get((pr["stage"], im.group(2)))
        i = int(im.group(1))
        if st is None or i >= len(st) or m in AGG:
            return None
        if m == "ref":
            return path(pr["producer"]), True
        return (st[i], True) if isinstance(st[i], str) else ("", False)
    if any((c["stage"], c["name"]) == p for c in case["sources"] + case["consumers"]):
        # a component outside the loops: nothing ran, it has no output
        return (path(p[1]), True) if m == "ref" else (("", False) if m == "output" else None)
    return None


def disk_class(st):
    """input class of the per-instance states of one placeholder"""
    n = len(st)
    miss = [i for i, x in enumerate(st) if not isinstance(x, str)]
    tag = "k>=10:" if n > 10 else "k=0:" if n == 1 else "k=1-9:"
    if not miss:
        return tag + ("all-present-one-empty" if "" in st else "all-present")
    if len(miss) == n:
        return tag + "none-present"
    where = sorted({"first" if i == 0 else "last" if i == n - 1 else "middle" for i in miss})
    return tag + "missing-" + "+".join(where) + (":directory" if any(st[i] is False for i in miss) else "")


def oracle_disk(case, ks, states, obs):
    """[(slug, detail)]: the clauses `aggregate loop references list all instances in increasing iteration order` and
    `a reference from outside resolves to the instance with the numerically highest iteration`, restated on what the
    real resolve()/resolveArguments() returned while the disk was in state `states`"""
    bad = []
    for (stage, name), st in sorted(states.items()):
        p = cid(stage, name)
        e = obs["placeholders"].get(p)
        if e is None:
            continue
        k = len(st) - 1
        insts = [cid(stage, "%d#%s" % (i, name)) for i in range(k + 1)]
        absent = [insts[i] for i in range(k + 1) if not isinstance(st[i], str)]
        for f in DISK_VARIANTS:
            sfx = "/" + f if f else ""
            r = e["loopoutput" + sfx]
            info = {"j": k, "placeholder": p, "reference": "%s%s:loopoutput" % (p, sfx), "instances": k + 1,
                    "instances_without_the_file": absent}
            if "ok" in r:
                # a value: exactly one entry per instance 0 … k, entry i = the output of iteration i
                if absent or r["ok"] != st:
                    bad.append(("loopoutput-does-not-list-every-instance-in-iteration-order",
                                dict(info, entries=len(r["ok"]), got=r["ok"], outputs_on_disk=st)))
            elif not absent:
                bad.append(("loopoutput-not-resolved-although-every-instance-has-its-output", dict(info, got=r)))
            r = e["loopref" + sfx]
            if r.get("ok") != [[x, f] for x in insts]:
                bad.append(("loopref-not-in-increasing-iteration-order",
                            {"j": k, "placeholder": p, "reference": "%s%s:loopref" % (p, sfx), "got": r,
                             "outputs_on_disk": st}))
            r = e["output" + sfx]
            info = {"j": k, "placeholder": p, "reference": "%s%s:output" % (p, sfx), "expected": insts[-1],
                    "outputs_on_disk": st}
            if "ok" in r:
                # the output of the numerically highest instance — if that is not there, no other will do
                if not isinstance(st[k], str) or r["ok"] != st[k]:
                    bad.append(("outside-reference-not-numerically-latest-instance", dict(info, got=r)))
            elif isinstance(st[k], str):
                bad.append(("outside-reference-not-numerically-latest-instance", dict(info, got=r)))
            r = e["ref" + sfx]
            if r.get("ok") != [[insts[-1], f]]:
                bad.append(("outside-reference-not-numerically-latest-instance",
                            {"j": k, "placeholder": p, "reference": "%s%s:ref" % (p, sfx), "got": r,
                             "expected": insts[-1]}))
    for node, (arg_texts, all_texts) in sorted(cmdline_nodes(case, ks).items()):
        got = obs["cmdlines"].get(node)
        if got is None:
            continue
        vals = [disk_value(case, ks, states, t) for t in arg_texts]
        declared = [(t, disk_value(case, ks, states, t)) for t in all_texts
                    if not ref_parse(t).get("unparsed") and ref_parse(t)["method"] == "loopoutput"]
        if any(v is None for v in vals) or any(v is None for _, v in declared):
            continue
        want = " ".join(v for v, _ in vals) if arg_texts else "hello"
        incomplete = [t for t, v in declared if not v[1]]
        for mode in ("strict", "lenient"):
            r = got[mode]
            if "ok" in r:
                if r["ok"] != want:
                    bad.append(("command-line-reference-not-the-denoted-instances",
                                {"j": max(ks), "component": node, "resolveArguments": mode, "arguments": " ".join(arg_texts),
                                 "expected": want, "got": r["ok"],
                                 "outputs_on_disk": {cid(*q): v for q, v in sorted(states.items())}}))
            elif mode == "lenient" or not incomplete:
                # refusing is fine when an aggregate cannot be completed; otherwise the command line must be built
                bad.append(("command-line-not-built-although-every-output-is-there",
                            {"j": max(ks), "component": node, "resolveArguments": mode, "got": r}))
    return bad


def canon_impl_disk(obs):
    phs = {}
    for p, e in obs["placeholders"].items():
        def ids(r):
            return {"ok": [x[0] for x in r["ok"]]} if "ok" in r else r
        phs[p] = {"loopoutput": [e["loopoutput" + ("/" + f if f else "")] for f in DISK_VARIANTS],
                  "output": [e["output" + ("/" + f if f else "")] for f in DISK_VARIANTS],
                  "order": [ids(e["loopref" + ("/" + f if f else "")]) for f in DISK_VARIANTS],
                  "latest": [ids(e["ref" + ("/" + f if f else "")]) for f in DISK_VARIANTS],
                  # StageReference: nothing is returned on success
                  "stageLoopoutput": [("ok" if "ok" in e["stage:loopoutput" + ("/" + f if f else "")] else
                                       e["stage:loopoutput" + ("/" + f if f else "")]) for f in DISK_VARIANTS],
                  "stageLoopref": [("ok" if "ok" in e["stage:loopref" + ("/" + f if f else "")] else
                                    e["stage:loopref" + ("/" + f if f else "")]) for f in DISK_VARIANTS]}
    return phs


def canon_model_disk(md):
    phs = {}
    for a in md["placeholders"]:
        lo = a["loopoutput"]
        phs[a["id"]] = {"loopoutput": [lo, lo], "output": [a["output"], a["output"]],
                        "order": [{"ok": a["order"]}] * 2, "latest": [{"ok": [a["latest"]]}] * 2,
                        "stageLoopoutput": ["ok" if "ok" in lo else lo] * 2,
                        "stageLoopref": ["ok" if "ok" in a["stageLooprefDir"] else a["stageLooprefDir"],
                                         "ok" if "ok" in a["stageLooprefFile"] else a["stageLooprefFile"]]}
    return phs


def model_cmdlines(case, md):
    """the command lines of the outside consumers composed from the model's answers: Loop.argLoopOutputM /
    Loop.argOutputM for output references, Loop.loopRefOrderM / Loop.resolveProducerM for path references"""
    ans = {a["id"]: a for a in md["placeholders"]}
    out = {}
    for c in case["consumers"]:
        strict, lenient, ok = [], [], True
        refs = [c["refs"][i] for i in arg_indices(c)]
        fails = False
        for r in c["refs"]:
            a = ans.get(cid(r["stage"], r["producer"]))
            if a is None:
                ok = False
            elif r["method"] == "loopoutput" and a["argLoopoutput"] == "inconsistent":
                fails = True
        if not ok:
            continue
        for r in refs:
            a = ans[cid(r["stage"], r["producer"])]
            sfx = "/" + r["file"] if r["file"] else ""

            def path(x):
                st, nm = x.split(".", 1)
                return "$I/stages/%s/%s%s" % (st, nm, sfx)
            if r["method"] == "loopoutput":
                v = a["argLoopoutput"]
                strict.append(" ".join(v["full"]) if isinstance(v, dict) else "")
            elif r["method"] == "output":
                strict.append(a["argOutput"])
            elif r["method"] == "loopref":
                strict.append(" ".join(path(x) for x in a["order"]))
            else:
                strict.append(path(a["latest"]))
        line = " ".join(strict) if refs else "hello"
        out[cid(c["stage"], c["name"])] = {"strict": {"raised": "InternalInconsistencyError"} if fails else {"ok": line},
                                          "lenient": {"ok": line}}
    return out


# ----------------------------------------------------------------------------------------
# comparison with the model
# ----------------------------------------------------------------------------------------

def canon_impl_step(obs):
    comps = {}
    for name, d in obs["comps"].items():
        args = d["args"] if isinstance(d["args"], str) else ""
        comps[name] = {"refs": [ref_parse(t) for t in d["refs"]],
                       "args": [] if args == "hello" else [ref_parse(t) for t in args.split()]}
    ph = {p: {"latest": d["latest"], "represents": d["represents"], "ref": d["ref"], "loopref": d["loopref"],
              "maplatest": d["maplatest"]}
          for p, d in obs["placeholders"].items()}
    return {"comps": comps, "nodes": obs["nodes"], "edges": sorted(obs["edges"]), "placeholders": ph,
            "docs": [{"iter": d["state"].get("currentIteration"), "cond": d["state"].get("currentCondition")}
                     for d in obs["docs"]],
            "ctlConditions": sorted(obs["ctl_conditions"]) if "ctl_conditions" in obs else None,
            "ctlPreds": ({p: d["producers"] for p, d in obs["ctl_preds"].items()} if "ctl_preds" in obs else None)}


def canon_model_step(ms, obs):
    comps = {c["id"]: {"refs": c["refs"], "args": c["args"]} for c in ms["comps"]}
    ph = {p["id"]: {"latest": p["latest"], "represents": sorted(p["represents"]), "ref": p["ref"], "loopref": p["loopref"],
                    "maplatest": p["maplatest"]}
          for p in ms["placeholders"]}
    docs = []
    for d in ms["docs"]:
        cond = None
        if d["cond"] is not None:
            st, name = d["cond"].split(".", 1)
            cond = "%s.%s%s:output" % (st, name, "/" + d["condFile"] if d["condFile"] else "")
        docs.append({"iter": d["iter"], "cond": cond})
    return {"comps": comps, "nodes": sorted(comps), "edges": sorted(set(map(tuple, ms["edges"]))), "placeholders": ph,
            "docs": docs,
            "ctlConditions": sorted(x for x in ms["ctlConditions"] if x is not None) if "ctl_conditions" in obs else None,
            "ctlPreds": ({p["id"]: sorted(p["preds"]) for p in ms["placeholders"]} if "ctl_preds" in obs else None)}


RELATIONS = [("components, their references and the reference occurrences of their arguments == Loop.runOps(...).comps", "comps"),
             ("graph nodes == ids of Loop.runOps(...).comps", "nodes"),
             ("graph edges == Loop.runOps(...).edges", "edges"),
             ("placeholders (represents as a set, latest, :ref producer, :loopref order, map_placeholder_id_to_iteration) == "
              "Loop.placeholdersM/resolveProducerM/loopRefOrderM/mapPlaceholderLatest", "placeholders"),
             ("per document currentIteration, currentCondition == Loop.curIter, Loop.currentCondition", "docs"),
             ("Controller.comp_condition_to_dowhile (producers of the current conditions) == Loop.ctlConditions", "ctlConditions"),
             ("Controller._comp_get_active_predecessors(placeholder) (as a set, nothing done yet) == Loop.ctlPredecessors",
              "ctlPreds")]


def log_class(cfg):
    """does the configuration enable the verbose statements (numeric level <= 13) of the graph loggers?"""
    if cfg is None:
        return "disabled"
    def eff(name):
        while name:
            lvl = cfg.get("loggers", {}).get(name)
            if lvl:
                return lvl
            name = name.rpartition(".")[0]
        return cfg.get("root") if cfg.get("root") is not None else logging.WARNING
    lvl = eff("graph.workflowgraph")
    return "graph<=13" if lvl <= 13 else "graph<=19" if lvl <= 19 else "graph>=20"


def shares_names(case):
    names = [c["name"] for lp in case["loops"] for c in lp["loop"]]
    return len(set(names)) < len(names)


def check_cases(ctx, cases):
    tmp = tempfile.mkdtemp(prefix="c05-")
    try:
        known = known_ids()
        num = "c05_string_sorted_iteration_numbers" not in known
        if known:
            ctx.notes.append("known findings recorded for C05: %s (model compared with num=%s)" % (sorted(known), num))
        cases = [(kind, norm(c)) for kind, c in cases]
        mouts = ctx.model([model_request(c, num=num) for _, c in cases])
        child_outs = run_children([(idx, c) for idx, (_, c) in enumerate(cases) if c.get("hashseed") is not None])
        for idx, (kind, case) in enumerate(cases):
            out = child_outs[idx] if idx in child_outs else impl_run(case, tmp)
            if case.get("again_after") and idx not in child_outs:
                # process-level state: the same case once more in this process, after other cases that use the same
                # component / document / placeholder names in other roles — the answer must be the same
                for other in case["again_after"]:
                    impl_run(norm(other), tmp)
                out2 = impl_run(case, tmp)
                if out_digest(out2) != out_digest(out):
                    first = [i for i, (a, b) in enumerate(zip(out["steps"], out2["steps"])) if a != b]
                    ctx.fail("result-depends-on-earlier-cases", case,
                             {"first_run_error": out.get("error"), "second_run_error": out2.get("error"),
                              "observations": [len(out["steps"]), len(out2["steps"])],
                              "first_differing_observation": first[:1],
                              "differing_keys": sorted(k for k in out["steps"][first[0]]
                                                       if out["steps"][first[0]][k] != out2["steps"][first[0]].get(k)) if first else []})
                ctx.tag("run-again-after-other-cases")
            nl = len(case["loops"])
            ks = counts(case["ops"], nl)
            kmax = max(ks)
            reads = [op[1] for op in case["ops"] if op[0] == "read"]
            nontrivial = sum(ks) >= 1
            tags = ["kind:" + kind, "documents:%d" % nl, "start-stage:%d" % case.get("start", 0),
                    "kmax:%s" % ("0" if kmax == 0 else "1-9" if kmax <= 9 else "10-12" if kmax <= 12 else "13-25" if kmax <= 25 else ">=100"),
                    "hash-seed:%s" % ("other (child process)" if case.get("hashseed") is not None else "own"),
                    "controller:%s" % ("yes" if case.get("ctl") else "no"), "reads:%d" % min(len(reads), 5),
                    "interleaving:%s" % case.get("mode", "?")]
            tags += ["read:" + r for r in sorted(set(reads))]
            if nl > 1:
                # was a document listed earlier ever behind a document listed later when an iteration was instantiated?
                behind = ahead = False
                for n, op in enumerate(case["ops"]):
                    if op[0] == "adv":
                        kk = counts(case["ops"][:n + 1], nl)
                        behind = behind or any(kk[a] < kk[b] for a in range(nl) for b in range(a + 1, nl))
                        ahead = ahead or any(kk[a] > kk[b] for a in range(nl) for b in range(a + 1, nl))
                if behind:
                    tags.append("earlier-document-behind-later")
                if ahead:
                    tags.append("earlier-document-ahead-of-later")
            if case["ops"] and case["ops"][-1][0] == "read":
                tags.append("read-after-last-iteration")
            for lp in case["loops"]:
                tags.append("import-stage:%d" % lp["import"])
                tags.append("looped-components:%d" % len(lp["loop"]))
                tags.append("loopBindings:%d" % len(lp["loopBindings"]))
            if any(r["direct"] for lp in case["loops"] for c in lp["loop"] for r in c["refs"]):
                tags.append("has-direct-reference")
            if any(r["stage"] is None and not r["direct"] and r["producer"] not in {b["key"] for b in lp["bindings"]}
                   for lp in case["loops"] for c in lp["loop"] for r in c["refs"]):
                tags.append("has-relative-internal-reference")
            if any(c["stage"] > 0 for lp in case["loops"] for c in lp["loop"]):
                tags.append("template-stage>0")
            tags.append("logging:" + log_class(case.get("log")))
            for lp in case["loops"]:
                keys_ = {b["key"] for b in lp["bindings"]}
                for c in lp["loop"]:
                    for r in c["refs"]:
                        if r["method"] in AGG and not r["direct"] and r["producer"] not in keys_:
                            is_cond = (c["stage"], c["name"]) == (lp["cond"]["stage"], lp["cond"]["name"])
                            tags.append("aggregate-inside-loop:" + ("by-condition" if is_cond else "by-other"))
                            tgt = ((r["stage"] if r["stage"] is not None else c["stage"]) + lp["import"], r["producer"])
                            if any((q["stage"], q["producer"]) == tgt for o in case["consumers"] for q in o["refs"]):
                                tags.append("aggregated-sibling-also-read-from-outside")
            ctx.case(case, nontrivial=nontrivial, tags=tags)
            if "error" in out:
                ctx.tag("impl:" + out["error"])
                ctx.fail("real-code-raises-" + out["error"].replace(":", "-"), case,
                         {"msg": out.get("msg"), "steps_done": len(out["steps"]),
                          "j": max(counts(case["ops"][:len(out["steps"])], nl))})
            else:
                ctx.tag("impl:ok")
            ctx.tag("operations-executed", max(0, len(out["steps"]) - 1))
            for slug, detail in oracle_run(case, out):
                ctx.fail(slug, case, detail)
                ctx.tag("oracle:" + slug)
            # the references resolved against the disk (`files` operations)
            seen_disk = set()
            for d in out.get("disk") or []:
                n_at = d["at"]
                ks_at = counts(case["ops"][:n_at], nl)
                states = norm_spec(case, ks_at, case["ops"][n_at - 1][1])
                ctx.tag("files-operation:" + ("reloaded-instance" if "reload" in case["ops"][n_at - 1][2:] else "live-graph"))
                for q, st in states.items():
                    ctx.tag("disk:" + disk_class(st))
                    for m in sorted({r["method"] for c in case["consumers"] for r in c["refs"]
                                     if (r["stage"], r["producer"]) == q and r["method"] in ("loopoutput", "loopref", "output")}):
                        ctx.tag("disk-consumer:%s:%s" % (m, "all-present" if all(isinstance(x, str) for x in st) else
                                                        "some-or-all-missing"))
                for slug, detail in oracle_disk_run(case, dict(out, disk=[d])):
                    if slug not in seen_disk:
                        seen_disk.add(slug)
                        ctx.fail(slug, case, detail)
                        ctx.tag("oracle:" + slug)
                if mouts is not None:
                    md = [x for x in mouts[idx].get("disk", []) if x["at"] == n_at]
                    if md:
                        ctx.compare("DataReference.resolve / StageReference of <placeholder>[/file]:loopoutput|loopref|output|ref "
                                    "against the state of the disk == Loop.loopOutputM / stageLoopRefM / resolveOutputM / "
                                    "loopRefOrderM / resolveProducerM", {"case": case, "after_ops": n_at},
                                    canon_model_disk(md[0]), canon_impl_disk(d["obs"]))
                        mc = model_cmdlines(case, md[0])
                        ctx.compare("ComponentSpecification.resolveArguments of the outside consumers (strict and "
                                    "ignoreErrors) against the state of the disk == composition of Loop.argLoopOutputM / "
                                    "argOutputM / loopRefOrderM / resolveProducerM", {"case": case, "after_ops": n_at},
                                    mc, {k_: v_ for k_, v_ in d["obs"]["cmdlines"].items() if k_ in mc})
            shared_names = shares_names(case)
            if shared_names:
                ctx.tag("looped-components-share-a-name")
            if mouts is not None:
                msteps = mouts[idx]["steps"]
                first_bad = None
                for j, obs in enumerate(out["steps"]):
                    ci, cm = canon_impl_step(obs), canon_model_step(msteps[j], obs)
                    if shared_names:      # map_placeholder_id_to_iteration matches on the name only: set-order dependent
                        for side in (ci, cm):
                            for e in side["placeholders"].values():
                                e["maplatest"] = None
                    if "c05_argument_text_rewrite" in known and has_repeated_or_overlapping_args(case):
                        for side in (ci, cm):
                            for e in side["comps"].values():
                                e["args"] = None
                    if case.get("start", 0):      # components of skipped stages are done: not the model's `nothing done yet`
                        ci["ctlPreds"] = cm["ctlPreds"] = None
                    if "c05_condition_namesake" in known and has_condition_namesake(case):
                        ci["docs"] = cm["docs"] = None
                        ci["edges"] = cm["edges"] = None     # the condition is a predecessor of the outside consumers
                        ci["ctlConditions"] = cm["ctlConditions"] = None
                        ci["ctlPreds"] = cm["ctlPreds"] = None
                    for rel, key in RELATIONS:
                        if ci[key] is None and cm[key] is None:
                            continue
                        ok = ctx.compare(rel, {"case": case, "after_ops": j} if first_bad is None else {"after_ops": j},
                                         {key: cm[key]}, {key: ci[key]}) if first_bad is None else True
                        if not ok and first_bad is None:
                            first_bad = (j, key)
                    if "reloaded" in obs and first_bad is None:
                        # the instance loaded anew from what is stored on disk: the same components, placeholders and
                        # document states; its edges are those of ONE graph construction over the whole workflow
                        ri = canon_impl_step(obs["reloaded"])
                        rm = canon_model_step(msteps[j], obs["reloaded"])
                        rm["edges"] = sorted(set(map(tuple, msteps[j]["freshEdges"])))
                        ri["edges"] = sorted(set(map(tuple, ri["edges"])))
                        if shared_names:
                            for side in (ri, rm):
                                for e in side["placeholders"].values():
                                    e["maplatest"] = None
                        for key in ("comps", "nodes", "edges", "placeholders", "docs"):
                            ok = ctx.compare("instance reloaded from disk (Experiment.experimentFromInstance): %s == "
                                             "Loop.runOps(...) / Loop.edgesOfM of its components" % key,
                                             {"case": case, "after_ops": j}, {key: rm[key]}, {key: ri[key]})
                            if not ok and first_bad is None:
                                first_bad = (j, key)
                    if first_bad is not None:
                        break
                if first_bad is not None and ctx.driver is not None:
                    # diagnostic: does the implementation follow the string-keyed (unrepaired) model instead?
                    old = ctx.model([model_request(case, num=False)])[0]["steps"]
                    same = not shared_names and all(canon_impl_step(o) == canon_model_step(old[j], o)
                                                    for j, o in enumerate(out["steps"]))
                    ctx.tag("impl==string-keyed-model(Old)" if same else "impl!=string-keyed-model(Old)")
    finally:
        shutil.rmtree(tmp, ignore_errors=True)


# ----------------------------------------------------------------------------------------
# shrinking
# ----------------------------------------------------------------------------------------

def oracle_disk_run(case, out):
    """[(slug, detail)] of the `files` operations of a run: first failure of every clause"""
    res, seen = [], set()
    nl = len(case["loops"])
    for d in out.get("disk") or []:
        ks_at = counts(case["ops"][:d["at"]], nl)
        states = norm_spec(case, ks_at, case["ops"][d["at"] - 1][1])
        for slug, detail in oracle_disk(case, ks_at, states, d["obs"]):
            if slug not in seen:
                seen.add(slug)
                res.append((slug, dict(detail, after_ops=d["at"])))
    return res


def fails_with(what, case, tmp):
    out = impl_run(case, tmp)
    if "error" in out and what.startswith("real-code-raises-"):
        return what == "real-code-raises-" + out["error"].replace(":", "-")
    return any(s == what for s, _ in oracle_run(case, out) + oracle_disk_run(case, out))


def drop_component(case, l, idx):
    c2 = copy.deepcopy(case)
    lp = c2["loops"][l]
    gone = lp["loop"][idx]
    name = gone["name"]
    gid = (gone["stage"], name)
    if gid == (lp["cond"]["stage"], lp["cond"]["name"]) or len(lp["loop"]) <= 1:
        return None
    del lp["loop"][idx]
    for c in lp["loop"]:
        keep = [i for i, r in enumerate(c["refs"]) if r["direct"] or
                ((r["stage"] if r["stage"] is not None else c["stage"]), r["producer"]) != gid]
        if "args" in c:
            c["args"] = [keep.index(i) for i in c["args"] if i in keep]
        c["refs"] = [c["refs"][i] for i in keep]
    lp["loopBindings"] = [b for b in lp["loopBindings"] if ((b["ref"]["stage"] or 0), b["ref"]["producer"]) != gid]
    for c in c2["consumers"]:
        c["refs"] = [r for r in c["refs"] if (r["stage"], r["producer"]) != (gid[0] + lp["import"], name)]
    c2["consumers"] = [c for c in c2["consumers"] if c["refs"]]
    return c2 if c2["consumers"] else None


def drop_loop(case, l):
    """the case without document l (only the last document can go without shifting stages: a package needs
    contiguous stage indices, so the sources of the dropped document stay)"""
    if len(case["loops"]) <= 1:
        return None
    c2 = copy.deepcopy(case)
    lp = c2["loops"][l]
    gone = {(c["stage"] + lp["import"], c["name"]) for c in lp["loop"]}
    del c2["loops"][l]
    c2["ops"] = [[op[0], op[1] - 1 if op[1] > l else op[1]] if op[0] == "adv" else op
                 for op in c2["ops"] if not (op[0] == "adv" and op[1] == l)]
    for c in c2["consumers"]:
        c["refs"] = [r for r in c["refs"] if (r["stage"], r["producer"]) not in gone]
    c2["consumers"] = [c for c in c2["consumers"] if c["refs"]]
    if not c2["consumers"]:
        return None
    used = {c["stage"] for c in c2["sources"] + c2["consumers"]} | {c["stage"] + q["import"] for q in c2["loops"] for c in q["loop"]}
    for st in range(max(used) + 1):
        if st not in used:
            c2["sources"].append({"stage": st, "name": "fill%d" % st, "refs": []})
    return c2


def shrink(what, case):
    case = norm(case)
    tmp = tempfile.mkdtemp(prefix="c05-shrink-")
    budget = [60]       # runs of the real code

    def still(c2):
        if c2 is None or budget[0] <= 0:
            return False
        budget[0] -= 1
        try:
            return fails_with(what, c2, tmp)
        except Exception:
            return False
    try:
        best = case
        # which namesake is taken for the condition depends on the set order of the process: keep enough iterations
        # for the replay to hit it whatever the hash seed
        nstart = 6 if what == "current-condition-not-iteration-k" else 0
        for n in range(nstart, len(case["ops"])):      # shortest prefix of the operations with the same failure
            c2 = dict(best, ops=case["ops"][:n])
            if still(c2):
                best = c2
                break
        changed = True
        while changed and budget[0] > 0:
            changed = False
            for l in range(len(best["loops"])):
                c2 = drop_loop(best, l)
                if still(c2):
                    best, changed = c2, True
                    break
            if changed:
                continue
            for i in range(len(best["ops"]) - 1, -1, -1):      # single operations, reads first
                if best["ops"][i][0] == "read" or what != "current-condition-not-iteration-k":
                    c2 = dict(best, ops=best["ops"][:i] + best["ops"][i + 1:])
                    if still(c2):
                        best, changed = c2, True
                        break
            if changed:
                continue
            for l in range(len(best["loops"])):
                for ci in range(len(best["loops"][l]["loop"])):
                    c2 = drop_component(best, l, ci)
                    if still(c2):
                        best, changed = c2, True
                        break
                if changed:
                    break
            if changed:
                continue
            for i in range(len(best["consumers"])):
                if len(best["consumers"]) <= 1:
                    break
                c2 = copy.deepcopy(best)
                del c2["consumers"][i]
                if still(c2):
                    best, changed = c2, True
                    break
        if best is not case:
            best = dict(best, note="shrunk input; the recorded detail belongs to the unshrunk case - replay this file "
                                   "to see the detail for this input")
        return best
    finally:
        shutil.rmtree(tmp, ignore_errors=True)


def classify_string_sorted_iterations(what, case, detail):
    """known-finding classifier (only used if the defect is recorded instead of fixed): the failure is the string-keyed
    sort of iteration numbers: the clause is `latest`/loopref order and it fails at an iteration >= 10"""
    return (what in ("outside-reference-not-numerically-latest-instance", "loopref-not-in-increasing-iteration-order")
            and isinstance(detail, dict) and detail.get("j", 0) >= 10)


def has_repeated_or_overlapping_args(case):
    """some looped component's command line repeats a reference, or uses a binding together with the relative spelling
    of a looped component of its own stage with the same method (the spelling is then a suffix of the substituted text)"""
    for lp in norm(case)["loops"]:
        keys = {b["key"] for b in lp["bindings"]}
        for c in lp["loop"]:
            idx = arg_indices(c)
            if len(set(idx)) < len(idx):
                return True
            rel = [r for r in c["refs"] if not r["direct"] and r["stage"] is None and r["producer"] not in keys]
            via = [r for r in c["refs"] if r["producer"] in keys]
            if any(a["method"] == b["method"] for a in rel for b in via):
                return True
    return False


def classify_argument_text_rewrite(what, case, detail):
    return (what in ("wiring-arguments-of-instance", "real-code-raises-load-UndeclaredDataReferenceError",
                     "real-code-raises-iterate-UndeclaredDataReferenceError")
            and has_repeated_or_overlapping_args(case))


def has_condition_namesake(case):
    for lp in norm(case)["loops"]:
        cond = lp["cond"]
        if any(c["name"] == cond["name"] and c["stage"] != cond["stage"] for c in lp["loop"]):
            return True
    return False


def classify_condition_namesake(what, case, detail):
    """currentCondition names iteration j of a looped component that has the condition's name but another stage"""
    if what != "current-condition-not-iteration-k" or not has_condition_namesake(case) or not isinstance(detail, dict):
        return False
    lp = norm(case)["loops"][detail.get("loop", 0)]
    st = detail.get("state", {})
    got = ref_parse(st.get("currentCondition", ""))
    j = detail.get("j")
    return (st.get("currentIteration") == j and got.get("producer") == "%d#%s" % (j, lp["cond"]["name"])
            and any(c["name"] == lp["cond"]["name"] and c["stage"] + lp["import"] == got.get("stage")
                    for c in lp["loop"]))


CLASSIFIERS = {"c05_string_sorted_iteration_numbers": classify_string_sorted_iterations,
               "c05_argument_text_rewrite": classify_argument_text_rewrite,
               "c05_condition_namesake": classify_condition_namesake}


def known_ids():
    """classifiers named by `known` entries of known_findings.json: for a recorded (unrepaired) defect the comparison
    uses the unrepaired model (`num = false`) resp. skips the relation the defect breaks on the affected cases"""
    from harness import common
    try:
        return {e.get("classifier") for e in common.load_known("C05")}
    except Exception:
        return set()


# ----------------------------------------------------------------------------------------

def run(ctx):
    from harness import detsim
    detsim.install()          # before experiment.runtime is imported: fake engines, no threads
    ctx.rule = ("case = generated package + operation sequence.  Package: 1-3 DoWhile documents, each imported at stage "
                "0-2 with 1-3 looped components + a condition component at template stages 0-2, 1-3 input bindings to "
                "its own source components (types output/ref/copy, optional file names), loopBindings for a random "
                "subset of the used bindings, references between looped components spelled relative or "
                "template-absolute with methods ref/output/copy/link, optional direct data reference; documents may "
                "use the same component names in different stages (also the condition's); 1-2 outside consumers using "
                ":ref/:output/:copy, optionally one consumer of a looped component of every document, 1-2 using "
                ":loopref.  Operations: every document l instantiates k_l further iterations (quick: sum <= 14 with "
                "about a third of the cases at some k_l >= 10, thorough: sum <= 30, k_l <= 25), documents interleaved "
                "sequentially in document order, in reverse order or randomly (so that an earlier-listed document is "
                "behind / ahead of a later one); in 65% of the cases the iterations are instantiated by a real "
                "Controller (Controller._instantiate_next_dowhile_iteration) and 0-5 read operations (status report = "
                "dependency analysis of all nodes and placeholders, _comp_get_active_predecessors of the placeholders, "
                "placeholder states, scheduler dependency test, reference resolution) are inserted anywhere, often "
                "after the last iteration; with >= 2 documents some of these cases are restarts: the Controller is started at a "
                "later stage after the documents of the earlier stages did their iterations (their placeholders are "
                "marked FINISHED), the other documents iterate under it.  In 30% of the documents a looped component on "
                "which nothing in the loop depends (mostly the condition component) aggregates a looped sibling with "
                ":loopref/:loopoutput, and that sibling is usually also read from outside the loop.  Ambient setting: 55% "
                "of the cases run under a sampled logging configuration (root logger or the loggers graph / "
                "graph.workflowgraph / flowir / control.controller at levels 0,1,5,10,12-15,18-20,30; records go to a "
                "NullHandler) instead of disabled logging.  Read operation `reload`: the instance stored on disk is "
                "loaded anew (Experiment.experimentFromInstance) and observed like the live one.  A sample of the small "
                "cases is run again in child processes with other PYTHONHASHSEEDs, and again in the same process after "
                "other cases with the same names in other roles; thorough: 101 / 100 iterations observed at the end "
                "only.  70% of the generated cases additionally get 1-2 `files` operations anywhere in the sequence "
                "(mostly at the end) and an outside consumer of a :loopoutput reference (with or without a file path): "
                "for EVERY placeholder the state of the disk of each instance 0..k is drawn independently from a pattern "
                "(all present; none; first / one in the middle / last / the tenth / one random / two missing; all but the "
                "last or all but the first missing; independent per instance; one empty file), a missing output being "
                "either a missing file or a missing working directory; 12% of them resolve in the graph of the instance "
                "loaded anew; plus 7 fixed cases (k = 1,2,3,10,11).  The workflow is observed and compared after the load and after every "
                "operation.  non-trivial = at least one iteration instantiated; distinct by the canonical JSON of "
                "the case.")
    ctx.assumptions = [
        "names of generated components contain no '#', looped component ids (stage, name) are distinct within and across "
        "the documents, binding values are absolute references to components outside all loops (as in every DoWhile "
        "test of the repo)",
        "no replication inside the loop; nothing executes: the Controller is built with fake engines under "
        "harness/detsim.py and only asked to instantiate iterations and to report (no component is ever done, so every "
        "predecessor of a placeholder of a live document is 'active')",
        "restart cases (`start` > 0): every document lies entirely before the start stage (its iterations were "
        "instantiated before the Controller exists, its placeholders are then FINISHED) or entirely at/after it",
        ":loopoutput shares looped_reference_to_paths with :loopref; outside the `files` operations nothing ran, so its "
        "resolve() fails with the list of the missing per-instance files in aggregate order: that order is what is "
        "observed there for :loopoutput consumers",
        "`files` operations: the outputs are written by the harness (content v<iteration>_<name>, no blanks; an empty "
        "file is an output that is there), one state per instance for its stdout and its named files alike; a value "
        "returned by resolve() of :loopoutput must have exactly one entry per instance 0..k with entry i the content "
        "of iteration i, which is only possible when every instance has its file - otherwise resolve() must raise; "
        ":output of a placeholder must be the content of the file of instance k or raise, never an older one; on a "
        "command line built by resolveArguments an :output/:loopoutput reference whose files are not all there may "
        "only be replaced by the empty string (the code's documented `I assume that it will be generated` treatment "
        "of outputs at validation time) or the call may raise - never by a part of the list or another iteration's "
        "output; whether StageReference accepts a :loopref whose paths do not all exist is compared with the model "
        "(Loop.stageLoopRefM) but is not part of the oracle (the list it would hand on is still complete and ordered)",
        "aggregate references inside a loop are only given to looped components on which no other looped component "
        "depends (no reference to them, not the source of a loopBinding): for any other component the expansion "
        "`all instances + producer of the current condition` closes a dependency cycle in the code as it is",
        "an outside consumer's wiring is judged on the graph edges (the Controller derives readiness from them): it "
        "must have an edge from the instance(s) its reference denotes and from the producer of the condition of "
        "iteration k",
        "reference strings are parsed by the harness' own regular expression; the text-level parse/compile of references "
        "inside the real code is trusted here (property C09)"]
    ctx.trusted.append("C05: references modelled in parsed form; experiment_from_flowir / new_controller (tests/utils.py) "
                       "used to load the package and build the Controller; harness/detsim.py replaces engines, "
                       "thread pools and timers of the runtime")
    ctx.classifiers = CLASSIFIERS
    ctx.shrinker = shrink
    rng = ctx.rng
    quick = ctx.tier == "quick"
    cases = [("corpus:minimal-k10", copy.deepcopy(MINIMAL)), ("corpus:minimal-k3", dict(copy.deepcopy(MINIMAL), k=3)),
             ("corpus:minimal-k3-controller-reads",
              dict(norm(dict(copy.deepcopy(MINIMAL), k=3)), ctl=True,
                   ops=[["adv", 0], ["read", "status"], ["adv", 0], ["adv", 0], ["read", "preds"], ["read", "state"]])),
             ("corpus:condition-has-namesake-in-other-stage", copy.deepcopy(SAME_NAME)),
             ("corpus:repeated-and-overlapping-argument-references", copy.deepcopy(REPEATED_ARG)),
             ("corpus:two-documents-earlier-behind-later", copy.deepcopy(TWO_DOCUMENTS)),
             ("corpus:restart-two-documents", copy.deepcopy(RESTART_TWO_DOCUMENTS)),
             ("corpus:restart-two-documents-earlier-iterated",
              dict(copy.deepcopy(RESTART_TWO_DOCUMENTS),
                   ops=[["adv", 0], ["adv", 0], ["adv", 1], ["read", "state"], ["adv", 1], ["read", "preds"], ["read", "deps"]])),
             ("corpus:minimal-k3-verbose-logging", dict(norm(dict(copy.deepcopy(MINIMAL), k=3)), log={"root": 10, "loggers": {}})),
             ("corpus:minimal-k3-controller-graph-logger-13",
              dict(norm(dict(copy.deepcopy(MINIMAL), k=3)), ctl=True, log={"root": None, "loggers": {"graph.workflowgraph": 13}},
                   ops=[["adv", 0], ["read", "deps"], ["adv", 0], ["adv", 0], ["read", "preds"]])),
             ("corpus:condition-aggregates-sibling", copy.deepcopy(COND_AGGREGATES)),
             ("corpus:condition-aggregates-sibling-controller", dict(norm(copy.deepcopy(COND_AGGREGATES)), ctl=True)),
             ("corpus:two-documents-no-controller",
              dict(copy.deepcopy(TWO_DOCUMENTS), ctl=False, ops=[["adv", 1], ["adv", 0], ["adv", 1], ["adv", 1], ["read", "resolve"]]))]
    cdir = os.path.join(os.path.dirname(os.path.dirname(os.path.abspath(__file__))), "corpus", "C05")
    if os.path.isdir(cdir):
        import json
        for fn in sorted(os.listdir(cdir)):
            if fn.endswith(".json"):
                doc = json.load(open(os.path.join(cdir, fn)))
                cases.append(("corpus:" + fn, doc.get("input", doc)))
    if quick:
        ks = [0, 1, 2, 3, 5, 7, 9, 10, 10, 11, 12, 12]
        n, budget = 44, 14
    else:
        ks = [0, 1, 2, 4, 6, 9, 10, 11, 12, 13, 15, 19, 20, 21, 22, 25, 25]
        n, budget = 150, 30
    generated = [gen_case(rng, budget, ks) for _ in range(n)]
    # the state of the disk: most cases get 1-2 `files` operations (drawn from a generator of their own, after the
    # packages and operation sequences, so that those stay what they were)
    import random
    rng2 = random.Random(rng.getrandbits(64))
    for c in generated:
        if rng2.random() < 0.7:
            add_files(rng2, c)
    cases += [("corpus:" + name, c) for name, c in disk_corpus()]
    cases += [("generated", c) for c in generated]
    small = [c for c in generated if 1 <= sum(counts(c["ops"], len(c["loops"]))) <= 6]
    # (a) set-iteration order: a sample of the cases again in child processes with other hash seeds
    nchild, seeds = (6, 2) if quick else (10, 2)
    interesting = sorted(small, key=lambda c: -(2 * any(r["method"] in AGG for lp in c["loops"] for q in lp["loop"] for r in q["refs"])
                                                + shares_names(c)))
    for i in range(seeds):
        hs = (int(ctx.seed) + 1009 * (i + 1)) % 4294967295
        for c in interesting[:nchild]:
            cases.append(("generated-other-hash-seed", dict(copy.deepcopy(c), hashseed=hs)))
    # (b) process-level state: a case, other cases with the same names in other roles, the same case again
    nagain = 3 if quick else 8
    for i in range(min(nagain, len(small) // 3)):
        a, b, c = small[3 * i], small[3 * i + 1], small[3 * i + 2]
        cases.append(("generated-run-again-after-others", dict(copy.deepcopy(a), again_after=[b, c])))
    if not quick:
        # (c) three-digit iteration numbers; observed after the load and after the last operation only
        big = norm(dict(copy.deepcopy(MINIMAL), k=101))
        cases.append(("generated-k101", dict(big, sparse=True)))
        cases.append(("generated-k100-controller-reload",
                      dict(norm(dict(copy.deepcopy(COND_AGGREGATES), k=100)), sparse=True, ctl=True,
                           ops=[["adv", 0]] * 100 + [["read", "reload"]], log={"root": 13, "loggers": {}})))
    check_cases(ctx, cases)


def replay(ctx, doc):
    from harness import detsim
    detsim.install()
    ctx.classifiers = CLASSIFIERS
    case = doc.get("input")
    if case is None:
        case = doc["no_longer_checks"][-1]["input"]
    if "case" in case:
        case = case["case"]
    check_cases(ctx, [("replay", case)])


if __name__ == "__main__":
    import sys as _sys
    if len(_sys.argv) == 4 and _sys.argv[1] == "--child":
        child_main(_sys.argv[2], _sys.argv[3])
