"""Constants and tables of property C12, extracted from the /repo sources by `ast` on every run.

  model/codes.py            exitReasons, restartContexts, restartCodes (keys, in source order; key == value checked)
  runtime/control.py        Controller.__init__: self._max_resubmission_attempts
  runtime/engine.py         Engine.restart: default maxRestarts when workflowAttributes.maxRestarts is None
                            (with / without a named restartHookFile), the "unlimited" marker compared against,
                            the RestartContext -> RestartCode decision at the end of the method
  model/frontends/flowir.py the exit reasons the schema excludes from restartHookOn (`dont_restart_on`);
                            FlowIR.default_component_structure: the defaults of workflowAttributes.restartHookOn /
                            maxRestarts / restartHookFile (what the loader does with them is checked on the real
                            loader by the harness: Restart.load vs the policy the runtime sees)

Writes lean/St4sd/Gen/C12.lean.  Pin theorems in Props/C12.lean state what the property text fixes.
"""
from __future__ import annotations

import ast

from harness import genconst as G

TARGET = "C12"


def _dict_keys(tree, name):
    for node in tree.body:
        if isinstance(node, ast.Assign) and any(isinstance(t, ast.Name) and t.id == name for t in node.targets):
            d = ast.literal_eval(node.value)
            for k, v in d.items():
                if k != v:
                    raise ValueError("%s[%r] = %r (key and value differ)" % (name, k, v))
            return list(d.keys())
    raise KeyError(name)


def _code_key(node):
    """'K' of an expression `experiment.model.codes.<table>['K']`."""
    if isinstance(node, ast.Subscript):
        sl = node.slice
        if isinstance(sl, ast.Constant) and isinstance(sl.value, str):
            return sl.value
    raise ValueError("not a codes[...] subscript: %s" % ast.dump(node)[:200])


def _int_of(node):
    v = ast.literal_eval(node)
    if not isinstance(v, int) or isinstance(v, bool):
        raise ValueError("not an int literal")
    return v


def _assigned(stmts, name):
    """value node of the (last) top-level `name = <expr>` in a statement list"""
    out = None
    for st in stmts:
        if isinstance(st, ast.Assign) and any(isinstance(t, ast.Name) and t.id == name for t in st.targets):
            out = st.value
    if out is None:
        raise KeyError(name)
    return out


def _is_name(node, name):
    return isinstance(node, ast.Name) and node.id == name


def engine_restart_constants(tree):
    fn = G.find_function(tree, "Engine", "restart")
    default_plain = default_hook = unlimited = None
    table = None
    for st in fn.body:
        # if max_restarts is None: if <restartHookFile>: max_restarts = A else: max_restarts = B
        if isinstance(st, ast.If) and isinstance(st.test, ast.Compare) and _is_name(st.test.left, "max_restarts") \
                and isinstance(st.test.ops[0], ast.Is):
            inner = st.body[0]
            if not (isinstance(inner, ast.If) and "restartHookFile" in ast.dump(inner.test)):
                raise ValueError("unexpected shape of the maxRestarts default")
            default_hook = _int_of(_assigned(inner.body, "max_restarts"))
            default_plain = _int_of(_assigned(inner.orelse, "max_restarts"))
        # if (max_restarts != U) and (self.restarts + 1 > max_restarts): return MaxAttemptsExceeded
        if isinstance(st, ast.If) and isinstance(st.test, ast.BoolOp) and isinstance(st.test.op, ast.And) \
                and "max_restarts" in ast.dump(st.test) and unlimited is None:
            first = st.test.values[0]
            if isinstance(first, ast.Compare) and _is_name(first.left, "max_restarts") and isinstance(first.ops[0], ast.NotEq):
                unlimited = _int_of(first.comparators[0])
                second = st.test.values[1]
                want = "Compare(left=BinOp(left=Attribute(value=Name(id='self', ctx=Load()), attr='restarts', ctx=Load()), " \
                       "op=Add(), right=Constant(value=1)), ops=[Gt()], comparators=[Name(id='max_restarts', ctx=Load())])"
                if ast.dump(second) != want:
                    raise ValueError("budget test changed: %s" % ast.dump(second))
                ret = st.body[-1]
                if not (isinstance(ret, ast.Return) and _code_key(ret.value) == "RestartMaxAttemptsExceeded"):
                    raise ValueError("budget test does not return RestartMaxAttemptsExceeded")
        # if restartContext in [..]: try: ...; restartCode = X  except: restartCode = Y  elif restartContext == C: ... else: ...
        if isinstance(st, ast.If) and isinstance(st.test, ast.Compare) and _is_name(st.test.left, "restartContext") \
                and isinstance(st.test.ops[0], ast.In) and any(isinstance(b, ast.Try) for b in st.body) \
                and "restartCode" in ast.dump(st):
            go = [_code_key(e) for e in st.test.comparators[0].elts]
            tr = [b for b in st.body if isinstance(b, ast.Try)][0]
            if not any(isinstance(x, ast.Expr) and isinstance(x.value, ast.Call) and ast.dump(x.value.func).find("attr='run'") >= 0
                       for x in tr.body):
                raise ValueError("restart branch does not call self.run()")
            ok_code = _code_key(_assigned(tr.body, "restartCode"))
            fail_code = _code_key(_assigned(tr.handlers[0].body, "restartCode"))
            table = {"go": go, "ok": ok_code, "run_failure": fail_code, "eq": [], "otherwise": None}
            rest = st.orelse
            while rest:
                if len(rest) == 1 and isinstance(rest[0], ast.If):
                    node = rest[0]
                    if not (isinstance(node.test, ast.Compare) and _is_name(node.test.left, "restartContext")
                            and isinstance(node.test.ops[0], ast.Eq)):
                        raise ValueError("unexpected elif in the context->code decision")
                    table["eq"].append((_code_key(node.test.comparators[0]), _code_key(_assigned(node.body, "restartCode"))))
                    rest = node.orelse
                else:
                    table["otherwise"] = _code_key(_assigned(rest, "restartCode"))
                    rest = None
    if None in (default_plain, default_hook, unlimited) or table is None or table["otherwise"] is None:
        raise ValueError("Engine.restart: could not find %s" % (
            [n for n, v in (("default", default_plain), ("default-with-hook", default_hook), ("unlimited", unlimited),
                            ("context->code", table)) if v is None]))
    return default_plain, default_hook, unlimited, table


def dont_restart_on(tree):
    for node in ast.walk(tree):
        if isinstance(node, ast.Assign) and any(_is_name(t, "dont_restart_on") for t in node.targets):
            return [_code_key(e) for e in node.value.elts]
    raise KeyError("dont_restart_on")


def default_policy(tree):
    """defaults of the restart policy in FlowIR.default_component_structure()['workflowAttributes']"""
    fn = G.find_function(tree, "FlowIR", "default_component_structure")
    for node in ast.walk(fn):
        if isinstance(node, ast.Dict):
            keys = [k.value if isinstance(k, ast.Constant) else None for k in node.keys]
            if "restartHookOn" in keys and "maxRestarts" in keys and "restartHookFile" in keys:
                val = dict(zip(keys, node.values))
                on = val["restartHookOn"]
                if not isinstance(on, ast.List):
                    raise ValueError("default restartHookOn is not a list literal")
                reasons = [_code_key(e) for e in on.elts]
                for k in ("maxRestarts", "restartHookFile"):
                    if not (isinstance(val[k], ast.Constant) and val[k].value is None):
                        raise ValueError("default of %s is not None" % k)
                return reasons
    raise KeyError("default workflowAttributes")


def extract():
    codes = G.parse("model/codes.py")
    exit_reasons = _dict_keys(codes, "exitReasons")
    contexts = _dict_keys(codes, "restartContexts")
    rcodes = _dict_keys(codes, "restartCodes")
    ctl = G.parse("runtime/control.py")
    cap = G.self_attr_assign(G.find_function(ctl, "Controller", "__init__"), "_max_resubmission_attempts")
    if not isinstance(cap, int) or cap < 0:
        raise ValueError("cap")
    eng = G.parse("runtime/engine.py")
    default_plain, default_hook, unlimited, table = engine_restart_constants(eng)
    flowir = G.parse("model/frontends/flowir.py")
    dro = dont_restart_on(flowir)
    default_on = default_policy(flowir)
    mapping = []
    for c in contexts:
        if c in table["go"]:
            mapping.append((c, table["ok"]))
        else:
            hit = [code for (cc, code) in table["eq"] if cc == c]
            mapping.append((c, hit[0] if hit else table["otherwise"]))
    return dict(exitReasons=exit_reasons, restartContexts=contexts, restartCodes=rcodes, cap=cap,
                defaultMaxRestarts=default_plain, defaultMaxRestartsWithHookFile=default_hook, unlimited=unlimited,
                ctxToCode=mapping, runFailureCode=table["run_failure"], dontRestartOn=dro,
                defaultRestartHookOn=default_on)


def generate():
    c = extract()
    pairs = ", ".join("(%s, %s)" % (G.lean_str(a), G.lean_str(b)) for a, b in c["ctxToCode"])
    src = """/-! Constants of property C12 (source: model/codes.py, runtime/control.py, runtime/engine.py, model/frontends/flowir.py). -/
namespace St4sd.Gen.C12

/-- keys of `experiment.model.codes.exitReasons`, in source order -/
def exitReasons : List String := %s
/-- keys of `experiment.model.codes.restartContexts` -/
def restartContexts : List String := %s
/-- keys of `experiment.model.codes.restartCodes` -/
def restartCodes : List String := %s
/-- `Controller._max_resubmission_attempts` -/
def resubmissionCap : Nat := %d
/-- `Engine.restart`: maximum used when `workflowAttributes.maxRestarts` is None and no restartHookFile is named -/
def defaultMaxRestarts : Int := %s
/-- … and when a restartHookFile is named -/
def defaultMaxRestartsWithHookFile : Int := %s
/-- the value of the maximum that `Engine.restart` treats as "no limit" -/
def unlimited : Int := %s
/-- final decision of `Engine.restart`: restart context -> restart code (when `run()` does not raise) -/
def ctxToCode : List (String × String) := [%s]
/-- code returned when the context allows a restart but `run()` raises -/
def runFailureCode : String := %s
/-- exit reasons the FlowIR schema does not accept in `restartHookOn` -/
def dontRestartOn : List String := %s
/-- `FlowIR.default_component_structure()['workflowAttributes']['restartHookOn']` (the defaults of maxRestarts and
restartHookFile are checked to be None by the extractor) -/
def defaultRestartHookOn : List String := %s

end St4sd.Gen.C12
""" % (G.lean_str_list(c["exitReasons"]), G.lean_str_list(c["restartContexts"]), G.lean_str_list(c["restartCodes"]),
       c["cap"], G.lean_int(c["defaultMaxRestarts"]), G.lean_int(c["defaultMaxRestartsWithHookFile"]),
       G.lean_int(c["unlimited"]), pairs, G.lean_str(c["runFailureCode"]), G.lean_str_list(c["dontRestartOn"]),
       G.lean_str_list(c["defaultRestartHookOn"]))
    return {TARGET: src}
