"""C19 table extractor: /repo/python/experiment/model/frontends/dosini.py -> lean/St4sd/Gen/C19.lean

Both translation tables of the legacy (DOSINI) front-end are read from the *source text* with `ast`
on every run (never imported here):

  dump side   Dosini._comp_*_to_* / _flowir_component_to_dict:  FlowIR option path -> (ini key, printer)
  parse side  Dosini.parse_component's if/elif chain (+ _translate_map): ini key -> [(path, parser | constant)]
  knownKeys   Dosini._known_flowir U keys(_translate_map)   (keys that never become variables)
  optionPaths leaves of FlowIR.default_component_structure()  (every option a component has)

The executor writer (`Dosini._comp_executors_to_str`) is NOT read by shape: the function is compiled alone from its source
text (or, when it calls helpers, taken from the imported class of the same tree) and run on every subset of the executors
the reader knows, each field holding a sentinel (probe_executor_writer): a field that comes out under one key in every
probe holding it is an `ident` entry (or a pass-through prefix), one that comes out only in some of them (written only
when another executor is present ...) is an `.unknown` entry.  Any spelling of a per-executor writer gives the same table.
`tables_safe()` is what the harness calls: it never raises and names the parts that could not be extracted.
The other printers/parsers are classified by the shape of the expression (`str(value)`, `str(value).lower()`,
`' '.join(value)`, `value_to_int(value, key)` ...); an expression that is not recognised becomes
`.unknown`, which makes the pin theorem `tables_agree` fail to build (on purpose).
`tables()` returns the same information as python data for the harness.
"""
from __future__ import annotations

import ast
import os

from harness import genconst

TARGET = "C19"
BASES = ("command", "references", "workflowAttributes", "resourceManager", "resourceRequest")
EXEC_LISTS = {"executors_pre": "pre", "executors_main": "main", "executors_post": "post"}
PARSERS = {"value_to_bool": "toBool", "value_to_int": "toInt", "value_to_float": "toFloat",
           "value_to_memorybytes": "toMem"}


class Unsupported(Exception):
    pass


# ------------------------------------------------------------------------------------------
# dump side
# ------------------------------------------------------------------------------------------

def _const_str(node, env):
    if isinstance(node, ast.Constant) and isinstance(node.value, str):
        return node.value
    if isinstance(node, ast.Name) and isinstance(env.get(node.id), str):
        return env[node.id]
    raise Unsupported(ast.dump(node))


def _path(node, env, roots):
    """option path denoted by an expression such as comp['workflowAttributes'].get('memoization', {}).get('disable', {})"""
    if isinstance(node, ast.Name):
        if node.id in roots:
            return list(roots[node.id])
        v = env.get(node.id)
        if isinstance(v, list):
            return list(v)
        raise Unsupported("name " + node.id)
    if isinstance(node, ast.Subscript):
        return _path(node.value, env, roots) + [_const_str(node.slice, env)]
    if isinstance(node, ast.Call) and isinstance(node.func, ast.Attribute) and node.func.attr == "get" and node.args:
        return _path(node.func.value, env, roots) + [_const_str(node.args[0], env)]
    raise Unsupported(ast.dump(node))


def classify_printer(node):
    """printer kind of the value expression (applied to the name `value`)"""
    def is_value(n):
        return isinstance(n, ast.Name) and n.id == "value"

    def is_str_of_value(n):
        return (isinstance(n, ast.Call) and isinstance(n.func, ast.Name) and n.func.id == "str"
                and len(n.args) == 1 and is_value(n.args[0]))

    def is_lower(n):
        return (isinstance(n, ast.Call) and isinstance(n.func, ast.Attribute) and n.func.attr == "lower"
                and not n.args and is_str_of_value(n.func.value))

    if is_value(node):
        return "ident"
    if is_str_of_value(node):
        return "strOf"
    if is_lower(node):
        return "strLower"
    if (isinstance(node, ast.Call) and isinstance(node.func, ast.Attribute) and node.func.attr == "join"
            and isinstance(node.func.value, ast.Constant) and node.func.value.value == " "
            and len(node.args) == 1 and is_value(node.args[0])):
        return "joinWords"
    if isinstance(node, ast.IfExp):
        t = node.test
        if (isinstance(t, ast.Call) and isinstance(t.func, ast.Name) and t.func.id == "isinstance"
                and len(t.args) == 2 and is_value(t.args[0]) and isinstance(t.args[1], ast.Name)
                and t.args[1].id == "bool" and is_lower(node.body)
                and (is_value(node.orelse) or is_str_of_value(node.orelse))):
            return "lowerIfBool"
    return "unknown"


def _returned_dict(fn):
    """the dict expression a converter (lambda or nested def) returns: (key_expr, value_expr, translates)"""
    translates = False
    if isinstance(fn, ast.Lambda):
        body = fn.body
    else:
        rets = [n for n in ast.walk(fn) if isinstance(n, ast.Return)]
        if len(rets) != 1:
            raise Unsupported("converter with %d returns" % len(rets))
        body = rets[0].value
        for n in ast.walk(fn):
            if (isinstance(n, ast.Assign) and isinstance(n.targets[0], ast.Name) and n.targets[0].id == "key"
                    and isinstance(n.value, ast.Subscript) and isinstance(n.value.value, ast.Name)
                    and n.value.value.id == "translate_map"):
                translates = True
    if isinstance(body, ast.IfExp):      # ({'max-restarts': str(value)} if value is not None else {})
        body = body.body
    if not (isinstance(body, ast.Dict) and len(body.keys) == 1):
        raise Unsupported("converter does not return a one-entry dict")
    return body.keys[0], body.values[0], translates


def _dump_entries_of_call(call, fn, env, roots, nested, tmap, out, optional_override=None, prefix_override=None):
    kw = {k.arg: k.value for k in call.keywords}
    optional = optional_override if optional_override is not None else kw.get("optional")
    prefix = prefix_override if prefix_override is not None else _path(call.args[0], env, roots)
    if not isinstance(optional, ast.Dict):
        raise Unsupported("optional= is not a dict literal")
    for k, v in zip(optional.keys, optional.values):
        name = _const_str(k, env)
        conv = v
        if isinstance(v, ast.Name):
            if v.id not in nested:
                raise Unsupported("converter " + v.id)
            conv = nested[v.id]
        kexpr, vexpr, translates = _returned_dict(conv)
        if isinstance(kexpr, ast.Constant):
            key = kexpr.value
        elif isinstance(kexpr, ast.Name) and kexpr.id == "key":
            key = tmap.get(name, name) if translates else name
        else:
            raise Unsupported("key expression")
        out.append((prefix + [name], key, classify_printer(vexpr)))


def extract_dump(tree, candidates=None):
    out = []
    passthrough = []
    roots = {"comp": [], "flowir_component": []}
    for fname in ("_comp_command_to_dict", "_comp_resource_manager_to_str", "_comp_resource_request_to_dict",
                  "_comp_workflow_attributes_to_dict"):
        fn = genconst.find_function(tree, "Dosini", fname)
        env = {}
        nested = {}
        tmap = {}
        dicts = {}
        for n in ast.walk(fn):
            if isinstance(n, ast.FunctionDef) and n is not fn:
                nested[n.name] = n
            if isinstance(n, ast.Assign) and len(n.targets) == 1 and isinstance(n.targets[0], ast.Name):
                tgt = n.targets[0].id
                if tgt == "key" and not isinstance(n.value, ast.Constant):
                    continue
                if tgt == "translate_map" and isinstance(n.value, ast.Dict):
                    tmap = ast.literal_eval(n.value)
                    continue
                if isinstance(n.value, ast.Dict):
                    dicts[tgt] = n.value
                    continue
                try:
                    env[tgt] = _const_str(n.value, env)
                    continue
                except Unsupported:
                    pass
                try:
                    env[tgt] = _path(n.value, env, roots)
                except Unsupported:
                    pass
        calls = [n for n in ast.walk(fn) if isinstance(n, ast.Call) and isinstance(n.func, ast.Attribute)
                 and n.func.attr == "_translate_dict_to_dict"]
        if not calls:
            raise Unsupported("no _translate_dict_to_dict call in " + fname)
        for call in calls:
            kw = {k.arg: k.value for k in call.keywords}
            opt = kw.get("optional")
            if isinstance(opt, ast.Subscript) and isinstance(opt.value, ast.Name) and opt.value.id in dicts:
                # resource manager: optional[group] for group in groups
                table = dicts[opt.value.id]
                for g, sub in zip(table.keys, table.values):
                    group = _const_str(g, env)
                    _dump_entries_of_call(call, fn, env, roots, nested, tmap, out, optional_override=sub,
                                          prefix_override=["resourceManager", group])
            else:
                _dump_entries_of_call(call, fn, env, roots, nested, tmap, out)
    # references
    fn = genconst.find_function(tree, "Dosini", "_flowir_component_to_dict")
    found = False
    for n in ast.walk(fn):
        if (isinstance(n, ast.Assign) and isinstance(n.targets[0], ast.Subscript)
                and isinstance(n.targets[0].value, ast.Name) and n.targets[0].value.id == "comp_dict"):
            key = _const_str(n.targets[0].slice, {})
            v = n.value
            if (isinstance(v, ast.Call) and isinstance(v.func, ast.Attribute) and v.func.attr == "join"
                    and isinstance(v.func.value, ast.Constant) and v.func.value.value == " "):
                src = _path(v.args[0], {}, roots)
                out.append((src, key, "joinWords"))
                found = True
            else:
                out.append((["?"], key, "unknown"))
    if not found:
        raise Unsupported("references writer not found")
    # executors: the table is read off the BEHAVIOUR of the writer (see probe_executor_writer): independent of how the
    # function spells its look-ups, and a writer that is not a per-executor table gets `.unknown` printers
    ex_out, ex_pass = probe_executor_writer(tree, candidates or [])
    return out + ex_out, passthrough + ex_pass


# ------------------------------------------------------------------------------------------
# dump side, executors: Dosini._comp_executors_to_str read off its behaviour
# ------------------------------------------------------------------------------------------

def _isolated_function(tree, cls, name):
    """the function object of `cls.name`, compiled ALONE from its source (no import of the package): usable when the
    function only looks at its arguments, which is what a per-component writer does"""
    fn = genconst.find_function(tree, cls, name)
    import copy as _copy
    fn = _copy.deepcopy(fn)
    fn.decorator_list = []
    mod = ast.Module(body=[fn], type_ignores=[])
    ast.fix_missing_locations(mod)
    import copy as copy_module
    import logging

    class _Quiet(object):
        def __getattr__(self, _n):
            return lambda *a, **k: None
    ns = {"copy": copy_module, "logging": logging, "logger": _Quiet(), "moduleLogger": _Quiet(), "Dict": dict,
          "experiment": None}
    exec(compile(mod, "<%s.%s>" % (cls, name), "exec"), ns)
    return ns[name]


def _executor_writer(tree):
    """the writer as a function (cls, comp) -> dict: compiled alone from the source text when it only looks at its
    arguments, otherwise (it calls helpers of the class / module) the attribute of the imported class of the same tree"""
    try:
        f = _isolated_function(tree, "Dosini", "_comp_executors_to_str")
        f(None, {"name": "c", "stage": 0, "executors": {"pre": [{"name": "lsf-dm-in", "payload": "x"}], "main": [], "post": []}})
        return f
    except Exception:
        pass
    try:
        import importlib
        D = importlib.import_module("experiment.model.frontends.dosini")
        bound = D.Dosini._comp_executors_to_str
        return lambda _cls, comp: bound(comp)
    except Exception as exc:
        raise Unsupported("executor writer cannot be run: %r" % (exc,))


def probe_executor_writer(tree, candidates):
    """candidates = [(stage, executor name, field)] the READER can produce (from the parse table).  The isolated writer is run
    on every non-empty subset of the executors (stage, name) - each alone, each pair, ... all of them - in the presence
    and absence of an unrelated executor in the same lists, every field holding a distinct sentinel.
      entry  (["executors", stage, name, field], key, ident)   the sentinel of the field appears under `key` in EVERY probe
                                                               that holds the executor, and only there
      entry  (... , key, unknown)                              it appears in some of them only (the writer is not a
                                                               per-executor table: e.g. one executor is written only when
                                                               another one is present) -> the pin theorem fails
      passthrough ["executors", stage, name]                    fields the reader does not know are written under their own name
    No entry: the field is never written (the pin theorems about option paths / the catalogue comparison notice)."""
    f = _executor_writer(tree)
    groups = []
    for stage, name, _field in candidates:
        if (stage, name) not in groups:
            groups.append((stage, name))
    if not groups:
        raise Unsupported("no executor keys on the parse side")
    if len(groups) > 6:
        raise Unsupported("too many executor kinds to probe")
    fields = {g: [c[2] for c in candidates if (c[0], c[1]) == g] for g in groups}
    extra_field = "x-unlisted-field"

    def sentinel(g, fld):
        return "<<%s/%s/%s>>" % (g[0], g[1], fld)

    def call(subset, noise):
        ex = {}
        for g in subset:
            lst = ex.setdefault(g[0], [])
            if noise:
                lst.append({"name": "some-other-executor", "payload": "<<noise>>", "docker-image": "<<noise>>"})
            e = {"name": g[1]}
            for fld in fields[g] + [extra_field]:
                e[fld] = sentinel(g, fld)
            lst.append(e)
        if noise:
            for st in ("pre", "main", "post"):
                ex.setdefault(st, [])
        comp = {"name": "c", "stage": 0, "executors": ex}
        r = f(None, comp)
        if not isinstance(r, dict):
            raise Unsupported("executor writer returned %s" % type(r).__name__)
        return r

    seen = {}      # (group, field) -> {key: number of probes} ; probes[(group)] = number of probes holding the group
    held = {g: 0 for g in groups}
    leaked = False
    n = len(groups)
    for mask in range(1, 2 ** n):
        subset = [g for i, g in enumerate(groups) if mask >> i & 1]
        for noise in (False, True):
            r = call(subset, noise)
            for g in subset:
                held[g] += 1
            for key, val in r.items():
                hit = None
                for g in subset:
                    for fld in fields[g] + [extra_field]:
                        if val == sentinel(g, fld):
                            hit = (g, fld)
                if hit is None:
                    leaked = True       # a value that is no field of a probed executor (noise, constant, str() of several)
                    continue
                seen.setdefault(hit, {}).setdefault(key, 0)
                seen[hit][key] += 1
    if f(None, {"name": "c", "stage": 0}) != {} or f(None, {"name": "c", "stage": 0, "executors": {}}) != {}:
        leaked = True
    out, passthrough = [], []
    for g in groups:
        unlisted = seen.get((g, extra_field), {})
        is_pass = unlisted.get(extra_field, 0) == held[g] and len(unlisted) == 1
        if unlisted and not is_pass:
            out.append((["executors", g[0], g[1], extra_field], sorted(unlisted)[0], "unknown"))
        if is_pass:
            passthrough.append(["executors", g[0], g[1]])
        for fld in fields[g]:
            keys = seen.get((g, fld), {})
            if is_pass:
                # every field goes out under its own name: nothing to list unless that is not what happens
                if not (len(keys) == 1 and keys.get(fld, 0) == held[g]):
                    out.append((["executors", g[0], g[1], fld], sorted(keys)[0] if keys else fld, "unknown"))
                continue
            if not keys:
                continue
            for key in sorted(keys):
                always = keys[key] == held[g] and len(keys) == 1
                out.append((["executors", g[0], g[1], fld], key, "ident" if always and not leaked else "unknown"))
    if leaked and not out:
        raise Unsupported("executor writer emits values that are no field of an executor")
    return out, passthrough


# ------------------------------------------------------------------------------------------
# parse side: symbolic run of the if/elif chain of parse_component for every key
# ------------------------------------------------------------------------------------------

class _Sym:
    def __init__(self, key, translated):
        self.env = {"key": ("const", key), "translated_key": ("const", translated), "value": ("parsed", "raw")}
        self.outs = []

    def const(self, node):
        v = self.val(node)
        if v[0] == "const" and isinstance(v[1], str):
            return v[1]
        raise Unsupported("not a constant string: " + ast.dump(node))

    def path(self, node):
        if isinstance(node, ast.Name):
            if node.id in BASES:
                return [node.id]
            v = self.env.get(node.id)
            if v and v[0] == "path":
                return list(v[1])
            raise Unsupported("path name " + node.id)
        if isinstance(node, ast.Subscript):
            return self.path(node.value) + [self.const(node.slice)]
        raise Unsupported("path " + ast.dump(node))

    def val(self, node):
        if isinstance(node, ast.Constant):
            return ("const", node.value)
        if isinstance(node, ast.Name):
            if node.id in self.env:
                return self.env[node.id]
            if node.id in BASES:
                return ("path", [node.id])
            return ("unknown", node.id)
        if isinstance(node, ast.Dict):
            d = {}
            for k, v in zip(node.keys, node.values):
                d[self.const(k)] = self.val(v)
            return ("dict", d)
        if isinstance(node, ast.Call):
            f = node.func
            if isinstance(f, ast.Name) and f.id in PARSERS and node.args and self.val(node.args[0]) == ("parsed", "raw"):
                return ("parsed", PARSERS[f.id])
            if isinstance(f, ast.Attribute) and f.attr == "split" and not node.args \
                    and self.val(f.value) == ("parsed", "raw"):
                return ("parsed", "split")
            if isinstance(f, ast.Attribute) and f.attr == "get" and node.args:
                try:
                    return ("path", self.path(f.value) + [self.const(node.args[0])])
                except Unsupported:
                    pass
            return ("parsed", "unknown") if any(isinstance(n, ast.Name) and n.id == "value" for n in ast.walk(node)) \
                else ("unknown", ast.dump(node)[:60])
        if isinstance(node, ast.ListComp):
            return ("unknown", "listcomp")
        return ("unknown", ast.dump(node)[:60])

    def record(self, path, v):
        if v[0] in ("parsed", "const"):
            if v[0] == "const" and v[1] is None:
                return
            self.outs.append((path, v))
        elif v[0] == "dict":
            if v[1]:
                raise Unsupported("non-empty dict assigned")
        elif v[0] == "path":
            pass    # re-attaching an alias: workflowAttributes['memoization'] = memoization
        else:
            self.outs.append((path, ("parsed", "unknown")))

    def test(self, node):
        """True/False when statically known, else None"""
        if isinstance(node, ast.Compare) and len(node.ops) == 1:
            op = node.ops[0]
            left = self.val(node.left)
            if isinstance(op, (ast.Eq, ast.NotEq)) and left[0] == "const":
                right = self.val(node.comparators[0])
                if right[0] == "const":
                    return (left[1] == right[1]) == isinstance(op, ast.Eq)
            if isinstance(op, (ast.In, ast.NotIn)) and left[0] == "const" and isinstance(node.comparators[0], (ast.List, ast.Tuple)):
                items = [self.val(e) for e in node.comparators[0].elts]
                if all(i[0] == "const" for i in items):
                    return (left[1] in [i[1] for i in items]) == isinstance(op, ast.In)
            if isinstance(op, (ast.IsNot, ast.Is)) and left == ("parsed", "raw") \
                    and isinstance(node.comparators[0], ast.Constant) and node.comparators[0].value is None:
                return isinstance(op, ast.IsNot)
        return None

    def run(self, stmts):
        for st in stmts:
            if isinstance(st, ast.Assign) and len(st.targets) == 1:
                t = st.targets[0]
                v = self.val(st.value)
                if isinstance(t, ast.Name):
                    if t.id in BASES:
                        self.record([t.id], v)
                    else:
                        self.env[t.id] = v
                elif isinstance(t, ast.Subscript):
                    self.record(self.path(t), v)
                else:
                    raise Unsupported("assignment target")
            elif isinstance(st, ast.If):
                r = self.test(st.test)
                if r is True or r is None:
                    self.run(st.body)
                else:
                    self.run(st.orelse)
            elif isinstance(st, ast.Expr) and isinstance(st.value, ast.Call):
                c = st.value
                if isinstance(c.func, ast.Attribute) and c.func.attr == "append" \
                        and isinstance(c.func.value, ast.Name) and c.func.value.id in EXEC_LISTS:
                    d = self.val(c.args[0])
                    if d[0] != "dict" or d[1].get("name", ("", ""))[0] != "const":
                        raise Unsupported("executor entry")
                    nm = d[1]["name"][1]
                    for k2, v2 in d[1].items():
                        if k2 != "name":
                            self.record(["executors", EXEC_LISTS[c.func.value.id], nm, k2], v2)
                # other calls (docker_dict[0].update(update) in the not-taken branch) have no new effect
            elif isinstance(st, (ast.Assert, ast.Pass, ast.Delete)):
                pass
            else:
                raise Unsupported("statement " + type(st).__name__)


def _branch_keys(test):
    if isinstance(test, ast.Compare) and len(test.ops) == 1 and isinstance(test.left, ast.Name) and test.left.id == "key":
        if isinstance(test.ops[0], ast.Eq) and isinstance(test.comparators[0], ast.Constant):
            return [test.comparators[0].value]
        if isinstance(test.ops[0], ast.In) and isinstance(test.comparators[0], (ast.List, ast.Tuple)):
            return [e.value for e in test.comparators[0].elts]
    raise Unsupported("branch test " + ast.dump(test)[:80])


def extract_parse(tree, translate_map):
    fn = genconst.find_function(tree, "Dosini", "parse_component")
    loops = [n for n in ast.walk(fn) if isinstance(n, ast.For) and isinstance(n.target, ast.Name) and n.target.id == "key"]
    if len(loops) != 1:
        raise Unsupported("key loop")
    chain = [s for s in loops[0].body if isinstance(s, ast.If)]
    if len(chain) != 1:
        raise Unsupported("if chain")
    node = chain[0]
    table = []
    seen = set()
    while node is not None:
        for k in _branch_keys(node.test):
            if k in seen:
                continue    # an earlier branch wins
            seen.add(k)
            sym = _Sym(k, translate_map.get(k, k))
            sym.run(node.body)
            table.append((k, sym.outs))
        if len(node.orelse) == 1 and isinstance(node.orelse[0], ast.If):
            node = node.orelse[0]
        elif not node.orelse:
            node = None
        else:
            raise Unsupported("else branch")
    return table


def known_keys(tree):
    tm = genconst.class_assign(tree, "Dosini", "_translate_map")
    for node in ast.walk(tree):
        if isinstance(node, ast.ClassDef) and node.name == "Dosini":
            for st in node.body:
                if isinstance(st, ast.Assign) and any(isinstance(t, ast.Name) and t.id == "_known_flowir" for t in st.targets):
                    v = st.value
                    if isinstance(v, ast.Call) and isinstance(v.func, ast.Name) and v.func.id == "set":
                        v = v.args[0]
                    return sorted(set(ast.literal_eval(v)) | set(tm)), tm
    raise KeyError("_known_flowir")


def option_paths():
    tree = genconst.parse("model/frontends/flowir.py")
    fn = genconst.find_function(tree, "FlowIR", "default_component_structure")
    ret = [n for n in ast.walk(fn) if isinstance(n, ast.Return)][0].value
    out = []

    def walk(d, prefix):
        for k, v in zip(d.keys, d.values):
            p = prefix + [k.value]
            if isinstance(v, ast.Dict) and v.keys:
                walk(v, p)
            else:
                out.append(p)
    walk(ret, [])
    return [p for p in out if p[0] not in ("stage", "variables", "executors")]


def backend_options(tree):
    """Dosini.options_for_backend: [(backend name, [option names the reader accepts for that backend])].

    The function is an if/elif chain on `backend` (== "x" / in [...]) whose branches extend options['required'] /
    options['optional'] with literal lists.  Anything else in a branch makes the whole table fall back to one entry
    `*` holding every string literal that is extended anywhere in the function (a superset: good enough for the
    harness, which uses the names as candidate variable names)."""
    fn = genconst.find_function(tree, "Dosini", "options_for_backend")

    def extended(stmts):
        out = []
        for st in stmts:
            for node in ast.walk(st):
                if isinstance(node, ast.Call) and isinstance(node.func, ast.Attribute) and node.func.attr in ("extend", "append"):
                    for a in node.args:
                        for c in ast.walk(a):
                            if isinstance(c, ast.Constant) and isinstance(c.value, str):
                                out.append(c.value)
        return out

    def backends_of(test):
        if isinstance(test, ast.Compare) and isinstance(test.left, ast.Name) and test.left.id == "backend" \
                and len(test.ops) == 1 and len(test.comparators) == 1:
            c = test.comparators[0]
            if isinstance(test.ops[0], ast.Eq) and isinstance(c, ast.Constant) and isinstance(c.value, str):
                return [c.value]
            if isinstance(test.ops[0], ast.In) and isinstance(c, (ast.List, ast.Tuple, ast.Set)) \
                    and all(isinstance(e, ast.Constant) and isinstance(e.value, str) for e in c.elts):
                return [e.value for e in c.elts]
        return None

    table = []
    try:
        chains = [st for st in fn.body if isinstance(st, ast.If)]
        if len(chains) != 1:
            raise Unsupported("options_for_backend: expected one if/elif chain")
        node = chains[0]
        while True:
            bs = backends_of(node.test)
            if bs is None:
                raise Unsupported("options_for_backend: test " + ast.dump(node.test))
            names = extended(node.body)
            for b in bs:
                table.append((b, sorted(set(names))))
            if len(node.orelse) == 1 and isinstance(node.orelse[0], ast.If):
                node = node.orelse[0]
            elif not node.orelse:
                break
            else:
                raise Unsupported("options_for_backend: else branch")
    except Unsupported:
        table = [("*", sorted(set(extended(fn.body))))]
    return table


def tables():
    tree = genconst.parse("model/frontends/dosini.py")
    keys, tm = known_keys(tree)
    parse = extract_parse(tree, tm)
    candidates = []
    for _k, outs in parse:
        for p, _v in outs:
            if len(p) == 4 and p[0] == "executors" and tuple(p[1:]) not in candidates:
                candidates.append(tuple(p[1:]))
    dump, passthrough = extract_dump(tree, candidates)
    backends = backend_options(tree)
    # option names of some backend that are NOT legacy keys: for the writer and the reader they are ordinary
    # component variables (the simulator backend reads its options from the variables of the component)
    backend_only = sorted({n for _b, names in backends for n in names} - set(keys))
    return dict(dump=dump, passthrough=passthrough, parse=parse, known=keys, options=option_paths(),
                backends=backends, backend_only=backend_only)


def tables_safe():
    """tables() for the harness: never raises.  A part that cannot be extracted is empty and named in `errors` (the
    generated Lean file is then a build error - genconst does that - and the harness still runs implementation + oracle)."""
    out = dict(dump=[], passthrough=[], parse=[], known=[], options=[], backends=[], backend_only=[], errors=[])
    try:
        out.update(tables())
        return out
    except Exception as exc:    # noqa: find out which parts still work
        out["errors"].append("tables: %s: %s" % (type(exc).__name__, str(exc)[:200]))
    try:
        tree = genconst.parse("model/frontends/dosini.py")
    except Exception as exc:    # noqa
        out["errors"].append("parse dosini.py: %s: %s" % (type(exc).__name__, str(exc)[:200]))
        return out
    tm = {}
    try:
        out["known"], tm = known_keys(tree)
    except Exception as exc:    # noqa
        out["errors"].append("known keys: %s: %s" % (type(exc).__name__, str(exc)[:200]))
    try:
        out["parse"] = extract_parse(tree, tm)
    except Exception as exc:    # noqa
        out["errors"].append("parse table: %s: %s" % (type(exc).__name__, str(exc)[:200]))
    try:
        cands = []
        for _k, outs in out["parse"]:
            for p, _v in outs:
                if len(p) == 4 and p[0] == "executors" and tuple(p[1:]) not in cands:
                    cands.append(tuple(p[1:]))
        out["dump"], out["passthrough"] = extract_dump(tree, cands)
    except Exception as exc:    # noqa
        out["errors"].append("dump table: %s: %s" % (type(exc).__name__, str(exc)[:200]))
    try:
        out["options"] = option_paths()
    except Exception as exc:    # noqa
        out["errors"].append("option paths: %s: %s" % (type(exc).__name__, str(exc)[:200]))
    try:
        out["backends"] = backend_options(tree)
        if out["known"]:
            out["backend_only"] = sorted({n for _b, names in out["backends"] for n in names} - set(out["known"]))
    except Exception as exc:    # noqa
        out["errors"].append("backend options: %s: %s" % (type(exc).__name__, str(exc)[:200]))
    return out


# ------------------------------------------------------------------------------------------
# Lean output
# ------------------------------------------------------------------------------------------

def lchars(s):
    def ch(c):
        if c == "'":
            return "'\\''"
        if c == "\\":
            return "'\\\\'"
        return "'%s'" % c
    return "[" + ",".join(ch(c) for c in s) + "]"


def lpath(p):
    return "[" + ", ".join(lchars(s) for s in p) + "]"


def lval(v):
    if v is True:
        return "(.bool true)"
    if v is False:
        return "(.bool false)"
    if isinstance(v, int):
        return "(.int %s)" % genconst.lean_int(v)
    if isinstance(v, str):
        return "(.str %s)" % lchars(v)
    raise Unsupported("constant %r" % (v,))


def generate():
    t = tables()
    L = ["import St4sd.Model.Ini", "/-! Translation tables of the legacy front-end, extracted from dosini.py / flowir.py. -/",
         "namespace St4sd.Gen.C19", "open St4sd.Ini", ""]
    L.append("def dumpTable : List DumpEntry := [")
    L.append(",\n".join("  ⟨%s, %s, .%s⟩  -- %s -> %s" % (lpath(p), lchars(k), pr, ".".join(p), k) if False else
                        "  ⟨%s, %s, .%s⟩" % (lpath(p), lchars(k), pr) for p, k, pr in t["dump"]))
    L.append("]\n")
    L.append("def parseTable : List ParseEntry := [")
    rows = []
    for k, outs in t["parse"]:
        os_ = []
        for p, v in outs:
            if v[0] == "parsed":
                os_.append("(%s, .parsed .%s)" % (lpath(p), v[1]))
            else:
                os_.append("(%s, .const %s)" % (lpath(p), lval(v[1])))
        rows.append("  ⟨%s, [%s]⟩" % (lchars(k), ", ".join(os_)))
    L.append(",\n".join(rows))
    L.append("]\n")
    L.append("def knownKeys : List (List Char) := [" + ", ".join(lchars(k) for k in t["known"]) + "]\n")
    L.append("def passthrough : List Path := [" + ", ".join(lpath(p) for p in t["passthrough"]) + "]\n")
    L.append("def optionPaths : List Path := [\n" + ",\n".join("  " + lpath(p) for p in t["options"]) + "]\n")
    L.append("/-- `Dosini.options_for_backend`: backend ↦ option names the reader accepts for it -/")
    L.append("def backendTable : List (List Char × List (List Char)) := [\n" + ",\n".join(
        "  (%s, [%s])" % (lchars(b), ", ".join(lchars(n) for n in names)) for b, names in t["backends"]) + "]\n")
    L.append("end St4sd.Gen.C19")
    return {TARGET: "\n".join(L) + "\n"}


if __name__ == "__main__":
    import pprint
    pprint.pprint(tables(), width=160)
