"""C13 - A repeating observer sees its producers' final output and then stops.

Implementation under test (real code, in-process, single-threaded):
  the real `RepeatingEngine` (`run`, its closures `EngineTaskController` / `schedule_next_instance`,
  `notify_all_producers_finished`, `exitReason`, `isAlive`, `kill`) driven by the real poll loop of
  `monitor.CreateMonitor` (its thread is replaced by a synchronous call, `time.sleep` by a no-op), with a stub
  Job, a fake Task, a fake clock standing in for the module-level `datetime` of engine.py and a captured
  `reactivex.timer` (kill delay).  Scripted environment events (producers finished, new producer output,
  external kill, kill-delay timer, >20 s pass) fire at the interleaving points of a poll:
     gap  between two polls, before the monitor looks at the cancel event
     s0   after that, before the action body starts
     s1   right after the output check (`producersHaveOutputSinceDate` returns)
     s2   after `producers_done_when_i_started` was read, before `launch_time` is read
     s3   while the task runs / inside a raising task generator
     s4   after the task, before the stop/retry bookkeeping
Model: lean/St4sd/Model/Repeat.lean via drv-c13 (repaired behaviour: guardNone + killOnSuicidePoll).
Theorems: lean/St4sd/Props/C13.lean.  Witnesses: lean/St4sd/Witness/C13.lean.
"""
from __future__ import annotations

import copy
import datetime as _dt
import logging
import threading
import types

SLOTS = ("gap", "s0", "s1", "s2", "s3", "s4")
INNER = ("s1", "s2", "s3", "s4")
DEFAULT_RETRIES = 3


class StopScript(BaseException):
    pass


class Clock:
    def __init__(self):
        self.t = _dt.datetime(2030, 1, 1)
        self.hook = None

    def tick(self, ms=1):
        self.t = self.t + _dt.timedelta(milliseconds=ms)
        return self.t

    def now(self):
        if self.hook is not None:
            self.hook()
        return self.tick()


def fake_datetime_module(clock):
    class _DT(_dt.datetime):
        @classmethod
        def now(cls, tz=None):
            return clock.now()
    return types.SimpleNamespace(datetime=_DT, timedelta=_dt.timedelta, date=_dt.date)


class SyncThread:
    def __init__(self, target=None, name=None, **kw):
        self.target = target

    def start(self):
        self.target()


class Drv:
    """Runs one scripted case on the real RepeatingEngine."""

    def __init__(self, case):
        self.case = case
        self.cfg = case["cfg"]
        self.clock = Clock()
        self.lastOut = None
        self.anyOut = False
        self.timers = []
        self.launches = []      # [time, outcome, output_available, task]
        self.trace = []
        self.task = None
        self.it = None
        self.fired = set()
        self.seen = set()
        self.in_action = False
        self.in_event = False
        self.cancel_cause = None
        self.die_fired = False
        self.kill_fired = False
        self.thread = threading.get_ident()

    # -- stubs ---------------------------------------------------------------------------
    def make_job(self):
        d = self

        class WD:
            path = "/nonexistent-c13/wd"
            directory = "/nonexistent-c13/wd"

        class PWD:
            path = "/nonexistent-c13/p"

            @property
            def output(self_):
                return ["f"] if d.anyOut else []

        class Prod:
            stageIndex = 0
            isRepeat = not d.cfg.get("alwaysNew")
            identification = "stage0.P"
            workingDirectory = PWD()

        retries = d.cfg.get("retries")

        class Job:
            reference = "stage0.Obs"
            identification = "stage0.Obs"
            type = "local"
            isRepeat = True
            stageIndex = 0
            name = "Obs"
            executable = "x"
            arguments = ""
            workflowAttributes = {"repeatRetries": retries, "optimizer": {"disable": True}}
            flowir_description = {"variables": ({"kill-after-producers-done-delay": "60.0"}
                                                if d.cfg.get("dieAfter") else {})}
            workingDirectory = WD()

            @property
            def producerInstances(self_):
                return [] if d.cfg.get("noProd") else [Prod()]

            def repeatInterval(self_):
                return 30.0

            def producersHaveOutputSinceDate(self_, date):
                # same decision as Job.producersHaveOutputSinceDate with one producer whose newest file
                # has mtime d.lastOut (a non-repeating producer always counts as having new output)
                d.seen.add("check")
                r = False
                for p in self_.producerInstances:
                    if p.isRepeat is False or (d.lastOut is not None and d.lastOut > date):
                        r = True
                d.fire("s1")
                return r
        return Job()

    def gen(self, job, outputFile=None, errorFile=None):
        d = self
        self.seen.add("gen")
        out = self.it.get("outcome", "ok")
        rec = [self.eng.lastLaunched, out, bool(self.cfg.get("noProd")) or self.anyOut, None]
        self.launches.append(rec)
        if out == "raise":
            self.fire("s3")
            self.seen.add("genend")
            raise RuntimeError("scripted launch failure")

        class PI:
            def getElements(self_):
                return {}

        class Task:
            killed = False
            done = False
            schedulerId = "1"
            performanceInfo = PI()
            status = "finished"

            def wait(self_):
                d.fire("s3")
                self_.done = True
                d.seen.add("genend")

            def kill(self_):
                if not self_.done:
                    self_.killed = True

            def isAlive(self_):
                return not self_.done

            @property
            def returncode(self_):
                if self_.killed:
                    return -9
                return {"ok": 0, "fail": 1}[out]

            @property
            def exitReason(self_):
                if self_.killed:
                    return "Killed"
                return {"ok": "Success", "fail": "KnownIssue"}[out]
        self.task = Task()
        rec[3] = self.task
        return self.task

    # -- events --------------------------------------------------------------------------
    def ev(self, e):
        self.trace.append(e)
        before = self.eng.cancelMonitorEvent.is_set()
        self.in_event = True
        try:
            if e == "fin":
                self.eng.notify_all_producers_finished()
            elif e == "out":
                self.lastOut = self.clock.tick()
                self.anyOut = True
            elif e == "kill":
                self.kill_fired = True
                self.eng.kill()
            elif e == "die":
                if self.timers:
                    self.die_fired = True
                    self.timers.pop(0).on_completed()
            elif e == "adv":
                self.clock.tick(1000 * 1000)
            else:
                raise ValueError(e)
        finally:
            self.in_event = False
        if not before and self.eng.cancelMonitorEvent.is_set():
            self.cancel_cause = {"kill": "external", "die": "killDelay"}.get(e, "event:" + e)

    def fire(self, slot):
        it = self.it
        if it is None:
            return
        key = (id(it), slot)
        if key in self.fired:
            return
        self.fired.add(key)
        hook, self.clock.hook = self.clock.hook, None
        try:
            for e in it.get(slot, []):
                self.ev(e)
        finally:
            self.clock.hook = hook

    def on_now(self):
        """called at the start of every `datetime.datetime.now()` of engine.py during an action"""
        if self.it is None or not self.in_action or self.in_event or threading.get_ident() != self.thread:
            return
        s = self.seen
        if "n2" not in s:
            if "check" not in s:
                if not self.fin_at_begin:
                    return           # some other clock read before the output check
                if "n1" not in s:
                    s.add("n1")      # the `time_waiting` read of the 20 s override
                    return
            s.add("n2")              # launch_time (first clock read after the output check / the override)
            self.fire("s1")          # (the output check was skipped: waited too long)
            self.fire("s2")
            return
        if "gen" in s and "genend" not in s:
            return                   # state emission while the task is being launched
        self.fire("s3")
        self.fire("s4")

    def snapshot(self):
        e = self.eng
        return {"launches": len(self.launches), "retries": e._stateDict["repeatRetries"],
                "cancel": e.cancelMonitorEvent.is_set(), "alive": bool(e.isAlive()),
                "kc": bool(e.kernelCompleted), "suicide": bool(e._suicide), "consume": bool(e._consume),
                "fin": bool(e._producers_are_finished)}

    def run(self):
        import reactivex
        import reactivex.subject
        import reactivex.scheduler
        import experiment.runtime.engine as E
        import experiment.runtime.monitor as M
        d = self
        imm = reactivex.scheduler.ImmediateScheduler()
        saved = (E.datetime, reactivex.interval, reactivex.timer, M.CreateMonitor, M.threading, M.time,
                 E.Engine.enginePoolScheduler, E.Engine.triggerPoolScheduler, E.Engine.taskPoolScheduler)
        saved_tps = reactivex.scheduler.ThreadPoolScheduler
        # Engine._create_state_updates serialises the state emissions on a private 1-thread pool: keep them
        # on the calling thread (a worker thread would read the fake clock at arbitrary moments)
        reactivex.scheduler.ThreadPoolScheduler = lambda *a, **k: imm
        E.datetime = fake_datetime_module(self.clock)
        reactivex.interval = lambda *a, **k: reactivex.never()

        def fake_timer(*a, **k):
            s = reactivex.subject.Subject()
            d.timers.append(s)
            return s
        reactivex.timer = fake_timer
        E.Engine.enginePoolScheduler = imm
        E.Engine.triggerPoolScheduler = imm
        E.Engine.taskPoolScheduler = imm
        real_create = saved[3]
        self.snaps = []
        self.info = []
        iters = self.case["iters"]
        state = {"i": 0}

        def my_create(interval, action, cancelEvent=None, lastAction=True, name=None, **kw):
            def w_interval(seconds):
                if state["i"] >= len(iters):
                    raise StopScript()
                d.it = iters[state["i"]]
                d.fire("gap")
                try:
                    interval(seconds)    # exercise the real schedule_next_instance; its timing decision is
                except Exception:        # replaced by the script (time is logical)
                    pass
                return True

            def w_action(last):
                if state["i"] >= len(iters):
                    raise StopScript()
                d.it = iters[state["i"]]
                d.fire("gap")
                d.seen = set()
                d.fire("s0")
                d.fin_at_begin = bool(d.eng._producers_are_finished)
                info = {"last": bool(last), "fin_at_begin": d.fin_at_begin,
                        "suicide_at_begin": bool(d.eng._suicide),
                        "cancel_at_begin": d.eng.cancelMonitorEvent.is_set(), "error": None}
                nl = len(d.launches)
                d.in_action = True
                d.clock.hook = d.on_now
                try:
                    action(last)
                except Exception as exc:
                    info["error"] = type(exc).__name__
                    raise
                finally:
                    d.clock.hook = None
                    d.in_action = False
                    cancel_now = d.eng.cancelMonitorEvent.is_set()
                    if cancel_now and d.cancel_cause is None:
                        # set by the action itself
                        d.cancel_cause = "killDelay" if d.eng._suicide else "self"
                        info["self_stop_fin"] = bool(d.eng._producers_are_finished)
                    for s in INNER:
                        d.fire(s)
                    info["executed"] = len(d.launches) > nl
                    if info["executed"]:
                        rec = d.launches[-1]
                        info["rc0"] = rec[3] is not None and rec[3].returncode == 0
                    info["cancel_after"] = cancel_now
                    d.info.append(info)
                    d.snaps.append(d.snapshot())
                    state["i"] += 1
            return real_create(w_interval, w_action, cancelEvent, lastAction=lastAction, name=name, **kw)
        M.CreateMonitor = my_create
        M.threading = types.SimpleNamespace(Thread=SyncThread, Event=threading.Event, Lock=threading.Lock,
                                            current_thread=threading.current_thread, Timer=threading.Timer)
        M.time = types.SimpleNamespace(sleep=lambda s: None)
        self.monitor_exited = False
        prev_disable = logging.root.manager.disable
        logging.disable(logging.CRITICAL)
        try:
            if self.cfg.get("preOutput"):
                self.lastOut = self.clock.tick()
                self.anyOut = True
            self.eng = E.RepeatingEngine(self.make_job(), self.gen)
            self.eng._prime()            # what run() does first; the events of the first `gap` come after it
            if iters:
                self.it = iters[0]
                self.fire("gap")
            try:
                self.eng.run()
                self.monitor_exited = True
            except StopScript:
                pass
        finally:
            logging.disable(prev_disable)
            reactivex.scheduler.ThreadPoolScheduler = saved_tps
            (E.datetime, reactivex.interval, reactivex.timer, M.CreateMonitor, M.threading, M.time,
             E.Engine.enginePoolScheduler, E.Engine.triggerPoolScheduler, E.Engine.taskPoolScheduler) = saved
        fo = self.lastOut
        execs = [{"afterFinal": (fo is None or t > fo)} for t, _o, _a, _t in self.launches]
        return {"snaps": self.snaps, "execs": execs, "stopped": self.monitor_exited, "final": self.snapshot(),
                "info": self.info, "cause": self.cancel_cause,
                "avail": [a for _t, _o, a, _k in self.launches], "any_output": self.anyOut}


# ----------------------------------------------------------------------------------------
# oracle: the property text evaluated on the real engine's observable behaviour
# ----------------------------------------------------------------------------------------

def oracle(case, out):
    """returns list of (slug, detail)"""
    fails = []
    cfg = case["cfg"]
    retries = cfg.get("retries")
    retries = DEFAULT_RETRIES if retries is None else retries
    # 1. never executes before there is producer output it can consume
    for i, a in enumerate(out["avail"]):
        if not a:
            fails.append(("executed-before-consumable-output", {"launch": i}))
            break
    # 2. a stop decided by the engine itself (not an external kill, not the kill delay) comes only after the
    #    producers finished and after an execution that began after the producers' last output
    if out["cause"] == "self":
        stop = [i for i in out["info"] if "self_stop_fin" in i][0]
        if not stop["self_stop_fin"]:
            fails.append(("stopped-before-producers-finished", {}))
        elif out["final"]["consume"] and out["any_output"] and not any(e["afterFinal"] for e in out["execs"]):
            fails.append(("stopped-without-observing-final-output",
                          {"launches": len(out["execs"]), "retries": retries}))
    # 3. bounded: polls that begin with the producers-finished flag set; the first success among them stops
    polls = 0
    for k, i in enumerate(out["info"]):
        if i["last"]:
            continue
        if i["fin_at_begin"]:
            polls += 1
            if polls > retries + 1:
                fails.append(("kill-delay-expired-engine-keeps-polling" if i["suicide_at_begin"]
                              else "keeps-polling-after-retries-used-up",
                              {"poll": k, "polls_after_finished": polls, "retries": retries}))
                break
            if i.get("executed") and i.get("rc0") and not i["cancel_after"]:
                fails.append(("success-after-producers-finished-did-not-stop", {"poll": k}))
                break
            if i["suicide_at_begin"] and not i["cancel_after"]:
                fails.append(("kill-delay-expired-engine-keeps-polling", {"poll": k}))
                break
    return fails


# ----------------------------------------------------------------------------------------
# generator
# ----------------------------------------------------------------------------------------

def gen_case(rng, tier):
    cfg = {"retries": rng.choice([None, 0, 1, 1, 2, 3, 3, 5]),
           "dieAfter": rng.random() < 0.3,
           "noProd": rng.random() < 0.1,
           "alwaysNew": rng.random() < 0.25,
           "preOutput": rng.random() < 0.2}
    r = DEFAULT_RETRIES if cfg["retries"] is None else cfg["retries"]
    n = rng.randint(3, 9 if tier == "quick" else 16) + r
    iters = [{"outcome": rng.choices(["ok", "fail", "raise"], [5, 3, 2])[0]} for _ in range(n)]
    if rng.random() < 0.15:
        for it in iters:
            it["outcome"] = "raise" if rng.random() < 0.8 else it["outcome"]

    def place(e, lo, hi, slots=SLOTS):
        i = rng.randint(lo, hi)
        s = rng.choice(slots)
        iters[i].setdefault(s, []).append(e)
        return i, SLOTS.index(s)
    # producers finish somewhere in the first part (or never)
    fin_pos = None
    if rng.random() < 0.9:
        hi = max(0, n - r - 3)
        fin_pos = place("fin", 0, rng.randint(0, hi))
    # outputs strictly before the notification
    for _ in range(rng.choice([0, 1, 1, 2, 3, 5])):
        if fin_pos is None:
            place("out", 0, n - 1)
        else:
            i = rng.randint(0, fin_pos[0])
            ss = [s for s in SLOTS if (i, SLOTS.index(s)) < fin_pos] if i == fin_pos[0] else list(SLOTS)
            if rng.random() < 0.3 and i == fin_pos[0]:
                # same slot, just before the notification
                iters[i][SLOTS[fin_pos[1]]].insert(0, "out")
            elif ss:
                s = rng.choice(ss)
                iters[i].setdefault(s, []).append("out")
    if cfg["dieAfter"] and fin_pos is not None and rng.random() < 0.7:
        i = rng.randint(fin_pos[0], min(n - 1, fin_pos[0] + 3))
        ss = [s for s in SLOTS if (i, SLOTS.index(s)) > fin_pos] if i == fin_pos[0] else list(SLOTS)
        if ss:
            iters[i].setdefault(rng.choice(ss), []).append("die")
    if rng.random() < 0.15:
        place("kill", 0, n - 1)
    for _ in range(rng.choice([0, 0, 0, 1, 2])):
        place("adv", 0, n - 1, slots=("gap", "gap", "s0", "s4"))
    return {"cfg": cfg, "iters": iters}


def events_in_order(case):
    for it in case["iters"]:
        for s in SLOTS:
            for e in it.get(s, []):
                yield s, e


def nontrivial(case, out):
    evs = list(events_in_order(case))
    return (any(e == "fin" for _s, e in evs) and len(out["execs"]) >= 1
            and any(s in INNER for s, _e in evs))


CORPUS = [
    # DESIGN section 8 #13: the task generator raises after the producers finished
    {"cfg": {"retries": 3, "alwaysNew": True},
     "iters": [{"s0": ["out"]}, {"gap": ["fin"], "outcome": "raise"}] + [{"outcome": "raise"}] * 7},
    # kill delay fires between two polls after a launch
    {"cfg": {"retries": 3, "dieAfter": True},
     "iters": [{"s0": ["out"]}, {"gap": ["fin"]}, {"gap": ["die"]}, {}, {}, {}, {}, {}]},
    # notification lands between the output check and the producers-done sample
    {"cfg": {"retries": 2}, "iters": [{"s0": ["out"]}, {"s1": ["out", "fin"]}, {}, {}, {}, {}]},
    # kill delay fires while the task runs
    {"cfg": {"retries": 1, "dieAfter": True}, "iters": [{"s0": ["out"]}, {"gap": ["out", "fin"], "s3": ["die"]}, {}, {}]},
    # no producers at all
    {"cfg": {"retries": 0, "noProd": True}, "iters": [{}, {"s2": ["fin"], "outcome": "fail"}, {"outcome": "fail"}, {}, {}]},
    # external kill in the middle of a poll
    {"cfg": {"retries": 3}, "iters": [{"s0": ["out"]}, {"gap": ["out"], "s3": ["kill"]}, {}, {}]},
    # waited more than 20 s with finished producers
    {"cfg": {"retries": 5, "preOutput": True}, "iters": [{"gap": ["fin"]}, {"gap": ["adv"]}, {}, {}]},
]


# ----------------------------------------------------------------------------------------
# classifiers of known findings (narrow)
# ----------------------------------------------------------------------------------------

def c13_zero_retries_race(what, case, detail):
    """repeatRetries is configured 0 (exactly the inputs excluded by hypothesis `1 <= cfg.retries` of
    stop_implies_final_output_seen_partial): the poll in which the notification races with the output check
    finds no retries left and stops without an execution that began after the last output"""
    return what == "stopped-without-observing-final-output" and case["cfg"].get("retries") == 0


def c13_output_predates_run(what, case, detail):
    """producer output exists before run(), none appears afterwards, the engine never launched and used up
    its retries before the 20 s 'waited too long' override could make it launch"""
    if what != "stopped-without-observing-final-output" or not case["cfg"].get("preOutput"):
        return False
    if not isinstance(detail, dict) or detail.get("launches") != 0:
        return False
    return not any(e == "out" for _s, e in events_in_order(case))


CLASSIFIERS = {"c13_zero_retries_race": c13_zero_retries_race,
               "c13_output_predates_run": c13_output_predates_run}


# ----------------------------------------------------------------------------------------

def model_cfg(cfg):
    m = {"retries": DEFAULT_RETRIES if cfg.get("retries") is None else cfg["retries"],
         "guardNone": True, "killOnSuicidePoll": True}
    for k in ("dieAfter", "noProd", "alwaysNew", "preOutput"):
        m[k] = bool(cfg.get(k))
    return m


def model_iters(case):
    return [{k: v for k, v in it.items()} for it in case["iters"]]


def run_impl(case):
    return Drv(copy.deepcopy(case)).run()


def case_fails(case, slug):
    try:
        out = run_impl(case)
    except Exception:
        return False
    return any(w == slug for w, _d in oracle(case, out))


def shrink(what, case):
    from harness import common
    case = copy.deepcopy(case)
    # drop iterations from the end, then empty slots, then simplify outcomes
    its = common.shrink_list(case["iters"], lambda c: case_fails({"cfg": case["cfg"], "iters": c}, what), 200)
    case["iters"] = its
    for it in case["iters"]:
        for s in SLOTS:
            for e in list(it.get(s, [])):
                trial = copy.deepcopy(case)
                # same position in the copy
                idx = case["iters"].index(it)
                trial["iters"][idx][s].remove(e)
                if case_fails(trial, what):
                    it[s].remove(e)
            if s in it and not it[s]:
                del it[s]
    for k in ("dieAfter", "noProd", "alwaysNew", "preOutput"):
        if case["cfg"].get(k):
            trial = copy.deepcopy(case)
            trial["cfg"][k] = False
            if case_fails(trial, what):
                case["cfg"][k] = False
    return case if case_fails(case, what) else None


def check_cases(ctx, cases):
    reqs = [{"op": "script", "cfg": model_cfg(c["cfg"]), "iters": model_iters(c)} for c in cases]
    mouts = ctx.model(reqs)
    flat_reqs = []
    for idx, case in enumerate(cases):
        try:
            out = run_impl(case)
        except Exception as exc:  # the harness stand-ins broke: infrastructure, not a verdict
            from harness import common
            import traceback
            raise common.InfraError("real-engine driver raised on %s: %s" % (case, traceback.format_exc()[-1500:]))
        tags = ["retries:%s" % case["cfg"].get("retries"), "stopped" if out["stopped"] else "script-ended-first",
                "cause:%s" % out["cause"]]
        tags += ["cfg:" + k for k in ("dieAfter", "noProd", "alwaysNew", "preOutput") if case["cfg"].get(k)]
        tags += ["slot:%s:%s" % (s, e) for s, e in set(events_in_order(case))]
        if any(i["error"] for i in out["info"]):
            tags.append("action-raised:" + [i["error"] for i in out["info"] if i["error"]][0])
        tags.append("launches:%d" % min(len(out["execs"]), 6))
        ctx.case(case, nontrivial=nontrivial(case, out), tags=tags)
        for what, detail in oracle(case, out):
            full = {"detail": detail, "snaps": out["snaps"], "execs": out["execs"],
                    "cause": out["cause"]} | (detail if isinstance(detail, dict) else {})
            # failures accepted by a classifier are recorded at most 25 times each (then only counted), so that
            # the framework's cap on recorded failures can never hide a different violation behind them
            cl = [n for n, fn in CLASSIFIERS.items() if fn(what, case, full)]
            if cl:
                k = "classified:" + cl[0]
                ctx.tag(k)
                if ctx.tags[k] > 25:
                    continue
            ctx.fail(what, case, full)
        if mouts is not None:
            m = mouts[idx]
            ctx.compare("per-poll state (launches, retries, cancel, alive, kernelCompleted, suicide, consume, "
                        "finished) == Repeat.runScript", case,
                        {"snaps": m["snaps"], "stopped": m["stopped"]},
                        {"snaps": out["snaps"], "stopped": out["stopped"]})
            ctx.compare("each launch began after the final producer output? == Repeat.execLog", case,
                        [e["afterFinal"] for e in m["execs"]], [e["afterFinal"] for e in out["execs"]])
            mc = m["cause"]
            ic = {"self": "self", "external": "external", "killDelay": "killDelay", None: None}.get(out["cause"], out["cause"])
            ctx.compare("who set the cancel event", case,
                        "self" if mc in ("success", "retries") else mc, ic)
            flat_reqs.append(({"op": "flat", "cfg": model_cfg(case["cfg"]), "ops": m["flat"]}, m, case))
    if mouts is not None and flat_reqs:
        fouts = ctx.model([r for r, _m, _c in flat_reqs])
        for (_r, m, case), f in zip(flat_reqs, fouts):
            ctx.compare("Repeat.runScript == Repeat.exec on the flattened history", case,
                        {k: m[k] for k in ("final", "execs", "cause", "pollsFin", "books", "stopped")},
                        {k: f[k] for k in ("final", "execs", "cause", "pollsFin", "books", "stopped")})


def run(ctx):
    ctx.rule = ("cases = scripted histories of the real RepeatingEngine under the real CreateMonitor loop: configuration "
                "(repeatRetries None/0/1/2/3/5, kill delay, no producers, non-repeating producer, output before run()) "
                "x 3..21 polls with task outcomes ok/fail/generator-raises and environment events (producers finished, "
                "new output, external kill, kill-delay timer, >20 s wait) placed at 6 interleaving points of each poll; "
                "non-trivial = the producers-finished notification occurs, at least one task is launched and at least "
                "one event lands inside a poll (s1-s4); distinct by canonical JSON of the case.")
    ctx.assumptions = [
        "producers write no output after the producers-finished notification (generator never schedules it)",
        "time is logical: the fake clock advances 1 ms per datetime.now() of engine.py; '>20 s since last launch' "
        "only through the scripted 'adv' event; schedule_next_instance is called but its timing decision is "
        "replaced by the script",
        "a stop caused by the configured kill delay is treated like a cancellation from outside for the "
        "'final output observed' clause (it is a forced stop by configuration)",
    ]
    ctx.trusted.append("C13: stub Job/Task, fake clock, synchronous stand-in for the monitor thread and rx schedulers "
                       "(harness/c13.py); restart of a repeating engine (lastExecution), optimizer, real timers "
                       "and threads are not modelled")
    ctx.classifiers = CLASSIFIERS
    ctx.shrinker = shrink
    rng = ctx.rng
    n = 1500 if ctx.tier == "quick" else 25000
    cases = [copy.deepcopy(c) for c in CORPUS] + [gen_case(rng, ctx.tier) for _ in range(n)]
    check_cases(ctx, cases)


def replay(ctx, doc):
    ctx.classifiers = CLASSIFIERS
    case = doc.get("input") or doc["no_longer_checks"][-1]["input"]
    check_cases(ctx, [case])
