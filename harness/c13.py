"""C13 - A repeating observer sees its producers' final output and then stops.

Implementation under test (real code, in-process, single-threaded):
  the real `RepeatingEngine` (`run`, its closures `EngineTaskController` / `schedule_next_instance`,
  `notify_all_producers_finished`, `exitReason`, `isAlive`, `kill`) driven by the real poll loop of
  `monitor.CreateMonitor` (its thread is replaced by a synchronous call, `time.sleep` by a no-op), with a stub
  Job, a fake Task, a fake clock standing in for the module-level `datetime` of engine.py and a captured
  `reactivex.timer` (kill delay).  Scripted environment events (producers finished, new producer output,
  external kill, kill-delay timer, >20 s pass) fire at the interleaving points of a poll:
     gap  between two polls, before the monitor looks at the cancel event
     s0   after that, before the action body starts
     s1   right after the output check (`producersHaveOutputSinceDate` returns)
     s2   after `producers_done_when_i_started` was read, before `launch_time` is read
     s3   while the task runs / inside a raising task generator
     s4   after the task, before the stop/retry bookkeeping
Producers of the observer: the stub Job has a LIST of producer instances (one per data reference: several
entries may stand for one component), each in the observer's stage or in an earlier one, repeating or not, each
with its own output directory whose files appear by the scripted events `out:<component>` (or predate run():
`pre`).  The real `Engine.canConsume` and the real `Job.producersHaveOutputSinceDate` (called on the stub) read
them.  Ground truth for the oracle: at every launch, which same-stage producers had no file yet.
Two kinds of cases:
  direct    the harness itself calls `notify_all_producers_finished` (event `fin`);
  composed  (`world` in the case) the notification is delivered by the real `ComponentState.stageIn`
            subscription: real `ComponentState` objects (real Jobs of an experiment built from generated FlowIR,
            real `producers` / `notifyFinished` / `_notifyProducersFinished`) for the observer - whose engine
            is the real RepeatingEngine above - and for every other component (fake engines of
            harness/detsim.py extended by the rest of the public observable surface of the real Engine:
            notifyFinished / state / stateDictionary / emit_now, engine-level finished fires on EVERY task
            exit); events `stagein`, `pf:k` (component k is finished by the controller: FINISHED / FAILED /
            SHUTDOWN), `px:k` (engine of k exits resp. is restarted, k stays alive: exit -> restart -> final
            exit histories).
  dir       (`dir` in the case) a direct case whose producers are REAL Jobs of a real experiment built from generated
            FlowIR (local backend): events `stage:k` = the real Job.stageIn of producer k (direct references
            data/params.txt:copy, input/x.dat:link, a reference stage0.up/seed.txt:copy to a component of an earlier
            stage, both, nothing), `out:k` = its task writes its own file into the real directory (mtime = virtual
            clock); the observer is the real Job: real Engine.canConsume / Job.producersHaveOutputSinceDate /
            WorkingDirectory.output decide the launches.
Notification before run(): `pre: ["fin"]` of a direct case, `stagein` with all producers over of a composed case.
Never-ending tasks (outcome `hang`): Task.wait() returns only after Task.kill(); while such a task runs the harness
delivers the remaining events of the turn (s3, s4) and then drives every pending timer (virtual time: the kill delay
expires); if the task is still not killed the engine thread is blocked for ever and the script ends.  Ground truth
`expired`: a kill delay is configured, all producers have finished and the delay has elapsed.
An exception that escapes from the real code while the harness drives it is an oracle failure of the case
(`real-code-raises-<where>-<Exception>`), not a harness crash.
Model: lean/St4sd/Model/Repeat.lean + RepeatSub.lean + RepeatDir.lean via drv-c13 (repaired behaviour: guardNone +
killOnSuicidePoll + killAfterLaunch).  Theorems: lean/St4sd/Props/C13.lean.  Witnesses: lean/St4sd/Witness/C13.lean.
"""
from __future__ import annotations

import copy
import datetime as _dt
import json
import logging
import os
import shutil
import tempfile
import threading
import types

SLOTS = ("gap", "s0", "s1", "s2", "s3", "s4")
INNER = ("s1", "s2", "s3", "s4")
DEFAULT_RETRIES = 3


class StopScript(BaseException):
    pass


class RealCodeRaised(BaseException):
    """the code under test raised while the harness was driving it (BaseException: passes through the
    `except Exception` handlers of the monitor loop and of rx on its way out of the case)"""

    def __init__(self, where, exc, tb):
        BaseException.__init__(self, "%s: %s: %s" % (where, type(exc).__name__, exc))
        self.where = where
        self.exc_name = type(exc).__name__
        self.message = str(exc)[:300]
        self.tb = tb

    def slug(self):
        return "real-code-raises-%s-%s" % (self.where, self.exc_name)


def real(where, fn, *a, **k):
    """call into the code under test"""
    try:
        return fn(*a, **k)
    except (StopScript, RealCodeRaised):
        raise
    except Exception as exc:
        import traceback
        raise RealCodeRaised(where, exc, traceback.format_exc()[-1800:])


# ----------------------------------------------------------------------------------------
# case format
# ----------------------------------------------------------------------------------------
# direct   cfg = {"retries", "dieAfter", "prods": [{"id", "same", "rep"}, ...], "pre": [component, ...]}
# composed cfg = {"retries", "dieAfter", "rep": [component, ...], "pre": [component, ...]}; the producer list is
#          one entry per reference of the world (same = the component is in the observer's stage)
# events   "out:<component>" - the component writes a file into its working directory

def prods_of(case):
    cfg = case["cfg"]
    w = case.get("world")
    if w is None:
        return [dict(p) for p in cfg.get("prods", [])]
    rep = set(cfg.get("rep", []))
    return [{"id": k, "same": w["comps"][k][0] == w["stage"], "rep": k in rep} for k, _suffix in w["refs"]]


def normalise(case):
    """cases written before the producer list existed (one same-stage producer: noProd / alwaysNew /
    preOutput, event `out`) in today's format"""
    cfg = case["cfg"]
    old = any(k in cfg for k in ("noProd", "alwaysNew", "preOutput")) or \
        ("world" not in case and "prods" not in cfg)
    if not old:
        return case
    case = copy.deepcopy(case)
    cfg = case["cfg"]
    always, pre, nop = bool(cfg.pop("alwaysNew", False)), bool(cfg.pop("preOutput", False)), bool(cfg.pop("noProd", False))
    w = case.get("world")
    if w is None:
        cfg["prods"] = [] if nop else [{"id": 0, "same": True, "rep": not always}]
        cfg["pre"] = [0] if pre and not nop else []
        target = 0
    else:
        ids = sorted({k for k, _s in w["refs"]})
        cfg["rep"] = [] if always else ids
        cfg["pre"] = ids if pre else []
        same = [k for k in ids if w["comps"][k][0] == w["stage"]]
        target = (same or ids or [0])[0]
    for it in case["iters"]:
        for sl in SLOTS:
            if sl in it:
                it[sl] = ["out:%d" % target if e == "out" else e for e in it[sl]]
    return case


class Clock:
    def __init__(self):
        self.t = _dt.datetime(2030, 1, 1)
        self.hook = None

    def tick(self, ms=1):
        self.t = self.t + _dt.timedelta(milliseconds=ms)
        return self.t

    def now(self):
        if self.hook is not None:
            self.hook()
        return self.tick()


def fake_datetime_module(clock):
    class _DT(_dt.datetime):
        @classmethod
        def now(cls, tz=None):
            return clock.now()
    return types.SimpleNamespace(datetime=_DT, timedelta=_dt.timedelta, date=_dt.date)


class SyncThread:
    def __init__(self, target=None, name=None, **kw):
        self.target = target

    def start(self):
        self.target()



# ----------------------------------------------------------------------------------------
# worlds: real experiments (FlowIR -> Jobs -> graph) for the composed cases
# ----------------------------------------------------------------------------------------
# world = {"comps": [[stage, name, finish-kind], ...], "stage": observer's stage,
#          "refs": [[index into comps, suffix], ...]}          (the observer's references, in order)

FLOWIR_HEAD = """
blueprint:
  default:
    global:
      resourceManager:
        config:
          backend: simulator
      command:
        executable: fake_executable
components:
"""
SUFFIXES = (":ref", "/out.txt:ref", "/data/x.dat:ref", ":output")
FINISH_KINDS = ("ok", "fail", "shutdown")
OBS = "Obs"


def comp_ref(world, k):
    return "stage%d.%s" % (world["comps"][k][0], world["comps"][k][1])


def world_flowir(world):
    out = FLOWIR_HEAD
    for st, nm, _kind in world["comps"]:
        out += "- name: %s\n  stage: %d\n" % (nm, st)
    refs = [comp_ref(world, k) + suffix for k, suffix in world["refs"]]
    out += "- name: %s\n  stage: %d\n  command:\n    arguments: %s\n" % (
        OBS, world["stage"], " ".join(refs) if refs else "x")
    if refs:
        out += "  references:\n" + "".join("  - %s\n" % r for r in refs)
    out += "  workflowAttributes:\n    repeatInterval: 5\n"
    return out


class Worlds:
    """experiments by world (built once, the ComponentStates are made afresh for every case)"""
    dir = None
    cache = {}

    @classmethod
    def get(cls, world):
        from harness import detsim
        detsim.install()
        import tests.utils as TU
        key = json.dumps(world, sort_keys=True)
        if key not in cls.cache:
            if cls.dir is None:
                cls.dir = tempfile.mkdtemp(prefix="c13-worlds-")
            cwd = os.getcwd()
            prev = logging.root.manager.disable
            logging.disable(logging.CRITICAL)
            try:
                cls.cache[key] = TU.experiment_from_flowir(world_flowir(world), cls.dir, checkExecutables=False)
            finally:
                logging.disable(prev)
                os.chdir(cwd)
        return cls.cache[key]

    @classmethod
    def cleanup(cls):
        cls.cache = {}
        if cls.dir is not None:
            shutil.rmtree(cls.dir, ignore_errors=True)
            cls.dir = None


def expected_producers(world):
    """one entry per reference of the observer, in order (what `ComponentState.producers` is)"""
    return [k for k, _suffix in world["refs"]]


def producer_engine_class(env):
    """fake engine of a producer component: detsim's FakeEngine plus the rest of the public observable surface of
    the real Engine that workflow.py / control.py may subscribe to, with the real semantics: `stateUpdates` emits
    `isAlive: False` on EVERY task exit (also one the controller answers with a restart) and completes after
    shutdown(); `notifyFinished` is `stateUpdates | first_or_default(isAlive is False, ({}, self))`."""
    if "C13ProducerEngine" in env:
        return env["C13ProducerEngine"]
    import reactivex.operators as op

    class ProducerEngine(env["FakeEngine"]):
        @property
        def state(self):
            return self._su

        @property
        def notifyFinished(self):
            return self.stateUpdates.pipe(
                op.first_or_default(lambda x: x[0].get("isAlive") is False, ({}, self)))

        @property
        def stateDictionary(self):
            return {"sourceType": "engine", "reference": self.job.reference, "isAlive": self.isAlive(),
                    "isShutdown": self.isShutdown, "engineExitReason": self.exitReason(),
                    "engineExitCode": self.returncode(), "backend": "simulator"}

        def emit_now(self, what=None):
            self._su.on_next((dict(what or {}), self))

        def shutdown(self):
            env["FakeEngine"].shutdown(self)
            self._su.on_completed()          # "completes after the last update after the engine is killed"

        @property
        def consume(self):
            return True

        def canConsume(self, delay=0, force=False):
            return True

        lastLaunched = None
        taskGenerator = None
        cancelMonitorEvent = None
    env["C13ProducerEngine"] = ProducerEngine
    return ProducerEngine


class _Swallow(logging.Handler):
    """formats every record (lazily formatted arguments are evaluated as with a real handler), keeps nothing"""

    def emit(self, record):
        try:
            record.getMessage()
        except Exception:  # noqa
            pass


def ambient_logging(level):
    """ambient setting a user may change: the log level (None: logging disabled, the default of this harness)"""
    if not level:
        return lambda: None
    root = logging.getLogger()
    prev = (logging.root.manager.disable, root.level, list(root.handlers))
    logging.disable(logging.NOTSET)
    root.handlers[:] = [_Swallow()]
    root.setLevel({"debug": 1, "info": logging.INFO, "warning": logging.WARNING}[level])

    def restore():
        root.handlers[:] = prev[2]
        root.setLevel(prev[1])
        logging.disable(prev[0])
    return restore


# ----------------------------------------------------------------------------------------
# dir cases: the producers are REAL Jobs of a real experiment (local backend) that stage files into their working
# directories by direct references (data/params.txt:copy, input/x.dat:link), by a reference to a component of an
# earlier stage (stage0.up/seed.txt:copy), both or nothing; the observer is the real Job of that experiment
# ----------------------------------------------------------------------------------------
# case["dir"] = {"<producer id>": {"direct": ["copy", "link"], "comp": bool}, ...}; events `stage:<id>` (the real
# Job.stageIn of the producer), `out:<id>` (its task writes its own file r<id>.txt into the real directory)

DIR_FILES = {"params.txt": 1, "x.dat": 2, "seed.txt": 3}


def file_number(name):
    if name in DIR_FILES:
        return DIR_FILES[name]
    if name.startswith("r") and name.endswith(".txt") and name[1:-4].isdigit():
        return 10 + int(name[1:-4])
    return 1000 + sum(ord(c) for c in name)          # something nobody asked for: shows up in the comparison


def dir_spec(case, k):
    return case["dir"].get(str(k), {"direct": [], "comp": False})


def dir_flowir(case):
    cfg = case["cfg"]
    out = "components:\n- name: up\n  stage: 0\n  command:\n    executable: echo\n    arguments: seed\n"
    out += "- name: mid\n  stage: 1\n  command:\n    executable: echo\n    arguments: mid\n"      # no empty stage
    seen = []
    obs_refs = []
    for p in cfg["prods"]:
        k = p["id"]
        st = 2 if p["same"] else 1
        obs_refs.append("stage%d.P%d:ref" % (st, k))
        if k in seen:
            raise ValueError("dir cases: one entry per producer")
        seen.append(k)
        spec = dir_spec(case, k)
        refs = []
        if "copy" in spec["direct"]:
            refs.append("data/params.txt:copy")
        if "link" in spec["direct"]:
            refs.append("input/x.dat:link")
        if spec["comp"]:
            refs.append("stage0.up/seed.txt:copy")
        out += "- name: P%d\n  stage: %d\n  command:\n    executable: cat\n    arguments: x\n" % (k, st)
        if refs:
            out += "  references:\n" + "".join("  - %s\n" % r for r in refs)
        if p["rep"]:
            out += "  workflowAttributes:\n    repeatInterval: 5\n"
    out += "- name: %s\n  stage: 2\n  command:\n    executable: ls\n    arguments: %s\n" % (
        OBS, " ".join(obs_refs) if obs_refs else "x")
    if obs_refs:
        out += "  references:\n" + "".join("  - %s\n" % r for r in obs_refs)
    if cfg.get("dieAfter"):
        out += "  variables:\n    kill-after-producers-done-delay: \"60.0\"\n"
    out += "  workflowAttributes:\n    repeatInterval: 5\n"
    if cfg.get("retries") is not None:
        out += "    repeatRetries: %d\n" % cfg["retries"]
    return out


class Drv:
    """Runs one scripted case on the real RepeatingEngine."""

    def __init__(self, case):
        self.case = case
        self.cfg = case["cfg"]
        self.clock = Clock()
        self.prods = prods_of(case)     # the observer's producer instances (one per data reference)
        self.prod_ids = {p["id"] for p in self.prods}
        self.out_time = {}      # component -> time of its newest file
        self.first_out = {}     # component -> time of its first file
        self.lastOut = None     # time of the newest file of all producers
        self.anyOut = False
        self.timers = []
        self.launches = []      # [time, outcome, same-stage producers without output at launch, task]
        self.trace = []
        self.task = None
        self.it = None
        self.fired = set()
        self.seen = set()
        self.in_action = False
        self.in_event = False
        self.cancel_cause = None
        self.die_fired = False
        self.kill_fired = False
        # ground truth about the kill delay (virtual time): a delay is configured, ALL producers have finished and
        # the time of the delay has passed since (a `die` event / every pending timer driven while a never-ending
        # task was running)
        self.expired = False
        self.hung = False       # the engine thread waits for ever for a task that nobody killed
        self.thread = threading.get_ident()
        # ground truth about the producers (kept by the harness, independent of the code under test)
        self.world = case.get("world")
        self.truth_fin = False      # direct cases: the `fin` event was delivered
        self.staged = False         # composed cases: the observer's stageIn() was called
        self.finished = set()       # composed cases: components the controller has finished
        self.sublog = []            # composed cases: [event, engine's producers-finished flag after it]
        self.early = None           # first event after which the flag was set although truth() is False
        self.comps = None
        self.obs = None
        self.producers_seen = None
        # dir cases
        self.dir = case.get("dir")
        self.dirjobs = {}       # producer id -> real Job
        self.dirtmp = None
        self.staged_in = {}     # producer id -> names of the files its stage-in put into its directory
        self.dirlog = {}        # producer id -> [[op, output names, input names] ...] after every stage-in / write

    def truth(self):
        """have ALL producers of the observer finished (and was the observer staged in)"""
        if self.world is None:
            return self.truth_fin
        return self.staged and all(k in self.finished for k in expected_producers(self.world))

    # -- composed cases: real ComponentStates ------------------------------------------------
    def make_components(self, E):
        from harness import detsim
        import networkx
        import experiment.runtime.workflow as W
        env = detsim.install()
        exp = Worlds.get(self.world)
        d = self
        n_int, n_eng = len(env["intervals"]), len(env["ENGINES"])
        obs_ref = "stage%d.%s" % (self.world["stage"], OBS)
        prev = E.Engine.__dict__["engineForComponentSpecification"]

        PE = producer_engine_class(env)

        def make(cls, job):
            return d.eng if job.reference == obs_ref else PE(job)
        E.Engine.engineForComponentSpecification = classmethod(make)
        import reactivex
        import reactivex.subject
        made = []

        def recording_interval(*a, **k):
            made.append(reactivex.subject.Subject())
            return made[-1]
        prev_interval, reactivex.interval = reactivex.interval, recording_interval
        try:
            byref = {}
            ticks = {}
            for ref in networkx.topological_sort(exp.graph):       # producers before their consumers
                data = exp.graph.nodes[ref]
                stage = exp._stages[data["stageIndex"]]
                job = stage.jobWithName(data["componentSpecification"].identification.componentName)
                byref[ref] = real("ComponentState", W.ComponentState, job, exp.experimentGraph, create_engine=True)
                # ComponentState.__init__ makes exactly one reactivex.interval (the 5 s state poll)
                ticks[ref] = made[-1]
        finally:
            reactivex.interval = prev_interval
            E.Engine.engineForComponentSpecification = prev
            del env["intervals"][n_int:]
            del env["ENGINES"][n_eng:]
        self.comps = [byref[comp_ref(self.world, k)] for k in range(len(self.world["comps"]))]
        self.ticks = [ticks[comp_ref(self.world, k)] for k in range(len(self.world["comps"]))]
        self.obs = byref[obs_ref]
        if self.obs.engine is not self.eng:
            raise RuntimeError("observer did not get the engine under test")
        for c in self.comps:
            c.engine.started = True
            # the Controller observes the state of every component from the start (this connects the
            # published state stream, as in the running system)
            real("stateUpdates", lambda c=c: c.stateUpdates.subscribe(on_next=lambda x: None, on_error=lambda x: None))
        self.producers_seen = real("producers", lambda: [p.specification.reference for p in self.obs.producers])

    def finish_component(self, k):
        """what the controller does to a component that is over: FINISHED / FAILED after its engine exited, or
        SHUTDOWN (finish() while running kills the engine, the final state is set once it is gone)"""
        import experiment.model.codes as codes
        if k in self.finished:
            return
        c = self.comps[k]
        e = c.engine
        kind = self.world["comps"][k][2]
        if kind == "shutdown":
            running = e.isAlive()
            real("finish", c.finish, codes.SHUTDOWN_STATE)
            if running:
                real("engine-exit", e.die, codes.exitReasons["Killed"])
        else:
            if e.isAlive():
                real("engine-exit", e.die, codes.exitReasons["Success" if kind == "ok" else "KnownIssue"])
            real("finish", c.finish, codes.FINISHED_STATE if kind == "ok" else codes.FAILED_STATE)
        if real("finish", c.isAlive):
            raise RuntimeError("stand-in controller could not finish %s" % comp_ref(self.world, k))
        self.finished.add(k)
        # the next 5 s state poll of the component: its state stream completes
        real("state-poll", self.ticks[k].on_next, 0)

    def toggle_engine(self, k):
        """the engine of a component exits (component goes to postmortem, stays alive) resp. is restarted"""
        import experiment.model.codes as codes
        if k in self.finished:
            return
        e = self.comps[k].engine
        if e.isAlive():
            # a restartable exit: every subscriber of the engine's streams sees `isAlive: False`
            real("engine-exit", e.die, codes.exitReasons["KnownIssue"])
        else:
            # the controller restarts the component: same engine object, alive again
            e._exit = None
            real("engine-restart", e.stateUpdates.on_next, ({"isAlive": True}, e))
        if not real("engine-exit", self.comps[k].isAlive):
            raise RuntimeError("engine exit made %s not alive" % comp_ref(self.world, k))

    # -- stubs ---------------------------------------------------------------------------
    def prepare_dir(self):
        """dir cases: the real experiment (fresh directories for every run)"""
        from harness import detsim
        detsim.install()
        import tests.utils as TU
        self.dirtmp = tempfile.mkdtemp(prefix="c13-dir-")
        cwd = os.getcwd()
        try:
            with open(os.path.join(self.dirtmp, "x.dat"), "w") as f:
                f.write("x\n")
            exp = TU.experiment_from_flowir(dir_flowir(self.case), self.dirtmp,
                                            extra_files={"data/params.txt": "alpha: 1\n"},
                                            inputs=[os.path.join(self.dirtmp, "x.dat")], checkExecutables=False)
        finally:
            os.chdir(cwd)
        self.exp = exp
        up = exp._stages[0].jobWithName("up")
        with open(os.path.join(up.workingDirectory.path, "seed.txt"), "w") as f:
            f.write("seed\n")
        for p in self.prods:
            self.dirjobs[p["id"]] = exp._stages[2 if p["same"] else 1].jobWithName("P%d" % p["id"])
        self.obsjob = exp._stages[2].jobWithName(OBS)

    def dir_record(self, k, op):
        wd = self.dirjobs[k].workingDirectory
        self.dirlog.setdefault(k, []).append(
            [op, sorted(file_number(os.path.basename(f)) for f in real("WorkingDirectory.output", lambda: wd.output)),
             sorted(file_number(os.path.basename(f)) for f in wd.inputs)])

    def stage_producer(self, k):
        """the Controller stages producer k in: the real Job.stageIn"""
        if k not in self.dirjobs or k in self.staged_in:
            return
        job = self.dirjobs[k]
        path = job.workingDirectory.path
        before = set(os.listdir(path))
        real("Job.stageIn", job.stageIn)
        self.staged_in[k] = sorted(set(os.listdir(path)) - before)
        # the files appear NOW (virtual time)
        t = self.clock.tick().timestamp()
        for n in self.staged_in[k]:
            try:
                os.utime(os.path.join(path, n), (t, t), follow_symlinks=False)
            except (NotImplementedError, OSError):
                pass
        spec = dir_spec(self.case, k)
        self.dir_record(k, ["stagein", [DIR_FILES[{"copy": "params.txt", "link": "x.dat"}[m]] for m in spec["direct"]],
                            [DIR_FILES["seed.txt"]] if spec["comp"] else []])

    def make_real_job(self):
        d = self
        real_job = self.obsjob

        class JobProxy(object):
            """the real observer Job; the output check is bracketed by the interleaving point s1"""

            def __getattr__(self_, name):
                return getattr(real_job, name)

            def producersHaveOutputSinceDate(self_, date):
                d.seen.add("check")
                try:
                    return real_job.producersHaveOutputSinceDate(date)
                finally:
                    d.fire("s1")
        return JobProxy()

    def staged_only(self):
        """ground truth: same-stage producers whose directory holds staged-in files and nothing of their own"""
        return sorted(k for k, names in self.staged_in.items()
                      if names and k not in self.out_time and any(p["id"] == k and p["same"] for p in self.prods))

    def make_job(self):
        d = self
        if d.dir is not None:
            return d.make_real_job()

        import experiment.model.data as D

        class WD:
            path = "/nonexistent-c13/wd"
            directory = "/nonexistent-c13/wd"

        class PWD:
            """working directory of a producer: `output`, `outputSinceDate`, `outputBeforeDate` as
            storage.WorkingDirectory (one file per component, mtime = time of the last `out` event, ctime = time
            of the first one)"""

            def __init__(self_, cid):
                self_.cid = cid
                self_.path = self_.directory = "/nonexistent-c13/p%d" % cid

            @property
            def output(self_):
                return [self_.path + "/f"] if self_.cid in d.out_time else []

            def outputSinceDate(self_, date):
                return [f for f in self_.output if d.out_time[self_.cid] > date]

            def outputBeforeDate(self_, date):
                return [f for f in self_.output if d.first_out[self_.cid] < date]

        stage = 1 if d.world is None else d.world["stage"]

        class Prod:
            def __init__(self_, p):
                self_.stageIndex = stage if p["same"] else stage - 1
                self_.isRepeat = bool(p["rep"])
                self_.identification = self_.reference = "stage%d.P%d" % (self_.stageIndex, p["id"])
                self_.name = "P%d" % p["id"]
                self_.workingDirectory = dirs.setdefault(p["id"], PWD(p["id"]))

        dirs = {}
        instances = [Prod(p) for p in d.prods]
        retries = d.cfg.get("retries")

        class Job:
            reference = "stage%d.Obs" % stage
            identification = "stage%d.Obs" % stage
            type = "local"
            isRepeat = True
            stageIndex = stage
            name = "Obs"
            executable = "x"
            arguments = ""
            workflowAttributes = {"repeatRetries": retries, "optimizer": {"disable": True}}
            flowir_description = {"variables": ({"kill-after-producers-done-delay": "60.0"}
                                                if d.cfg.get("dieAfter") else {})}
            workingDirectory = WD()

            @property
            def producerInstances(self_):
                return list(instances)

            def repeatInterval(self_):
                return 30.0

            def producersHaveOutputSinceDate(self_, date):
                # the real Job.producersHaveOutputSinceDate on the stub (it reads producerInstances, isRepeat
                # and workingDirectory.outputSinceDate only)
                d.seen.add("check")
                try:
                    return D.Job.producersHaveOutputSinceDate(self_, date)
                finally:
                    d.fire("s1")
        return Job()

    def partial_output(self):
        """some same-stage producers have output, others not (and is the last-listed one among those that have)"""
        same = [p["id"] for p in self.prods if p["same"]]
        have = [k for k in same if k in self.out_time]
        if not have or len(have) == len(same):
            return None
        return "last-has" if same[-1] in have else "last-has-not"

    def missing_now(self):
        """ground truth: the same-stage producer instances that have no output at this moment"""
        return sorted({p["id"] for p in self.prods if p["same"] and p["id"] not in self.out_time})

    def gen(self, job, outputFile=None, errorFile=None):
        d = self
        self.seen.add("gen")
        out = self.it.get("outcome", "ok")
        rec = [self.eng.lastLaunched, out, self.missing_now(), None]
        self.launches.append(rec)
        if out == "raise":
            self.fire("s3")
            self.seen.add("genend")
            raise RuntimeError("scripted launch failure")

        class PI:
            def getElements(self_):
                return {}

        class Task:
            killed = False
            done = False
            schedulerId = "1"
            performanceInfo = PI()
            status = "finished"

            def wait(self_):
                d.fire("s3")
                if out == "hang":
                    # a task that never ends by itself: whatever else happens during this turn happens while it runs
                    d.fire("s4")
                if out == "hang" and not self_.killed:
                    # ... and then virtual time passes, every pending timer expires
                    d.drive_timers()
                    if not self_.killed:
                        d.hung = True           # nothing is left that could ever end the task
                        d.seen.add("genend")
                        raise StopScript()
                self_.done = True
                d.seen.add("genend")

            def kill(self_):
                if not self_.done:
                    self_.killed = True

            def isAlive(self_):
                return not self_.done

            @property
            def returncode(self_):
                if self_.killed:
                    return -9
                return {"ok": 0, "fail": 1, "hang": None}[out]

            @property
            def exitReason(self_):
                if self_.killed:
                    return "Killed"
                return {"ok": "Success", "fail": "KnownIssue", "hang": None}[out]
        self.task = Task()
        rec[3] = self.task
        return self.task

    # -- events --------------------------------------------------------------------------
    def ev(self, e):
        self.trace.append(e)
        before = self.eng.cancelMonitorEvent.is_set()
        self.in_event = True
        try:
            if e == "fin":
                self.truth_fin = True
                real("notify_all_producers_finished", self.eng.notify_all_producers_finished)
            elif e == "stagein":
                self.staged = True
                real("stageIn", self.obs.stageIn, stageData=False)
            elif e.startswith("pf:"):
                self.finish_component(int(e[3:]))
            elif e.startswith("px:"):
                self.toggle_engine(int(e[3:]))
            elif e.startswith("out:"):
                self.output(int(e[4:]))
            elif e.startswith("stage:"):
                self.stage_producer(int(e[6:]))
            elif e == "kill":
                self.kill_fired = True
                real("kill", self.eng.kill)
            elif e == "die":
                if self.cfg.get("dieAfter") and self.truth():
                    self.expired = True
                if self.timers:
                    self.die_fired = True
                    real("kill-delay-timer", self.timers.pop(0).on_completed)
            elif e == "adv":
                self.clock.tick(1000 * 1000)
            else:
                raise ValueError(e)
        finally:
            self.in_event = False
        flag = bool(self.eng._producers_are_finished)
        if e == "stagein" or e[:3] in ("pf:", "px:"):
            self.sublog.append([e, flag])
        if flag and self.early is None and not self.truth():
            self.early = {"after_event": e, "events_so_far": len(self.trace)}
        if not before and self.eng.cancelMonitorEvent.is_set():
            self.cancel_cause = {"kill": "external", "die": "killDelay"}.get(e, "event:" + e)

    def drive_timers(self):
        """virtual time passes until no timer is pending any more"""
        self.ev("die")
        while self.timers:
            self.ev("die")

    def output(self, cid):
        """component `cid` writes a file (of interest to the observer only if it is one of its producers)"""
        if cid not in self.prod_ids:
            return
        if self.dir is not None:
            self.stage_producer(cid)            # a task runs in a directory that was staged in
        t = self.clock.tick()
        if self.dir is not None:
            path = os.path.join(self.dirjobs[cid].workingDirectory.path, "r%d.txt" % cid)
            with open(path, "a") as f:
                f.write("%s\n" % t)
            os.utime(path, (t.timestamp(), t.timestamp()))
            self.dir_record(cid, ["write", 10 + cid])
        self.out_time[cid] = t
        self.first_out.setdefault(cid, t)
        self.lastOut = t
        self.anyOut = True

    def fire(self, slot):
        it = self.it
        if it is None or self.hung:
            return
        key = (id(it), slot)
        if key in self.fired:
            return
        self.fired.add(key)
        hook, self.clock.hook = self.clock.hook, None
        try:
            for e in it.get(slot, []):
                self.ev(e)
        finally:
            self.clock.hook = hook

    def on_now(self):
        """called at the start of every `datetime.datetime.now()` of engine.py during an action"""
        if self.it is None or not self.in_action or self.in_event or threading.get_ident() != self.thread:
            return
        s = self.seen
        if "n2" not in s:
            if "check" not in s:
                if not self.fin_at_begin:
                    return           # some other clock read before the output check
                if "n1" not in s:
                    s.add("n1")      # the `time_waiting` read of the 20 s override
                    return
            s.add("n2")              # launch_time (first clock read after the output check / the override)
            self.fire("s1")          # (the output check was skipped: waited too long)
            self.fire("s2")
            return
        if "gen" in s and "genend" not in s:
            return                   # state emission while the task is being launched
        self.fire("s3")
        self.fire("s4")

    def snapshot(self):
        e = self.eng
        return {"launches": len(self.launches), "retries": e._stateDict["repeatRetries"],
                "cancel": e.cancelMonitorEvent.is_set(), "alive": bool(real("isAlive", e.isAlive)),
                "kc": bool(e.kernelCompleted), "suicide": bool(e._suicide), "consume": bool(e._consume),
                "fin": bool(e._producers_are_finished)}

    def run(self):
        import reactivex
        import reactivex.subject
        import reactivex.scheduler
        import experiment.runtime.engine as E
        import experiment.runtime.monitor as M
        d = self
        imm = reactivex.scheduler.ImmediateScheduler()
        saved = (E.datetime, reactivex.interval, reactivex.timer, M.CreateMonitor, M.threading, M.time,
                 E.Engine.enginePoolScheduler, E.Engine.triggerPoolScheduler, E.Engine.taskPoolScheduler)
        saved_tps = reactivex.scheduler.ThreadPoolScheduler
        # Engine._create_state_updates serialises the state emissions on a private 1-thread pool: keep them
        # on the calling thread (a worker thread would read the fake clock at arbitrary moments)
        reactivex.scheduler.ThreadPoolScheduler = lambda *a, **k: imm
        E.datetime = fake_datetime_module(self.clock)
        reactivex.interval = lambda *a, **k: reactivex.never()

        def fake_timer(*a, **k):
            s = reactivex.subject.Subject()
            d.timers.append(s)
            return s
        reactivex.timer = fake_timer
        E.Engine.enginePoolScheduler = imm
        E.Engine.triggerPoolScheduler = imm
        E.Engine.taskPoolScheduler = imm
        real_create = saved[3]
        self.snaps = []
        self.info = []
        iters = self.case["iters"]
        state = {"i": 0}

        def my_create(interval, action, cancelEvent=None, lastAction=True, name=None, **kw):
            def w_interval(seconds):
                if state["i"] >= len(iters):
                    raise StopScript()
                d.it = iters[state["i"]]
                d.fire("gap")
                try:
                    interval(seconds)    # exercise the real schedule_next_instance; its timing decision is
                except Exception:        # replaced by the script (time is logical)
                    pass
                return True

            def w_action(last):
                if state["i"] >= len(iters):
                    raise StopScript()
                d.it = iters[state["i"]]
                d.fire("gap")
                d.seen = set()
                d.fire("s0")
                d.fin_at_begin = bool(d.eng._producers_are_finished)
                info = {"last": bool(last), "fin_at_begin": d.fin_at_begin, "truth_at_begin": d.truth(),
                        "suicide_at_begin": bool(d.eng._suicide), "expired_at_begin": d.expired,
                        "cancel_at_begin": d.eng.cancelMonitorEvent.is_set(), "error": None,
                        "partial": d.partial_output(), "staged_only": d.staged_only()}
                nl = len(d.launches)
                d.in_action = True
                d.clock.hook = d.on_now
                try:
                    action(last)
                except Exception as exc:
                    info["error"] = type(exc).__name__
                    raise
                finally:
                    d.clock.hook = None
                    d.in_action = False
                    cancel_now = d.eng.cancelMonitorEvent.is_set()
                    if cancel_now and d.cancel_cause is None:
                        # set by the action itself
                        d.cancel_cause = "killDelay" if d.eng._suicide else "self"
                        info["self_stop_fin"] = bool(d.eng._producers_are_finished)
                        info["self_stop_truth"] = d.truth()
                    for s in INNER:
                        d.fire(s)
                    info["executed"] = len(d.launches) > nl
                    if info["executed"]:
                        rec = d.launches[-1]
                        info["rc0"] = rec[3] is not None and rec[3].returncode == 0
                    info["cancel_after"] = cancel_now
                    d.info.append(info)
                    d.snaps.append(d.snapshot())
                    state["i"] += 1
            return real_create(w_interval, w_action, cancelEvent, lastAction=lastAction, name=name, **kw)
        M.CreateMonitor = my_create
        M.threading = types.SimpleNamespace(Thread=SyncThread, Event=threading.Event, Lock=threading.Lock,
                                            current_thread=threading.current_thread, Timer=threading.Timer)
        M.time = types.SimpleNamespace(sleep=lambda s: None)
        self.monitor_exited = False
        prev_disable = logging.root.manager.disable
        logging.disable(logging.CRITICAL)
        restore_logging = ambient_logging(self.case.get("log"))
        try:
            if self.dir is not None:
                self.prepare_dir()
            for cid in self.cfg.get("pre", []):
                self.output(cid)
            job = self.make_job()
            self.eng = real("RepeatingEngine", E.RepeatingEngine, job, self.gen)
            if self.world is not None:
                # the controller: components are created, earlier stages / quick producers are over,
                # the observer is staged in, then run
                self.make_components(E)
            # events that precede run() (composed: `stagein` notifies at once when no producer is alive; direct:
            # `fin` - the notification reaches an engine that has not been started; `stage:k` - producer k is staged in)
            for e in self.case.get("pre", []):
                self.ev(e)
            # what run() does first; the events of the first `gap` come after it
            real("prime", self.eng._prime)
            if iters:
                self.it = iters[0]
                self.fire("gap")
            try:
                real("run", self.eng.run)
                self.monitor_exited = True
            except StopScript:
                pass
        finally:
            restore_logging()
            logging.disable(prev_disable)
            if self.dirtmp is not None:
                shutil.rmtree(self.dirtmp, ignore_errors=True)
            reactivex.scheduler.ThreadPoolScheduler = saved_tps
            (E.datetime, reactivex.interval, reactivex.timer, M.CreateMonitor, M.threading, M.time,
             E.Engine.enginePoolScheduler, E.Engine.triggerPoolScheduler, E.Engine.taskPoolScheduler) = saved
        fo = self.lastOut
        execs = [{"afterFinal": (fo is None or t > fo), "avail": not m, "started": task is not None}
                 for t, _o, m, task in self.launches]
        return {"snaps": self.snaps, "execs": execs, "stopped": self.monitor_exited, "final": self.snapshot(),
                "info": self.info, "cause": self.cancel_cause,
                "missing": [m for _t, _o, m, _k in self.launches], "any_output": self.anyOut,
                "sublog": self.sublog, "early": self.early, "truth_end": self.truth(),
                "flag_end": bool(self.eng._producers_are_finished), "producers": self.producers_seen,
                "hung": self.hung, "expired": self.expired,
                "dirlog": {str(k): v for k, v in sorted(self.dirlog.items())},
                "staged_in": {str(k): v for k, v in sorted(self.staged_in.items())},
                "tasks_alive": sum(1 for _t, _o, _m, k in self.launches if k is not None and k.isAlive())}


# ----------------------------------------------------------------------------------------
# oracle: the property text evaluated on the real engine's observable behaviour
# ----------------------------------------------------------------------------------------

def oracle(case, out):
    """returns list of (slug, detail)"""
    fails = []
    cfg = case["cfg"]
    retries = cfg.get("retries")
    retries = DEFAULT_RETRIES if retries is None else retries
    # 1. never executes before there is producer output it can consume: at the moment of a launch every producer
    #    of the observer's own stage has written something (the harness's own record of the `out` events; producers
    #    of earlier stages are over, whatever they left is what there is to consume)
    for i, m in enumerate(out["missing"]):
        if m:
            fails.append(("executed-before-consumable-output",
                          {"launch": i, "same_stage_producers_without_output": m,
                           "their_directories_held_only_staged_inputs":
                               {str(k): out.get("staged_in", {}).get(str(k)) for k in m}}))
            break
    # 2. a stop decided by the engine itself (not an external kill, not the kill delay) comes only after ALL
    #    producers finished (the harness's own record: the `fin` event of a direct case; stage-in and the finish
    #    of every referenced component of a composed case) and after an execution that began after the
    #    producers' last output
    if out["cause"] == "self":
        stop = [i for i in out["info"] if "self_stop_fin" in i][0]
        if not stop.get("self_stop_truth", stop["self_stop_fin"]):
            fails.append(("stopped-before-producers-finished",
                          {"launches": len(out["execs"]), "unfinished_at_end": unfinished_producers(case, out)}))
        elif out["final"]["consume"] and out["any_output"] and not any(e["afterFinal"] for e in out["execs"]):
            fails.append(("stopped-without-observing-final-output",
                          {"launches": len(out["execs"]), "retries": retries}))
    # 2''. "It then stops on its own ...: after the first such execution that succeeds, otherwise when its configured
    #    retries are used up or the configured kill delay expires": a stop decided by the engine itself (not the kill
    #    delay) while retries are LEFT is the stop after a success - the poll that decides it must itself have STARTED
    #    an execution (the task generator returned a task: a launch that raises is an attempt, no execution) that began
    #    after the producers' last output and exited 0.  Whatever an earlier poll left behind does not count.
    if out["cause"] == "self":
        k = [j for j, i in enumerate(out["info"]) if "self_stop_fin" in i][0]
        stop = out["info"][k]
        left = out["snaps"][k]["retries"]
        if stop.get("self_stop_truth", stop["self_stop_fin"]) and left > 0:
            last = out["execs"][-1] if (stop.get("executed") and out["execs"]) else None
            if not (last is not None and last.get("started", True) and last["afterFinal"] and stop.get("rc0")):
                fails.append(("stopped-with-retries-left-without-successful-execution-after-final-output",
                              {"poll": k, "retries_left": left, "launch_in_this_poll": bool(stop.get("executed")),
                               "task_started": None if last is None else last.get("started"),
                               "exit_0": stop.get("rc0"), "launches": len(out["execs"])}))
    # 2'. the notification reaches the engine when all producers are finished and not before
    if out.get("early") is not None:
        fails.append(("notified-before-all-producers-finished",
                      dict(out["early"], unfinished_at_end=unfinished_producers(case, out))))
    if out.get("truth_end") and not out.get("flag_end"):
        fails.append(("all-producers-finished-but-never-notified", {}))
    # 3. bounded: polls that begin with all producers finished; the first success among them stops
    polls = 0
    for k, i in enumerate(out["info"]):
        if i["last"]:
            continue
        if i.get("truth_at_begin", i["fin_at_begin"]):
            polls += 1
            if polls > retries + 1:
                fails.append(("kill-delay-expired-engine-keeps-polling" if i["suicide_at_begin"]
                              else "keeps-polling-after-retries-used-up",
                              {"poll": k, "polls_after_finished": polls, "retries": retries}))
                break
            if i.get("executed") and i.get("rc0") and not i["cancel_after"]:
                fails.append(("success-after-producers-finished-did-not-stop", {"poll": k}))
                break
            if (i["suicide_at_begin"] or i.get("expired_at_begin")) and not i["cancel_after"]:
                fails.append(("kill-delay-expired-engine-keeps-polling", {"poll": k}))
                break
    # 3'. "... or the configured kill delay expires": a kill delay is configured, all producers have finished, the time
    #    of the delay has passed (the harness's own record; it drove every pending timer) and the engine thread still
    #    waits for a task that nobody killed: nothing will ever stop the observer
    #    (an engine that was cancelled from outside before is outside the clause: `kill()` lets the current task finish,
    #    a never-ending one never does - "unless it is cancelled from outside")
    if out.get("hung") and out.get("expired") and out["cause"] != "external":
        fails.append(("kill-delay-expired-task-never-killed",
                      {"launches": len(out["execs"]), "tasks_still_running": out.get("tasks_alive"),
                       "engine_alive": out["final"]["alive"], "engine_cancelled": out["final"]["cancel"],
                       "poll": len(out["info"]) - 1, "engine_noticed_the_expiry": out["final"]["suicide"]}))
    return fails


def unfinished_producers(case, out):
    w = case.get("world")
    if w is None:
        return None
    done = {int(e[3:]) for e, _f in out.get("sublog", []) if e.startswith("pf:")}
    return sorted({comp_ref(w, k) for k in expected_producers(w) if k not in done})


# ----------------------------------------------------------------------------------------
# generator
# ----------------------------------------------------------------------------------------

def gen_prods(rng):
    """the observer's producer instances: 0-4 entries, same / earlier stage, repeating or not, now and then
    two entries for one component"""
    prods = []
    for i in range(rng.choice([0, 1, 1, 1, 2, 2, 2, 3, 3, 4])):
        if prods and rng.random() < 0.15:
            prods.append(dict(rng.choice(prods)))             # another reference to the same component
        else:
            same = rng.random() < 0.75
            prods.append({"id": i, "same": same, "rep": rng.random() < (0.8 if same else 0.3)})
    return prods


def leftover_style(rng, iters, fin_iter):
    """histories in which what an EARLIER poll left behind (its task, its exit code) differs from what happens to the
    first attempts after the producers finished: executions before the notification all succeed (or all fail), the
    first 1-3 launches after it raise / fail / succeed"""
    before = rng.choice(["ok", "ok", "ok", "fail"])
    for it in iters[:max(fin_iter, 0)]:
        it["outcome"] = before
    k = rng.randint(1, 3)
    after = rng.choice(["raise", "raise", "fail", "ok"] if before == "ok" else ["ok", "raise"])
    for it in iters[max(fin_iter, 0):max(fin_iter, 0) + k]:
        it["outcome"] = after


def never_ending_style(rng, cfg, iters, fin_pos):
    """the observer's task never ends by itself (`tail -f`, a monitoring daemon: the use-case of
    kill-after-producers-done-delay): from some poll around the notification on every launch is such a task"""
    if rng.random() >= (0.45 if cfg.get("dieAfter") else 0.04):
        return
    start = 0 if fin_pos is None else max(0, fin_pos[0] + rng.choice([-2, -1, 0, 0, 0, 1, 2]))
    for it in iters[start:]:
        if it.get("outcome") != "raise" or rng.random() < 0.7:
            it["outcome"] = "hang"


def gen_case(rng, tier):
    prods = gen_prods(rng)
    ids = sorted({p["id"] for p in prods})
    same_ids = sorted({p["id"] for p in prods if p["same"]})
    cfg = {"retries": rng.choice([None, 0, 1, 1, 2, 3, 3, 5] if rng.random() < 0.96 else [10, 11]),
           "dieAfter": rng.random() < 0.3,
           "prods": prods,
           "pre": [k for k in ids if rng.random() < (0.15 if k in same_ids else 0.6)]}
    r = DEFAULT_RETRIES if cfg["retries"] is None else cfg["retries"]
    n = rng.randint(3, 9 if tier == "quick" else 16) + r
    iters = [{"outcome": rng.choices(["ok", "fail", "raise"], [5, 3, 2])[0]} for _ in range(n)]
    if rng.random() < 0.15:
        for it in iters:
            it["outcome"] = "raise" if rng.random() < 0.8 else it["outcome"]

    def place(e, lo, hi, slots=SLOTS):
        i = rng.randint(lo, hi)
        s = rng.choice(slots)
        iters[i].setdefault(s, []).append(e)
        return i, SLOTS.index(s)
    # producers finish somewhere in the first part (or never) - or before run() (what ComponentState.stageIn does
    # when no producer is alive at stage-in: all the output there will ever be predates run())
    fin_pos = None
    pre_events = []
    x = rng.random()
    if x < 0.12:
        pre_events = ["fin"]
        fin_pos = (-1, 0)
        cfg["pre"] = [k for k in ids if rng.random() < 0.8]
    elif x < 0.9:
        hi = max(0, n - r - 3)
        fin_pos = place("fin", 0, rng.randint(0, hi))
    if fin_pos is not None and rng.random() < 0.2:
        leftover_style(rng, iters, fin_pos[0])
    # outputs strictly before the notification; every same-stage producer starts writing at a moment of its
    # own (staggered producers) or never writes at all
    writers = [k for k in (same_ids or ids) if rng.random() < 0.85] if not pre_events else []
    outs = []
    for k in writers:
        outs += ["out:%d" % k] * rng.choice([1, 1, 1, 2, 3])
    if len(outs) > 1 and rng.random() < 0.5:
        rng.shuffle(outs)             # else: one producer after the other
    if rng.random() < 0.1:
        outs.append("out:%d" % rng.randint(0, 5))           # some component, maybe no producer at all
    if pre_events:
        outs = []          # notified before run(): whatever output there is predates run() (cfg.pre)
    positions = []
    for _ in outs:
        if fin_pos is None:
            positions.append((rng.randint(0, n - 1), rng.randrange(len(SLOTS)), 1))
        else:
            i = rng.randint(0, fin_pos[0])
            if i == fin_pos[0]:
                si = rng.randint(0, fin_pos[1])
                positions.append((i, si, 0 if si == fin_pos[1] else 1))
            else:
                positions.append((i, rng.randrange(len(SLOTS)), 1))
    positions.sort()
    for e, (i, si, after) in zip(outs, positions):
        lst = iters[i].setdefault(SLOTS[si], [])
        if after:
            lst.append(e)
        else:
            lst.insert(lst.index("fin"), e)          # same slot, just before the notification
    if cfg["dieAfter"] and fin_pos is not None and rng.random() < 0.7:
        i = rng.randint(max(fin_pos[0], 0), min(n - 1, max(fin_pos[0], 0) + 3))
        ss = [s for s in SLOTS if (i, SLOTS.index(s)) > fin_pos] if i == fin_pos[0] else list(SLOTS)
        if ss:
            iters[i].setdefault(rng.choice(ss), []).append("die")
    never_ending_style(rng, cfg, iters, fin_pos)
    if rng.random() < 0.15:
        place("kill", 0, n - 1)
    for _ in range(rng.choice([0, 0, 0, 1, 2])):
        place("adv", 0, n - 1, slots=("gap", "gap", "s0", "s4"))
    case = {"cfg": cfg, "iters": iters}
    if pre_events:
        case["pre"] = pre_events
    if rng.random() < 0.1:
        case["log"] = rng.choice(["debug", "debug", "info", "warning"])     # ambient setting: log records really handled
    return case



NAMES = ("simulation", "A", "B")


def gen_world(rng):
    """components of 1-3 stages (names re-used across stages on purpose), the observer in the last stage with 0-5
    references (several references to one producer, references to earlier stages in any position)"""
    nstages = rng.choice([1, 2, 2, 2, 3])
    last = nstages - 1
    cands = [(st, nm) for st in range(nstages) for nm in NAMES]
    chosen = []
    twins = None
    if nstages > 1 and rng.random() < 0.6:
        nm = rng.choice(NAMES)
        chosen = [(last, nm), (rng.randrange(last), nm)]       # same name in two stages
        twins = list(chosen)
    for c in rng.sample(cands, rng.randint(1, min(4, len(cands)))):
        if c not in chosen:
            chosen.append(c)
    rng.shuffle(chosen)
    chosen = chosen[:5]
    remap = {st: i for i, st in enumerate(sorted({st for st, _nm in chosen}))}     # no empty stage
    comps = [[remap[st], nm, rng.choice(FINISH_KINDS)] for st, nm in chosen]
    last = len(remap) - 1 + (1 if rng.random() < 0.1 else 0)
    refs = []
    for _ in range(rng.choice([0, 1, 1, 2, 2, 3, 3, 4, 5])):
        k = rng.randrange(len(comps))
        same = [i for i, c in enumerate(comps) if c[0] == last]
        if same and rng.random() < 0.5:
            k = rng.choice(same)
        if refs and rng.random() < 0.3:
            k = rng.choice(refs)[0]                              # another reference to the same producer
        r = [k, rng.choice(SUFFIXES)]
        if r not in refs:
            refs.append(r)
    if twins is not None and rng.random() < 0.7:
        # both components of the same name are producers
        for t in twins:
            if t not in chosen:
                continue
            k = chosen.index(t)
            if all(r[0] != k for r in refs):
                refs.insert(rng.randint(0, len(refs)), [k, rng.choice(SUFFIXES)])
    if rng.random() < 0.5:
        sign = rng.choice([1, -1])                               # earlier stages first / last
        refs.sort(key=lambda r: sign * comps[r[0]][0])
    return {"comps": comps, "stage": last, "refs": refs}


def gen_case_composed(rng, tier, worlds):
    world = rng.choice(worlds)
    comps = world["comps"]
    prods = sorted(set(expected_producers(world)))
    cfg = {"retries": rng.choice([None, 0, 1, 1, 2, 3, 3, 5]),
           "dieAfter": rng.random() < 0.3}
    r = DEFAULT_RETRIES if cfg["retries"] is None else cfg["retries"]
    n = rng.randint(3, 9 if tier == "quick" else 16) + r
    iters = [{"outcome": rng.choices(["ok", "fail", "raise"], [6, 3, 1])[0]} for _ in range(n)]
    # before the observer is staged in: every component of an earlier stage is over, a same-stage one may be
    pre = []
    later = []
    for k, (st, _nm, _kind) in enumerate(comps):
        if st < world["stage"] or rng.random() < 0.15:
            if rng.random() < 0.3:
                pre.append("px:%d" % k)
            pre.append("pf:%d" % k)
        else:
            later.append(k)
            if rng.random() < 0.2:
                pre.append("px:%d" % k)        # its engine is gone at stage-in (postmortem; restarted later)
    rng.shuffle(pre)
    pre.append("stagein")
    live = [k for k in prods if k in later]
    # producers that are over at stage-in do not repeat (mostly) and have left their output; live ones repeat
    # (mostly) and some have written already
    cfg["rep"] = [k for k in prods if rng.random() < (0.75 if k in live else 0.3)]
    cfg["pre"] = [k for k in prods if rng.random() < (0.2 if k in live else 0.8)]
    # afterwards every other component has its own history: output (producers), engine exits and restarts
    # (exit -> restart -> more output -> final exit), in the end the controller finishes it (or never)
    never = [k for k in later if rng.random() < 0.15]
    hi = max(0, n - r - 3)
    nslots = len(SLOTS)
    for k in later:
        if k in never:
            end = (n - 1, nslots - 1)
        else:
            end = (rng.randint(0, rng.randint(0, hi)), rng.randrange(nslots))
        evs = []
        if k in live:
            evs += ["out:%d" % k] * (0 if rng.random() < 0.12 else rng.choice([1, 1, 2, 3]))
        elif rng.random() < 0.1:
            evs.append("out:%d" % k)                          # output of a component that is no producer
        evs += ["px:%d" % k] * rng.choice([0, 0, 1, 2])
        rng.shuffle(evs)
        if rng.random() < (0.3 if k in live else 0.1):
            # the engine exits with a restartable reason, is restarted, the restarted task writes the real final
            # output, then the final exit
            alive = (evs.count("px:%d" % k) + pre.count("px:%d" % k)) % 2 == 0
            evs += ([] if alive else ["px:%d" % k]) + ["px:%d" % k, "px:%d" % k] + \
                (["out:%d" % k] if k in live else [])
        if k not in never:
            evs.append("pf:%d" % k)
        where_ = sorted((rng.randint(0, end[0]), rng.randrange(nslots)) for _ in evs[:-1 if k not in never else None])
        where_ = [w if w <= end else end for w in where_] + ([end] if k not in never else [])
        floor = {}
        for e, (i, si) in zip(evs, where_):
            lst = iters[i].setdefault(SLOTS[si], [])
            at = rng.randint(floor.get((i, si), 0), len(lst))       # after the previous event of this component
            lst.insert(at, e)
            floor[(i, si)] = at + 1

    def where(e):
        for i, it in enumerate(iters):
            for si, sl in enumerate(SLOTS):
                if e in it.get(sl, []):
                    return (i, si, it[sl].index(e))
    if live and all(k not in never for k in live):
        fin_pos = max(where("pf:%d" % k) for k in live)         # the finish that completes the set
    elif live:
        fin_pos = None                 # some producer never finishes: never notified
    else:
        fin_pos = (-1, 0, 0)           # notified at stage-in
    if fin_pos is not None and rng.random() < 0.2:
        leftover_style(rng, iters, fin_pos[0])
    if cfg["dieAfter"] and fin_pos is not None and rng.random() < 0.7:
        lo = max(fin_pos[0], 0)
        i = rng.randint(lo, min(n - 1, lo + 3))
        ss = [sl for si, sl in enumerate(SLOTS) if si > fin_pos[1]] if i == fin_pos[0] else list(SLOTS)
        if ss:
            iters[i].setdefault(rng.choice(ss), []).append("die")
    never_ending_style(rng, cfg, iters, None if fin_pos is None else (fin_pos[0], fin_pos[1]))
    if rng.random() < 0.1:
        iters[rng.randint(0, n - 1)].setdefault(rng.choice(SLOTS), []).append("kill")
    for _ in range(rng.choice([0, 0, 0, 1, 2])):
        iters[rng.randint(0, n - 1)].setdefault(rng.choice(("gap", "gap", "s0", "s4")), []).append("adv")
    case = {"cfg": cfg, "world": world, "pre": pre, "iters": iters}
    if rng.random() < 0.1:
        case["log"] = rng.choice(["debug", "debug", "info", "warning"])
    return case


def gen_case_dir(rng, tier):
    """real producer Jobs that stage inputs (direct references only / direct + component references / component
    references only / none), are staged in before run() or while the observer polls, and write their first own file
    later - or never"""
    prods = []
    spec = {}
    for k in rng.sample(range(4), rng.choice([1, 1, 1, 2, 2, 3])):
        same = rng.random() < 0.85
        prods.append({"id": k, "same": same, "rep": rng.random() < 0.45})
        spec[str(k)] = {"direct": rng.choice([["copy"], ["copy"], ["link"], ["copy", "link"], [], []]),
                        "comp": rng.random() < 0.35}
    cfg = {"retries": rng.choice([None, 0, 1, 2, 3]), "dieAfter": rng.random() < 0.1, "prods": prods, "pre": []}
    r = DEFAULT_RETRIES if cfg["retries"] is None else cfg["retries"]
    n = rng.randint(4, 8) + r
    iters = [{"outcome": rng.choices(["ok", "fail", "raise"], [7, 2, 1])[0]} for _ in range(n)]
    # the history of every producer: staged in, then 0-3 writes; merged in a random order; then the notification
    seqs = []
    for p in prods:
        k = p["id"]
        seqs.append(["stage:%d" % k] + ["out:%d" % k] * rng.choice([0, 1, 1, 2, 3]))
    if rng.random() < 0.6:
        seq = [q.pop(0) for q in seqs]            # all staged in first (the Controller stages a stage in a row)
        rng.shuffle(seq)
    else:
        seq = []
    while any(seqs):
        q = rng.choice([q for q in seqs if q])
        seq.append(q.pop(0))
    if rng.random() < 0.85:
        seq.append("fin")
    npre = 0
    while npre < len(seq) and seq[npre].startswith("stage:") and rng.random() < 0.75:
        npre += 1
    pre, seq = seq[:npre], seq[npre:]
    hi = max(0, n - r - 3)
    where = sorted((rng.randint(0, hi), rng.randrange(len(SLOTS))) for _ in seq)
    for e, (i, si) in zip(seq, where):
        iters[i].setdefault(SLOTS[si], []).append(e)
    if rng.random() < 0.1:
        iters[rng.randint(0, n - 1)].setdefault(rng.choice(("gap", "s0", "s4")), []).append("adv")
    return {"cfg": cfg, "dir": spec, "pre": pre, "iters": iters}


def events_in_order(case):
    for e in case.get("pre", []):
        yield "pre", e
    for it in case["iters"]:
        for s in SLOTS:
            for e in it.get(s, []):
                yield s, e


def nontrivial(case, out):
    evs = list(events_in_order(case))
    if "dir" in case:
        return any(i.get("staged_only") for i in out["info"]) and len(out["execs"]) >= 1
    return (any(e == "fin" or e.startswith("pf:") for _s, e in evs) and len(out["execs"]) >= 1
            and any(s in INNER for s, _e in evs))


P1 = [{"id": 0, "same": True, "rep": True}]          # one repeating producer in the observer's stage
P1N = [{"id": 0, "same": True, "rep": False}]        # ... that does not repeat (always "new output")

CORPUS = [
    # DESIGN section 8 #13: the task generator raises after the producers finished
    {"cfg": {"retries": 3, "prods": P1N, "pre": []},
     "iters": [{"s0": ["out:0"]}, {"gap": ["fin"], "outcome": "raise"}] + [{"outcome": "raise"}] * 7},
    # kill delay fires between two polls after a launch
    {"cfg": {"retries": 3, "dieAfter": True, "prods": P1, "pre": []},
     "iters": [{"s0": ["out:0"]}, {"gap": ["fin"]}, {"gap": ["die"]}, {}, {}, {}, {}, {}]},
    # notification lands between the output check and the producers-done sample
    {"cfg": {"retries": 2, "prods": P1, "pre": []},
     "iters": [{"s0": ["out:0"]}, {"s1": ["out:0", "fin"]}, {}, {}, {}, {}]},
    # kill delay fires while the task runs
    {"cfg": {"retries": 1, "dieAfter": True, "prods": P1, "pre": []},
     "iters": [{"s0": ["out:0"]}, {"gap": ["out:0", "fin"], "s3": ["die"]}, {}, {}]},
    # no producers at all
    {"cfg": {"retries": 0, "prods": [], "pre": []},
     "iters": [{}, {"s2": ["fin"], "outcome": "fail"}, {"outcome": "fail"}, {}, {}]},
    # external kill in the middle of a poll
    {"cfg": {"retries": 3, "prods": P1, "pre": []},
     "iters": [{"s0": ["out:0"]}, {"gap": ["out:0"], "s3": ["kill"]}, {}, {}]},
    # waited more than 20 s with finished producers
    {"cfg": {"retries": 5, "prods": P1, "pre": [0]}, "iters": [{"gap": ["fin"]}, {"gap": ["adv"]}, {}, {}]},
    # staggered producers: the one listed first is slow, one of an earlier stage in the middle, the one listed
    # last writes first; nothing may be launched before the slow one has written
    {"cfg": {"retries": 3, "pre": [2],
             "prods": [{"id": 5, "same": True, "rep": True}, {"id": 2, "same": False, "rep": False},
                       {"id": 7, "same": True, "rep": True}]},
     "iters": [{"s0": ["out:7"]}, {"gap": ["out:7"]}, {"s3": ["out:7"]}, {"s0": ["out:5"]}, {"gap": ["out:7", "fin"]},
               {}, {}, {}]},
    # the same in the other order, the slow one never writes: never able to consume, stops when the retries are
    # used up
    {"cfg": {"retries": 1, "pre": [],
             "prods": [{"id": 7, "same": True, "rep": False}, {"id": 5, "same": True, "rep": True},
                       {"id": 7, "same": True, "rep": False}]},
     "iters": [{"s0": ["out:7"]}, {"gap": ["out:7"]}, {"s1": ["fin"]}, {}, {}, {}]},
    # producers of an earlier stage only: can consume from the start
    {"cfg": {"retries": 2, "pre": [], "prods": [{"id": 0, "same": False, "rep": False}]},
     "iters": [{}, {"gap": ["fin"]}, {}, {}, {}]},
    # an execution succeeds while the producer still runs; final output + notification; the first launch after it
    # fails at submission time (the generator raises): a failed attempt - the earlier success does not count, the
    # engine keeps going until an execution started after the final output (here: after the 20 s override)
    {"cfg": {"retries": 3, "prods": P1, "pre": []},
     "iters": [{"s0": ["out:0"]}, {"gap": ["out:0", "fin"], "outcome": "raise"}, {}, {"gap": ["adv"]}, {}, {}]},
    # the same with a producer that does not repeat (every poll launches): raise, raise, then a task that fails, then ok
    {"cfg": {"retries": 5, "prods": P1N, "pre": [0]},
     "iters": [{}, {"s3": ["fin"]}, {"outcome": "raise"}, {"outcome": "raise"}, {"outcome": "fail"}, {}, {}, {}]},
    # the earlier task FAILED, the first launch after the notification raises, retries run out
    {"cfg": {"retries": 1, "prods": P1N, "pre": [0]},
     "iters": [{"outcome": "fail"}, {"gap": ["fin"], "outcome": "raise"}, {"outcome": "raise"}, {}, {}]},
]


D_COPY = {"0": {"direct": ["copy"], "comp": False}}
CORPUS += [
    # the notification PRECEDES run() (all producers over at stage-in), a kill delay is configured and the observer's
    # task never ends by itself: the delay expires while it runs, the task is killed, the engine stops
    {"cfg": {"retries": 1, "dieAfter": True, "prods": P1N, "pre": [0]}, "pre": ["fin"],
     "iters": [{"outcome": "hang"}, {"outcome": "hang"}, {}, {}]},
    # the same, the notification arrives while the never-ending task runs
    {"cfg": {"retries": 1, "dieAfter": True, "prods": P1, "pre": []},
     "iters": [{"s0": ["out:0"], "s3": ["fin"], "outcome": "hang"}, {"outcome": "hang"}, {}, {}]},
    # notification before run(), short tasks that fail, the delay expires between two polls
    {"cfg": {"retries": 5, "dieAfter": True, "prods": P1N, "pre": [0]}, "pre": ["fin"],
     "iters": [{"outcome": "fail"}, {"outcome": "fail", "s4": ["die"]}, {"outcome": "fail"}, {}, {}]},
    # the delay expires between the `_suicide` check of a poll and its launch, the task launched never ends by itself
    # (with an earlier task; without one): it is killed right after the launch (/repo 2d673a1)
    {"cfg": {"retries": 3, "dieAfter": True, "prods": P1N, "pre": [0]},
     "iters": [{}, {"gap": ["fin"], "s2": ["die"], "outcome": "hang"}, {}, {}]},
    {"cfg": {"retries": 3, "dieAfter": True, "prods": P1N, "pre": [0]}, "pre": ["fin"],
     "iters": [{"s1": ["die"], "outcome": "hang"}, {}, {}]},
    # a never-ending task, no kill delay, the producers never finish: nothing to say
    {"cfg": {"retries": 1, "prods": P1, "pre": []}, "iters": [{"s0": ["out:0"], "outcome": "hang"}, {}, {}]},
    # real producer Job (does not repeat) staged in before run() with data/params.txt:copy, writes its first own file
    # during the third poll
    {"cfg": {"retries": 1, "prods": P1N, "pre": []}, "dir": D_COPY, "pre": ["stage:0"],
     "iters": [{}, {}, {"s0": ["out:0"]}, {"gap": ["fin"]}, {}, {}]},
    # real repeating producer staged in (copy + link + a file of a component of an earlier stage) while the observer
    # polls, writes later; a second producer without any reference wrote long ago
    {"cfg": {"retries": 2, "prods": [{"id": 1, "same": True, "rep": True}, {"id": 0, "same": True, "rep": True}], "pre": []},
     "dir": {"0": {"direct": ["copy", "link"], "comp": True}, "1": {"direct": [], "comp": False}}, "pre": ["stage:1"],
     "iters": [{"s0": ["out:1"]}, {"gap": ["stage:0"]}, {"s3": ["out:1"]}, {"gap": ["out:0"]}, {"gap": ["out:1", "fin"]},
               {}, {}, {}]},
    # real producer with a component reference only, never writes: the observer is never able to consume
    {"cfg": {"retries": 1, "prods": P1, "pre": []}, "dir": {"0": {"direct": [], "comp": True}}, "pre": ["stage:0"],
     "iters": [{}, {"gap": ["fin"]}, {}, {}, {}]},
]

W_TWO_STAGES = {"comps": [[0, "simulation", "ok"], [1, "simulation", "ok"], [1, "A", "fail"], [0, "B", "ok"]],
                "stage": 1, "refs": [[1, ":ref"], [0, ":ref"]]}
W_DUPREFS = {"comps": [[0, "A", "ok"], [0, "B", "shutdown"]], "stage": 0,
             "refs": [[0, ":ref"], [1, "/out.txt:ref"], [0, "/data/x.dat:ref"], [0, ":output"]]}
W_EARLIER_ONLY = {"comps": [[0, "A", "ok"], [1, "A", "ok"]], "stage": 1, "refs": [[0, ":output"]]}
W_RESTART = {"comps": [[0, "A", "ok"], [0, "B", "ok"]], "stage": 0, "refs": [[0, ":ref"], [1, ":ref"]]}

CORPUS_COMPOSED = [
    # producers of the same name in two stages, in both reference orders; the same-stage one finishes while the
    # observer's task runs
    {"cfg": {"retries": 3, "rep": [1], "pre": [0]}, "world": W_TWO_STAGES, "pre": ["pf:3", "pf:0", "stagein"],
     "iters": [{"s0": ["out:1"]}, {}, {"gap": ["out:1"], "s3": ["pf:1"]}, {}, {}, {}]},
    {"cfg": {"retries": 3, "rep": [1], "pre": [0]}, "world": dict(W_TWO_STAGES, refs=[[0, ":ref"], [1, ":ref"]]),
     "pre": ["pf:0", "pf:3", "stagein"],
     "iters": [{"s0": ["out:1"]}, {"s1": ["pf:2"]}, {"gap": ["out:1"], "s2": ["pf:1"]}, {}, {}, {}]},
    # several references to one producer, another producer shut down while running, engine exits and restarts
    {"cfg": {"retries": 1, "rep": [0, 1], "pre": []}, "world": W_DUPREFS, "pre": ["stagein"],
     "iters": [{"s0": ["out:0", "out:1"]}, {"gap": ["px:0"], "s3": ["pf:1"]}, {"s0": ["px:0", "out:0"]},
               {"s4": ["pf:0"]}, {}, {}, {}]},
    # every producer is over before stage-in: notified at stage-in, BEFORE run(); kill delay and a never-ending task
    {"cfg": {"retries": 2, "dieAfter": True, "rep": [], "pre": [0]}, "world": W_EARLIER_ONLY, "pre": ["pf:0", "stagein"],
     "iters": [{"outcome": "hang"}, {"outcome": "hang"}, {}, {}]},
    # every producer is over before stage-in: notified at stage-in
    {"cfg": {"retries": 2, "rep": [], "pre": [0]}, "world": W_EARLIER_ONLY, "pre": ["pf:0", "stagein"],
     "iters": [{}, {"s2": ["pf:1"]}, {}, {}, {}]},
    # a producer never finishes: the observer keeps going
    {"cfg": {"retries": 0, "rep": [0, 1], "pre": []}, "world": W_DUPREFS, "pre": ["stagein"],
     "iters": [{"s0": ["out:0", "out:1"]}, {"gap": ["pf:0"]}, {"gap": ["out:1"]}, {}, {"gap": ["out:1"]}, {}]},
    # exit -> restart -> final exit: the engine of producer A exits with a restartable reason while B is already
    # finished, the controller restarts it, the restarted task writes the real final output, then A is finished
    {"cfg": {"retries": 3, "rep": [0, 1], "pre": []}, "world": W_RESTART, "pre": ["stagein"],
     "iters": [{"s0": ["out:0", "out:1"]}, {"gap": ["pf:1"]}, {"gap": ["out:0"], "s3": ["px:0"]}, {"gap": ["px:0"]},
               {"s0": ["out:0"]}, {"gap": ["out:0", "pf:0"]}, {}, {}, {}]},
    # the engine of the only live producer is gone at stage-in and restarted afterwards
    {"cfg": {"retries": 2, "rep": [0, 1], "pre": [1]}, "world": W_RESTART, "pre": ["px:0", "pf:1", "stagein"],
     "iters": [{"s0": ["px:0"]}, {"gap": ["out:0"]}, {"s3": ["px:0"]}, {"s1": ["px:0"], "s4": ["out:0"]},
               {"gap": ["pf:0"]}, {}, {}, {}]},
    # staggered same-stage producers: B (listed last) writes long before A (listed first)
    {"cfg": {"retries": 3, "rep": [0, 1], "pre": []}, "world": W_RESTART, "pre": ["stagein"],
     "iters": [{"s0": ["out:1"]}, {"gap": ["out:1"]}, {"s3": ["out:1"]}, {"gap": ["out:0"]}, {"gap": ["pf:1", "out:0", "pf:0"]},
               {}, {}, {}]},
    # the observer succeeds once while A still runs; A writes its final output and is finished; the next launch raises
    {"cfg": {"retries": 3, "rep": [0, 1], "pre": [1]}, "world": W_RESTART, "pre": ["pf:1", "stagein"],
     "iters": [{"s0": ["out:0"]}, {"gap": ["out:0", "pf:0"], "outcome": "raise"}, {"gap": ["adv"]}, {}, {}, {}],
     "log": "debug"},
]


# ----------------------------------------------------------------------------------------
# classifiers of known findings (narrow)
# ----------------------------------------------------------------------------------------

def c13_zero_retries_race(what, case, detail):
    """repeatRetries is configured 0 (exactly the inputs excluded by hypothesis `1 <= cfg.retries` of
    stop_implies_final_output_seen_partial): the poll in which the notification races with the output check
    finds no retries left and stops without an execution that began after the last output"""
    return what == "stopped-without-observing-final-output" and case["cfg"].get("retries") == 0


def c13_output_predates_run(what, case, detail):
    """producer output exists before run(), none appears afterwards, the engine never launched and used up
    its retries before the 20 s 'waited too long' override could make it launch"""
    case = normalise(case)
    ids = {p["id"] for p in prods_of(case)}
    if what != "stopped-without-observing-final-output" or not (set(case["cfg"].get("pre", [])) & ids):
        return False
    if not isinstance(detail, dict) or detail.get("launches") != 0:
        return False
    return not any(e.startswith("out:") and int(e[4:]) in ids for _s, e in events_in_order(case))


CLASSIFIERS = {"c13_zero_retries_race": c13_zero_retries_race,
               "c13_output_predates_run": c13_output_predates_run}


# ----------------------------------------------------------------------------------------

def model_cfg(case):
    cfg = case["cfg"]
    return {"retries": DEFAULT_RETRIES if cfg.get("retries") is None else cfg["retries"],
            "guardNone": True, "killOnSuicidePoll": True, "killAfterLaunch": True, "dieAfter": bool(cfg.get("dieAfter")),
            "prods": prods_of(case), "pre": list(cfg.get("pre", []))}


def model_event(e):
    """events the poll-protocol model does not see: staging a producer in (what is staged is input, not output)"""
    return not e.startswith("stage:")


def model_iters(case):
    its = []
    for it in case["iters"]:
        it = {k: ([e for e in v if model_event(e)] if isinstance(v, list) else v) for k, v in it.items()}
        its.append(it)
    if "world" not in case and case.get("pre") and its:
        # the model does not tell `before run()` from `before the first look of the monitor`
        its[0]["gap"] = [e for e in case["pre"] if model_event(e)] + list(its[0].get("gap", []))
    return its


def run_impl(case):
    return Drv(copy.deepcopy(normalise(case))).run()


def case_fails(case, slug):
    """does the oracle fail with this slug on the case - and not in the way of a known finding"""
    try:
        out = run_impl(case)
    except RealCodeRaised as rc:
        return rc.slug() == slug
    except Exception:
        return False
    for w, d in oracle(case, out):
        if w == slug:
            full = {"detail": d} | (d if isinstance(d, dict) else {})
            if not any(fn(w, case, full) for fn in CLASSIFIERS.values()):
                return True
    return False


def shrink(what, case):
    if "sequence" in case:
        return case
    try:
        return _shrink(what, case)
    finally:
        Worlds.cleanup()        # (called from finish(), after run() has cleaned up)


def _shrink(what, case):
    from harness import common
    case = copy.deepcopy(normalise(case))
    # drop iterations from the end, then empty slots, then simplify outcomes
    its = common.shrink_list(case["iters"], lambda c: case_fails(dict(case, iters=c), what), 200)
    case["iters"] = its
    for it in case["iters"]:
        for s in SLOTS:
            for e in list(it.get(s, [])):
                trial = copy.deepcopy(case)
                # same position in the copy
                idx = case["iters"].index(it)
                trial["iters"][idx][s].remove(e)
                if case_fails(trial, what):
                    it[s].remove(e)
            if s in it and not it[s]:
                del it[s]
    if case["cfg"].get("dieAfter"):
        trial = copy.deepcopy(case)
        trial["cfg"]["dieAfter"] = False
        if case_fails(trial, what):
            case["cfg"]["dieAfter"] = False
    for key in ("pre", "rep", "prods"):
        # fewer components with output before run(), fewer repeating ones (composed), fewer producer entries (direct)
        for x in list(case["cfg"].get(key, [])):
            trial = copy.deepcopy(case)
            trial["cfg"][key].remove(x)
            if case_fails(trial, what):
                case["cfg"][key].remove(x)
    if "world" in case:
        for e in list(case["pre"]):
            if e.startswith("px:"):
                trial = copy.deepcopy(case)
                trial["pre"].remove(e)
                if case_fails(trial, what):
                    case["pre"].remove(e)
        for ref in list(case["world"]["refs"]):
            if len(case["world"]["refs"]) > 1:
                trial = copy.deepcopy(case)
                trial["world"]["refs"].remove(ref)
                if case_fails(trial, what):
                    case["world"]["refs"].remove(ref)
    return case if case_fails(case, what) else None


def model_request(c):
    if "world" in c:
        return {"op": "cscript", "cfg": model_cfg(c), "refs": expected_producers(c["world"]),
                "pre": list(c.get("pre", [])), "iters": model_iters(c)}
    return {"op": "script", "cfg": model_cfg(c), "iters": model_iters(c)}


def producer_tags(case, out):
    ps = prods_of(case)
    same = {p["id"] for p in ps if p["same"]}
    tags = ["producer-entries:%d" % len(ps), "same-stage-producers:%d" % len(same)]
    if len({p["id"] for p in ps}) < len(ps):
        tags.append("several-entries-for-one-producer")
    if any(not p["same"] for p in ps):
        tags.append("producer-entry-of-earlier-stage")
    if any(not p["rep"] for p in ps):
        tags.append("non-repeating-producer")
    if case["cfg"].get("pre"):
        tags.append("output-before-run")
    # a poll began while some same-stage producers had output and others did not (staggered producers)
    if out is not None and any(i.get("partial") for i in out["info"]):
        tags.append("poll-while-only-some-same-stage-producers-have-output")
    if out is not None and any(i.get("partial") == "last-has" for i in out["info"]):
        tags.append("poll-while-last-listed-producer-has-output-an-earlier-one-not")
    if same and out is not None and not out["final"]["consume"]:
        tags.append("never-able-to-consume")
    return tags


def world_tags(case, out):
    w = case["world"]
    prods = expected_producers(w)
    tags = ["mode:composed", "stages:%d" % (w["stage"] + 1), "refs:%d" % len(prods),
            "producers:%d" % len(set(prods))]
    if len(set(prods)) < len(prods):
        tags.append("several-references-to-one-producer")
    names = {}
    for k in set(prods):
        names.setdefault(w["comps"][k][1], set()).add(w["comps"][k][0])
    if any(len(v) > 1 for v in names.values()):
        tags.append("producers-of-one-name-in-two-stages")
    if any(w["comps"][k][0] < w["stage"] for k in prods):
        tags.append("producer-of-earlier-stage")
    if len(set(range(len(w["comps"]))) - set(prods)):
        tags.append("other-components-present")
    log = out["sublog"]
    at = [e for e, f in log if f]
    if at:
        first = at[0]
        tags.append("notified-at-stagein" if first == "stagein" else "notified-by-a-finish")
    else:
        tags.append("never-notified")
    tags += ["finish-kind:" + w["comps"][int(e[3:])][2] for e, _f in log if e.startswith("pf:")]
    if any(e.startswith("px:") for e, _f in log):
        tags.append("engine-exit-without-finish")
    return sorted(set(tags))


def check_cases(ctx, cases):
    cases = [normalise(c) for c in cases]
    reqs = [model_request(c) for c in cases]
    mouts = ctx.model(reqs)
    flat_reqs = []
    dir_reqs = []
    for idx, case in enumerate(cases):
        try:
            out = run_impl(case)
        except RealCodeRaised as rc:
            # the code under test raised while being driven: a failure of this case, with the case as the
            # concrete input (the engine / component did not do what the property needs, it fell over)
            ctx.case(case, nontrivial=False, tags=["real-code-raised:" + rc.where,
                                                   "mode:composed" if "world" in case else "mode:direct"])
            ctx.fail(rc.slug(), case, {"where": rc.where, "exception": rc.exc_name, "message": rc.message,
                                       "traceback": rc.tb})
            continue
        except Exception as exc:  # the harness stand-ins broke: infrastructure, not a verdict
            from harness import common
            import traceback
            raise common.InfraError("real-engine driver raised on %s: %s" % (case, traceback.format_exc()[-1500:]))
        tags = ["retries:%s" % case["cfg"].get("retries"), "stopped" if out["stopped"] else "script-ended-first",
                "cause:%s" % out["cause"]]
        tags += ["cfg:dieAfter"] if case["cfg"].get("dieAfter") else []
        tags += producer_tags(case, out)
        tags += sorted({"slot:%s:%s" % (s, e.split(":")[0]) for s, e in events_in_order(case)})
        if any(i["error"] for i in out["info"]):
            tags.append("action-raised:" + [i["error"] for i in out["info"] if i["error"]][0])
        tags.append("launches:%d" % min(len(out["execs"]), 6))
        if case.get("log"):
            tags.append("ambient-log-level:" + case["log"])
        seen_ok = False
        nl = 0
        for i in out["info"]:
            if i.get("executed"):
                e = out["execs"][nl] if nl < len(out["execs"]) else None
                nl += 1
                if e is not None and not e["started"] and i.get("truth_at_begin", i["fin_at_begin"]):
                    tags.append("launch-raises-after-producers-finished" + ("/after-an-earlier-success" if seen_ok else ""))
                seen_ok = seen_ok or bool(i.get("rc0"))
        tags += world_tags(case, out) if "world" in case else ["mode:dir" if "dir" in case else "mode:direct"]
        if case.get("pre") and "fin" in case["pre"]:
            tags.append("notified-before-run")
        if any(it.get("outcome") == "hang" for it in case["iters"]):
            tags.append("never-ending-task")
        if out.get("hung"):
            tags.append("never-ending-task-never-killed")
        if out.get("expired"):
            tags.append("kill-delay-expired")
        if "dir" in case:
            for k, sp in sorted(case["dir"].items()):
                tags.append("producer-stages:" + ("+".join(sp["direct"] + (["component-ref"] if sp["comp"] else [])) or "nothing"))
            if any(i.get("staged_only") for i in out["info"]):
                tags.append("poll-while-a-producer-holds-only-staged-inputs")
            if any(e.startswith("stage:") for s_, e in events_in_order(case) if s_ != "pre"):
                tags.append("producer-staged-in-after-run")
            dir_reqs.append((case, out))
        ctx.case(case, nontrivial=nontrivial(case, out), tags=tags)
        for what, detail in oracle(case, out):
            full = {"detail": detail, "snaps": out["snaps"], "execs": out["execs"],
                    "cause": out["cause"]} | (detail if isinstance(detail, dict) else {})
            # failures accepted by a classifier are recorded at most 25 times each (then only counted), so that
            # the framework's cap on recorded failures can never hide a different violation behind them
            cl = [n for n, fn in CLASSIFIERS.items() if fn(what, case, full)]
            if cl:
                k = "classified:" + cl[0]
                ctx.tag(k)
                if ctx.tags[k] > 25:
                    continue
            ctx.fail(what, case, full)
        if mouts is not None:
            m = mouts[idx]
            ctx.compare("per-poll state (launches, retries, cancel, alive, kernelCompleted, suicide, consume, "
                        "finished) == Repeat.runScript", case,
                        {"snaps": m["snaps"], "stopped": m["stopped"]},
                        {"snaps": out["snaps"], "stopped": out["stopped"]})
            ctx.compare("each launch began after the final producer output? == Repeat.execLog", case,
                        [e["afterFinal"] for e in m["execs"]], [e["afterFinal"] for e in out["execs"]])
            ctx.compare("each launch: every same-stage producer had output (harness record)? == Exec.avail", case,
                        [e["avail"] for e in m["execs"]], [e["avail"] for e in out["execs"]])
            ctx.compare("each launch: did the task generator return a task (an execution was started)? == Exec.started",
                        case, [e["started"] for e in m["execs"]], [e["started"] for e in out["execs"]])
            mc = m["cause"]
            ic = {"self": "self", "external": "external", "killDelay": "killDelay", None: None}.get(out["cause"], out["cause"])
            ctx.compare("who set the cancel event", case,
                        "self" if mc in ("success", "retries") else mc, ic)
            if "world" in case:
                w = case["world"]
                ctx.compare("after every stage-in / component finish / engine exit: was notify_all_producers_finished "
                            "called? == RepeatSub.subStep", case, m["notif"], out["sublog"])
                ctx.compare("ComponentState.producers == one entry per data reference, in order", case,
                            [comp_ref(w, k) for k in expected_producers(w)], out["producers"])
                flat_reqs.append(({"op": "cflat", "cfg": model_cfg(case), "refs": expected_producers(w),
                                   "ops": m["cflat"]}, m, case))
            else:
                flat_reqs.append(({"op": "flat", "cfg": model_cfg(case), "ops": m["flat"]}, m, case))
    if mouts is not None and dir_reqs:
        flat = [(case, k, log) for case, out in dir_reqs for k, log in sorted(out["dirlog"].items())]
        douts = ctx.model([{"op": "dir", "ops": [e[0] for e in log]} for _c, _k, log in flat])
        for (case, k, log), dm in zip(flat, douts):
            ctx.compare("real WorkingDirectory.output / inputs of a producer after Job.stageIn and after every write == "
                        "RepeatDir.stageIn / dstep", case,
                        [[st["output"], st["inputs"]] for st in dm["steps"]], [[e[1], e[2]] for e in log])
    if mouts is not None and flat_reqs:
        fouts = ctx.model([r for r, _m, _c in flat_reqs])
        for (r, m, case), f in zip(flat_reqs, fouts):
            keys = ("final", "execs", "cause", "pollsFin", "books", "stopped")
            if r["op"] == "cflat":
                keys += ("sub",)
                rel = "Repeat.runScript on the translated script == RepeatSub.cexec on the composed flat history"
            else:
                rel = "Repeat.runScript == Repeat.exec on the flattened history"
            ctx.compare(rel, case, {k: m[k] for k in keys}, {k: f[k] for k in keys})


def observed(case):
    """what the implementation does on a case, as a canonical JSON string"""
    try:
        out = run_impl(case)
    except RealCodeRaised as rc:
        out = {"raised": rc.slug()}
    return json.dumps(out, sort_keys=True, default=str)


def check_order_independence(ctx, suite, orders, seen):
    """family: process-level / class-level state shared between independent engines / components / experiments
    (class attributes mutated in place, module-level caches keyed by names).  The cases of the suite share component
    and producer names with different roles; each is run several times in this process, in different orders and after
    all the unrelated cases: the implementation's answers must be identical every time."""
    for order in orders:
        for k in order:
            ans = observed(suite[k])
            if k not in seen:
                seen[k] = ans
            elif ans != seen[k]:
                ctx.fail("result-depends-on-earlier-cases",
                         {"sequence": [suite[j] for j in order], "probe": order.index(k)},
                         {"first_answer": json.loads(seen[k]), "later_answer": json.loads(ans)})


CHILD_MARK = "C13-CHILD-ANSWERS "


def order_suite():
    return [copy.deepcopy(normalise(c)) for c in CORPUS + CORPUS_COMPOSED]


def spawn_child(order, hashseed=None):
    """a fresh interpreter that runs the cases `order` of the suite (nothing else ran before them in that process)"""
    import subprocess
    import sys
    env = dict(os.environ)
    if hashseed is not None:
        env["PYTHONHASHSEED"] = str(hashseed)
    return subprocess.Popen([sys.executable, os.path.abspath(__file__), "--order-child", json.dumps(order)],
                            stdout=subprocess.PIPE, stderr=subprocess.DEVNULL, env=env, text=True)


def collect_child(proc):
    from harness import common
    try:
        out, _ = proc.communicate(timeout=300)
    except Exception as exc:  # noqa
        proc.kill()
        raise common.InfraError("C13 child process: %s" % exc)
    for line in out.splitlines():
        if line.startswith(CHILD_MARK):
            return {int(k): v for k, v in json.loads(line[len(CHILD_MARK):]).items()}
    raise common.InfraError("C13 child process gave no answers: %s" % out[-500:])


def _child_main(order_json):
    import sys
    order = json.loads(order_json)
    setup(None)
    suite = order_suite()
    try:
        ans = {str(k): observed(suite[k]) for k in order}
    finally:
        Worlds.cleanup()
    sys.stdout.write("\n" + CHILD_MARK + json.dumps(ans) + "\n")
    sys.stdout.flush()


def compare_with_child(ctx, suite, order, answers, seen, slug, extra):
    for k in order:
        if seen[k] != answers[k]:
            ctx.fail(slug, dict({"sequence": [suite[j] for j in order], "probe": order.index(k)}, **extra),
                     {"answer_in_this_process": json.loads(seen[k]), "answer_in_fresh_process": json.loads(answers[k])})


def replay_sequence(ctx, case):
    if case.get("fresh_process"):
        suite = order_suite()
        canon = [json.dumps(c, sort_keys=True) for c in suite]
        idx = [canon.index(json.dumps(normalise(c), sort_keys=True)) for c in case["sequence"]]
        pk = idx[case["probe"]]
        a = collect_child(spawn_child(idx, case.get("hashseed")))
        b = collect_child(spawn_child([pk] + [k for k in idx if k != pk]))
        ctx.case(case, nontrivial=False, tags=["order-independence"])
        if a[pk] != b[pk]:
            ctx.fail("result-depends-on-hash-seed" if case.get("hashseed") is not None else
                     "result-depends-on-earlier-cases", case,
                     {"answer": json.loads(a[pk]), "answer_when_run_first": json.loads(b[pk])})
        return
    probe = case["sequence"][case["probe"]]
    first = observed(probe)
    for c in case["sequence"]:
        observed(c)
    again = observed(probe)
    ctx.case(case, nontrivial=False, tags=["order-independence"])
    if first != again:
        ctx.fail("result-depends-on-earlier-cases", case,
                 {"first_answer": json.loads(first), "later_answer": json.loads(again)})


def setup(ctx):
    from harness import detsim
    detsim.install()      # before experiment.runtime.* is imported for the first time


def run(ctx):
    setup(ctx)
    ctx.rule = ("cases = scripted histories of the real RepeatingEngine under the real CreateMonitor loop: configuration "
                "(repeatRetries None/0/1/2/3/5, kill delay, a LIST of 0-6 producer instances - each in the observer's "
                "stage or an earlier one, repeating or not, several entries for one component, with or without output "
                "before run() - read by the real Engine.canConsume and the real Job.producersHaveOutputSinceDate) "
                "x 3..21 polls with task outcomes ok/fail/generator-raises and environment events (producers finished, "
                "new output of one given producer (staggered producers: each starts writing at its own moment or never), "
                "external kill, kill-delay timer, >20 s wait) placed at 6 interleaving points of each poll; the notification "
                "BEFORE run() (12% of the direct cases; composed cases whose producers are all over at stage-in) with and without a "
                "kill delay; tasks that never end by themselves (45% of the cases with a kill delay, 4% of the others: the harness "
                "delivers the events of the turn while the task runs, then lets every pending timer expire in virtual time); "
                "dir cases: 1-3 REAL producer Jobs of a real experiment staged in by the real Job.stageIn (direct references :copy / :link "
                "only, direct + component reference, component reference only, none; before run() or while the observer polls) that write "
                "their first own file later or never, observed by the real observer Job; a style in which "
                "what an earlier poll left behind differs from the first attempts after the notification (executions succeed "
                "while a producer runs, then the first 1-3 launches after the notification raise / fail); repeatRetries 10/11 "
                "now and then; 10% of the cases under an ambient log level debug/info/warning with records really handled; "
                "the corpus cases are also run first thing in the process, again after all other cases (backwards, shuffled, "
                "forwards) and in two fresh interpreters (backwards; forwards under another hash seed) with identical answers "
                "required; "
                "direct cases: the harness calls notify_all_producers_finished; composed cases: generated workflows "
                "(1-3 stages, names re-used across stages, observer with 0-5 references incl. several to one producer "
                "and to earlier stages in any position, other components) whose real ComponentStates deliver the "
                "notification through the stageIn subscription while components are finished (FINISHED / FAILED / "
                "SHUTDOWN) in generated orders before stage-in and at the interleaving points, producer engines exit "
                "with a restartable reason, are restarted, write their real final output and exit for good (their "
                "fake engines have the observable surface of the real Engine: notifyFinished / stateUpdates fire on "
                "every task exit), some producers never finish; an exception escaping from the real code while it is "
                "driven is an oracle failure (real-code-raises-<where>-<Exception>); "
                "non-trivial = the producers-finished notification (resp. the finish of a component) occurs, at least "
                "one task is launched and at least one event lands inside a poll (s1-s4); dir cases: a poll begins while a "
                "same-stage producer's directory holds staged-in files and nothing of its own, and a task is launched at "
                "some point; distinct by canonical JSON of the case.")
    ctx.assumptions = [
        "producers write no output after the producers-finished notification (generator never schedules it: "
        "in composed cases a producer writes only before its own finish)",
        "which producers count for 'output it can consume': those of the observer's own stage (Engine.canConsume: "
        "'Different Stage: Always True' - producers of earlier stages are over, what they left is all there is)",
        "ComponentState.stageIn is called once per component, before run() (Controller.comp_staged_in); components of "
        "earlier stages are finished before a component is staged in",
        "time is logical: the fake clock advances 1 ms per datetime.now() of engine.py; '>20 s since last launch' "
        "only through the scripted 'adv' event; schedule_next_instance is called but its timing decision is "
        "replaced by the script; canConsume is driven with delay=0 only (the only call RepeatingEngine makes)",
        "a stop caused by the configured kill delay is treated like a cancellation from outside for the "
        "'final output observed' clause (it is a forced stop by configuration)",
        "kill delay: the delay counts from the moment all producers have finished; `die` (resp. the harness driving the "
        "pending timers while a never-ending task runs) is the moment it has elapsed; a never-ending task without a "
        "configured kill delay, or whose producers never finish, is outside the property (nothing is claimed)",
        "dir cases: a producer's task writes files of its own names (it does not modify a staged-in file in place); "
        "staged files appear at the virtual time of the stage-in",
        "a launch whose task generator raises counts as an ATTEMPT (it uses up a retry; with every attempt failing the "
        "engine may stop when the retries are used up) but not as a started execution: a stop with retries left must be "
        "decided by a poll that itself started an execution after the producers' last output which exited 0",
    ]
    ctx.trusted.append("C13: stub Job/Task of the engine (producer instances with stub working directories: output / "
                       "outputSinceDate / outputBeforeDate from the harness's record of the out events), fake clock, synchronous stand-in for the monitor thread and rx "
                       "schedulers (harness/c13.py); composed cases: stand-in for the Controller finishing components "
                       "(ComponentState.finish on real ComponentStates of real Jobs), fake engines of the other "
                       "components and trampoline scheduler of harness/detsim.py, stageIn(stageData=False); restart "
                       "of a repeating engine (lastExecution), optimizer, real timers and threads are not modelled; dir cases: "
                       "real Jobs / working directories of an experiment built by tests.utils.experiment_from_flowir, a proxy of the "
                       "observer Job that brackets producersHaveOutputSinceDate with the interleaving point s1, mtimes set from "
                       "the virtual clock")
    ctx.classifiers = CLASSIFIERS
    ctx.shrinker = shrink
    rng = ctx.rng
    n = 1500 if ctx.tier == "quick" else 25000
    cases = [copy.deepcopy(c) for c in CORPUS] + [gen_case(rng, ctx.tier) for _ in range(n)]
    nw, nc = (60, 1200) if ctx.tier == "quick" else (600, 20000)
    worlds = [gen_world(rng) for _ in range(nw)]
    cases += [copy.deepcopy(c) for c in CORPUS_COMPOSED] + [gen_case_composed(rng, ctx.tier, worlds) for _ in range(nc)]
    cases += [gen_case_dir(rng, ctx.tier) for _ in range(120 if ctx.tier == "quick" else 1500)]
    suite = order_suite()
    ks = list(range(len(suite)))
    sh = list(ks)
    rng.shuffle(sh)
    first_answers = {}
    # two fresh interpreters run the suite meanwhile: backwards (whatever is cached by name is filled by a case of
    # another role there), and forwards under another hash seed
    other_seed = (int(os.environ.get("PYTHONHASHSEED", "0") or 0) + 1 + rng.randrange(1000)) % 4294967295
    children = [spawn_child(ks[::-1]), spawn_child(ks, other_seed)]
    try:
        check_order_independence(ctx, suite, [ks], first_answers)          # first thing in the process
        check_cases(ctx, cases)
        check_order_independence(ctx, suite, [ks[::-1], sh, ks], first_answers)   # after everything else
        compare_with_child(ctx, suite, ks[::-1], collect_child(children[0]), first_answers,
                           "result-depends-on-earlier-cases", {"fresh_process": True})
        compare_with_child(ctx, suite, ks, collect_child(children[1]), first_answers,
                           "result-depends-on-hash-seed", {"fresh_process": True, "hashseed": other_seed})
        ctx.tag("order-independence-suite-runs", 6 * len(suite))
    finally:
        for ch in children:
            if ch.poll() is None:
                ch.kill()
        Worlds.cleanup()


def replay(ctx, doc):
    setup(ctx)
    ctx.classifiers = CLASSIFIERS
    case = doc.get("input") or doc["no_longer_checks"][-1]["input"]
    try:
        if "sequence" in case:
            replay_sequence(ctx, case)
        else:
            check_cases(ctx, [case])
    finally:
        Worlds.cleanup()


if __name__ == "__main__":
    # child mode of the order-independence check (see spawn_child)
    import sys
    _here = os.path.dirname(os.path.dirname(os.path.abspath(__file__)))
    _repo = os.environ.get("ST4SD_REPO", "/repo")
    for _p in (_here, _repo, os.path.join(_repo, "python")):
        sys.path.insert(0, _p)
    import warnings
    warnings.filterwarnings("ignore")
    if len(sys.argv) == 3 and sys.argv[1] == "--order-child":
        from harness import c13 as _me      # one module object (harness.c13), not __main__ + harness.c13
        _me._child_main(sys.argv[2])
        sys.stdout.flush()
        os._exit(0)
