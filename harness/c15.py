"""C15 — Loading a package is deterministic.

What runs on every invocation
  A. cross-process comparison (the part no theorem can exhibit: CPython hash randomisation).  Every generated
     package is loaded in N child processes (harness/c15_child.py, /venv/bin/python) started with different
     PYTHONHASHSEED values; in every child the keys of all mappings of the input documents are permuted
     differently (equal documents) and files / directory entries are created in a different order.  Each child
     prints a canonical dump: component names, graph edges, environments, resolved configurations,
     memoization infos and hashes, and the layered user variables as seen through the three entry points that
     accept user variable files (Experiment.experimentFromPackage, FlowIRExperimentConfiguration.__init__,
     FlowIRExperimentConfiguration.parametrize through WorkflowGraph.graphFromPackage).
     Oracle: all dumps of one package are equal, and the user variables are the ones obtained by layering the
     files in the order given, the last one winning.
     DSL 2.0 packages (conf/dsl.yaml) are generated as well: several component templates carrying the same
     multi-key environment with the keys written in different orders (parameter default, literal, passed as an
     argument, forwarded from a workflow parameter), templates instantiated several times, the same step names in
     several nested workflows (so that the -I, -II numbering is exercised), output references between steps.
  A'. DSL 2.0, in this process: every generated namespace is converted with the real namespace_to_flowir from
     the document and from several copies whose mappings are permuted (equal documents): the FlowIR must be
     the same (names, stages, references, command.environment of every component, the environments).
  A''. directory listing order, explicitly: child number 1 sees every directory of the process (os.listdir /
     os.scandir, hence glob, os.walk, shutil) listed in ascending order, child 2 in descending order, the further
     children in a fixed shuffled order, child 0 as the file system gives it.  DOSINI packages (a directory of
     configuration files the loader DISCOVERS by listing: conf/experiment[.<platform>].conf, conf/variables.conf,
     conf/variables.d/<platform>.conf, conf/stages.d/stage<N>.conf) are generated with a launch history: 0-2 earlier
     loads with createInstanceFiles=True, user variable files (YAML and DOSINI spelling) and a platform, which leave
     the instance flavour (stage<N>.instance.conf, experiment.instance.conf, flowir_instance.yaml) next to the package
     flavour.  Then the package flavour is loaded through the same three entry points, and the instance flavour
     through configurationForExperiment(is_instance=True).  In this process Dosini.load_from_directory is driven on
     generated conf/ directories (both flavours, instance flavour with fewer / more stages, stray files) under
     explicit listing orders: the FlowIR must be the same for every order.
  B. model correspondence: C15Stages.discover (Lean, drv-c15 op "stages") predicts, from the names of conf/stages.d in
     the order listed, the file Dosini._discover_stages picks for every stage index. DslLoad.assignNames / assignEnvs / registered (Lean, drv-c15 op "dsl") predict, from the
     step names and environments of the component instances in the order the real ScopeStack visits them, the
     names, command.environment and the registered environments that the real namespace_to_flowir produces.
     Layer.loadVars (Lean, drv-c15) predicts the layered user variables and the value
     injected per stage; Layer.serialize predicts the buffer hashed by
     ComponentSpecification._memoization_info_to_hash (compared through md5) on random nested infos with permuted
     dictionaries.
"""
from __future__ import annotations

import copy
import hashlib
import json
import os
import random
import shutil
import subprocess
import sys
import tempfile

HERE = os.path.dirname(os.path.abspath(__file__))
CHILD = os.path.join(HERE, "c15_child.py")
REPO = os.environ.get("ST4SD_REPO", "/repo")

COMP_NAMES = ["gen", "prep", "calc", "calc2", "sim", "post", "agg", "plot", "A", "BA", "step-x", "zeta"]
VAR_NAMES = ["alpha", "beta", "gamma", "n", "mode", "Tol", "x_1", "path", "K"]
ENV_VARS = ["OMP_NUM_THREADS", "FOO", "BAR", "LD_LIBRARY_PATH", "PATH", "MY_HOME"]


# ----------------------------------------------------------------------------------------
# generator of packages
# ----------------------------------------------------------------------------------------

def gen_value(rng):
    return rng.choice(["1", "2", "3", "low", "high", "a b", "/opt/x", "0.5", "true", "v%d" % rng.randint(0, 99)])


def gen_package(rng, jid):
    nstages = rng.randint(1, 3)
    platforms = ["default"] + rng.choice([[], ["plat"], ["plat", "hpc"]])
    platform = rng.choice(platforms + [None])
    gvars = {v: gen_value(rng) for v in rng.sample(VAR_NAMES, rng.randint(2, len(VAR_NAMES)))}
    gnames = sorted(gvars)
    variables = {"default": {"global": dict(gvars)}}
    if rng.random() < 0.6:
        variables["default"]["stages"] = {"#%d" % s: {v: gen_value(rng) for v in rng.sample(gnames, rng.randint(0, 2))}
                                          for s in range(nstages) if rng.random() < 0.6}
    for p in platforms[1:]:
        variables[p] = {"global": {v: gen_value(rng) for v in rng.sample(gnames, rng.randint(0, min(3, len(gnames))))}}
        if rng.random() < 0.4:
            variables[p]["stages"] = {"#0": {v: gen_value(rng) for v in rng.sample(gnames, rng.randint(0, 2))}}
    envs = {}
    env_names = []
    for p in platforms:
        envs[p] = {}
    for en in rng.sample(["myenv", "Second", "environment", "gpu-env"], rng.randint(0, 3)):
        env_names.append(en)
        d = {k: rng.choice(["1", "4", "/opt/lib:$LD_LIBRARY_PATH", "$FOO/bin", "${BAR}x", "lit"])
             for k in rng.sample(ENV_VARS, rng.randint(1, 4))}
        if rng.random() < 0.4:
            d["DEFAULTS"] = ":".join(rng.sample(["PATH", "LD_LIBRARY_PATH", "HOME"], rng.randint(1, 3)))
        where = rng.choice(["default", "both", "platform"]) if len(platforms) > 1 else "default"
        if where in ("default", "both"):
            envs["default"][en] = d
        if where in ("platform", "both"):
            envs[rng.choice(platforms[1:])][en if rng.random() < 0.5 else en.upper()] = {
                k: "p-" + str(v) for k, v in list(d.items())[:2] if k != "DEFAULTS"}
    files = {}
    for i in range(rng.randint(1, 4)):
        files["data/%s" % rng.choice(["in.txt", "conf.json", "b.dat", "a.dat", "Z.txt", "m.inp"])] = \
            "content %d %s\n" % (i, gen_value(rng))
    if rng.random() < 0.3:
        files["data/sub/deep.txt"] = "deep\n"
    data_files = sorted(f for f in files if f.count("/") == 1)
    comps = []
    known = []  # (stage, name, replicated)
    used = set()
    replicated_stage0 = False
    for s in range(nstages):
        for _ in range(rng.randint(1, 3)):
            name = rng.choice([c for c in COMP_NAMES if (s, c) not in used])
            used.add((s, name))
            refs = []
            args = []
            for v in rng.sample(gnames, rng.randint(0, min(3, len(gnames)))):
                args.append("-%s %%(%s)s" % (v[0], v))
            for f in rng.sample(data_files, rng.randint(0, min(2, len(data_files)))):
                m = rng.choice(["ref", "copy", "output"]) if not f.endswith("sub") else "ref"
                r = "%s:%s" % (f, m)
                refs.append(r)
                if m != "copy":
                    args.append(r)
            producers = [k for k in known if not k[2]]
            for (ps, pn, _r) in rng.sample(producers, rng.randint(0, min(2, len(producers)))):
                spelled = "stage%d.%s" % (ps, pn) if (ps != s or rng.random() < 0.5) else pn
                r = "%s:%s" % (spelled, rng.choice(["ref", "output"]))
                if r not in refs and not any(x.split(":")[0].split(".")[-1] == pn for x in refs):
                    refs.append(r)
                    args.append(r)
            comp = {"name": name, "stage": s,
                    "command": {"executable": rng.choice(["echo", "cat", "ls", "/bin/true"]),
                                "arguments": " ".join(args)},
                    "references": refs}
            if env_names and rng.random() < 0.6:
                en = rng.choice(env_names + ["none"])
                comp["command"]["environment"] = en if rng.random() < 0.6 else en.upper()
            if rng.random() < 0.4:
                comp["variables"] = {"c_" + rng.choice("xyz"): gen_value(rng)}
                comp["command"]["arguments"] += " %%(%s)s" % next(iter(comp["variables"]))
            if rng.random() < 0.3:
                comp["resourceRequest"] = {"numberThreads": rng.randint(1, 4)}
            if rng.random() < 0.25:
                comp["workflowAttributes"] = {"shutdownOn": rng.sample(["KnownIssue", "Killed", "SystemIssue"], 2)}
            rep = False
            if s == 0 and not refs_have_component(refs) and not replicated_stage0 and rng.random() < 0.3 and "n" in gvars:
                variables["default"]["global"]["n"] = str(rng.randint(1, 3))
                for p in platforms[1:]:
                    variables[p]["global"].pop("n", None)
                    variables[p].get("stages", {}).get("#0", {}).pop("n", None)
                variables["default"].get("stages", {}).get("#0", {}).pop("n", None)
                comp.setdefault("workflowAttributes", {})["replicate"] = "%(n)s"
                rep = True
                replicated_stage0 = True
            if s == 0 and not rep and "n" in gvars and rng.random() < 0.35:
                # a sibling that sets, for itself only, the variable another component of the stage replicates by
                comp.setdefault("variables", {})["n"] = str(rng.randint(4, 6))
            comps.append(comp)
            known.append((s, name, rep))
    if replicated_stage0:
        src = [k for k in known if k[2]][0]
        comps.append({"name": "collect", "stage": nstages - 1 if nstages > 1 else 0,
                      "command": {"executable": "cat", "arguments": "stage0.%s:ref" % src[1]},
                      "references": ["stage0.%s:ref" % src[1]], "workflowAttributes": {"aggregate": True}})
    doc = {"variables": variables, "platforms": platforms, "environments": envs, "components": comps}
    if rng.random() < 0.3:
        doc["status-report"] = {"#%d" % s: {"stage-weight": round(1.0 / nstages, 6) if nstages != 3 else [0.3, 0.3, 0.4][s]}
                                for s in range(nstages)}
    # user variable files
    vfiles = []
    nv = rng.choice([0, 2, 2, 3, 3, 4])
    user_names = [v for v in gnames if v != "n"]
    for i in range(nv):
        g = {v: "u%d-%s" % (i, gen_value(rng)) for v in rng.sample(user_names, rng.randint(1, min(4, len(user_names))))}
        if rng.random() < 0.3:
            g["novel_%d" % rng.randint(0, 2)] = "nv%d" % i
        d = {"global": g}
        if rng.random() < 0.5:
            d["stages"] = {"#%d" % s: {v: "u%d-s%d-%s" % (i, s, gen_value(rng))
                                       for v in rng.sample(user_names, rng.randint(1, min(2, len(user_names))))}
                           for s in range(nstages) if rng.random() < 0.6}
            if not d["stages"]:
                del d["stages"]
        if rng.random() < 0.15:
            del d["global"]
            if "stages" not in d:
                d["global"] = g
        vfiles.append({"name": "%s%d.yaml" % (rng.choice(["vars", "ovr", "a", "zz", "site"]), i), "doc": d})
    order = [v["name"] for v in vfiles]
    rng.shuffle(order)
    if len(order) >= 2 and rng.random() < 0.35:
        # a path given twice: mostly the first one again at the end (it must then win over the files in between)
        if rng.random() < 0.7:
            order.append(order[0])
        else:
            order.insert(rng.randrange(len(order) + 1), rng.choice(order))
    return {"id": jid, "kind": "flowir", "doc": doc, "files": files, "variable_files": vfiles,
            "variable_order": order, "platform": platform, "nstages": nstages}


SHADOW_VARS = ["N", "n", "numberPoints", "K"]


def gen_shadow_package(rng, jid):
    """Replica counts / aggregate flags given through a variable that the replicating component inherits from the
    global or the stage scope, next to SIBLINGS of the same stage that define the same variable privately with
    another value.  The loader hands the components to the replication pass in the iteration order of a set of
    (stage, name) tuples, i.e. in an order that changes with PYTHONHASHSEED: whatever is carried over from one
    component to the next shows as a difference between processes."""
    var = rng.choice(SHADOW_VARS)
    flag = rng.choice(["doAggregate", "collect"])
    n = rng.randint(1, 3)
    nstages = rng.choice([1, 2, 2])
    gvars = {var: rng.choice([n, str(n)]), flag: rng.choice(["no", "false", False]), "tag": "t"}
    variables = {"default": {"global": gvars}}
    if rng.random() < 0.4:
        # the stage gives the count, the global value is a decoy
        gvars[var] = n + 3
        variables["default"]["stages"] = {"#0": {var: rng.choice([n, str(n)])}}
    names = rng.sample(COMP_NAMES + ["sweep", "scan", "tune", "trim", "aa", "b"], rng.randint(4, 8))
    comps, replicators = [], []
    for i, name in enumerate(names):
        comp = {"name": name, "stage": 0,
                "command": {"executable": "echo", "arguments": "%s %%(%s)s %%(tag)s" % (name, var)}}
        role = "replicator" if i < 2 else rng.choice(["replicator", "overrider", "overrider", "plain", "flag-overrider"])
        if i == 2:
            role = "overrider"
        if role == "replicator":
            comp["workflowAttributes"] = {"replicate": "%%(%s)s" % var}
            comp["command"]["arguments"] += " %(replica)s"
            replicators.append(name)
        elif role == "overrider":
            comp["variables"] = {var: rng.choice([x for x in (1, 2, 3, 4, 5) if x != n])}
            if rng.random() < 0.3:
                comp["variables"][flag] = "yes"
        elif role == "flag-overrider":
            comp["variables"] = {flag: rng.choice(["yes", "true", True])}
        comps.append(comp)
    last = nstages - 1
    for k, src in enumerate(rng.sample(replicators, min(len(replicators), rng.randint(1, 2)))):
        # a consumer that stays in the region (the flag says no) and one that aggregates
        comps.append({"name": "use%d" % k, "stage": last,
                      "command": {"executable": "cat", "arguments": "stage0.%s:ref" % src},
                      "references": ["stage0.%s:ref" % src],
                      "workflowAttributes": {"aggregate": "%%(%s)s" % flag}})
        comps.append({"name": "collect%d" % k, "stage": last,
                      "command": {"executable": "cat", "arguments": "stage%d.use%d:ref" % (last, k)},
                      "references": ["stage%d.use%d:ref" % (last, k)],
                      "workflowAttributes": {"aggregate": True}})
    rng.shuffle(comps)
    doc = {"variables": variables, "platforms": ["default"], "environments": {"default": {}}, "components": comps}
    return {"id": jid, "kind": "flowir", "doc": doc, "files": {}, "variable_files": [], "variable_order": [],
            "platform": None, "nstages": nstages}


# the sweep/scan components ask for %(N)s replicas (N = 2 globally); their siblings tune/trim set N = 3 for themselves
MINIMAL_SHADOW = {"id": "minimal-shadow", "kind": "flowir", "files": {}, "variable_files": [], "variable_order": [],
                  "platform": None, "nstages": 2,
                  "doc": {"variables": {"default": {"global": {"N": 2}}},
                          "components": [
                              {"name": "sweep", "stage": 0, "command": {"executable": "echo", "arguments": "%(replica)s"},
                               "workflowAttributes": {"replicate": "%(N)s"}},
                              {"name": "scan", "stage": 0, "command": {"executable": "echo", "arguments": "%(replica)s"},
                               "workflowAttributes": {"replicate": "%(N)s"}},
                              {"name": "tune", "stage": 0, "command": {"executable": "echo", "arguments": "%(N)s"},
                               "variables": {"N": 3}},
                              {"name": "trim", "stage": 0, "command": {"executable": "echo", "arguments": "%(N)s"},
                               "variables": {"N": 3}},
                              {"name": "collect", "stage": 1, "references": ["stage0.sweep:ref"],
                               "command": {"executable": "echo", "arguments": "stage0.sweep:ref"},
                               "workflowAttributes": {"aggregate": True}}]}}

# ----------------------------------------------------------------------------------------
# generator of DOSINI packages (a directory of configuration files that the loader discovers by listing it)
# ----------------------------------------------------------------------------------------

DOSINI_COMPS = ["Generate", "Prepare", "Simulate", "Analyse", "Plot", "calc", "A", "BA"]


def gen_dosini_package(rng, jid):
    """A DOSINI package: conf/experiment[.<platform>].conf, conf/variables.conf, conf/variables.d/<platform>.conf,
    conf/stages.d/stage<N>.conf, all of them found by listing directories.  `history` = earlier loads of the same
    directory with createInstanceFiles=True (a launch): they leave the instance flavour of every file
    (stage<N>.instance.conf, experiment.instance.conf) next to the package flavour, with the user variables and the
    platform of THAT launch baked in.  The loads that are dumped come after."""
    nstages = rng.choice([1, 1, 2, 2, 3]) if rng.random() > 0.06 else 11
    platforms = rng.choice([[], [], ["plat"], ["plat", "hpc"]])
    gvars = {"numberPoints": str(rng.randint(1, 3)), "message": "package-default"}
    for v in rng.sample(VAR_NAMES, rng.randint(0, 3)):
        gvars[v] = gen_value(rng)
    variables = {"default": {"GLOBAL": gvars}}
    for s in range(min(nstages, 3)):
        if rng.random() < 0.4:
            variables["default"]["STAGE%d" % s] = {v: "s%d-%s" % (s, gen_value(rng))
                                                   for v in rng.sample(sorted(gvars), rng.randint(1, 2))
                                                   if v != "numberPoints"} or {"extra": "e"}
    experiment = {"default": {"ENV-MYENV": {"GREETING": "hello", "DEFAULTS": "PATH"}}}
    if rng.random() < 0.5:
        experiment["default"]["ENV-SECOND"] = {k: rng.choice(["1", "4", "$FOO/bin", "lit"])
                                               for k in rng.sample(ENV_VARS, rng.randint(1, 3))}
    for p in platforms:
        variables[p] = {"GLOBAL": {v: "p-%s" % gen_value(rng) for v in rng.sample(sorted(gvars), rng.randint(1, 2))
                                   if v != "numberPoints"} or {"message": "from-" + p}}
        if rng.random() < 0.4:
            variables[p]["GLOBAL"]["numberPoints"] = str(rng.randint(1, 3))
        experiment[p] = {"ENV-MYENV": {"GREETING": "hello from " + p}}
    stages = []
    producers = []
    for s in range(nstages):
        comps = {}
        names = rng.sample(DOSINI_COMPS, rng.randint(1, 3) if nstages <= 3 else 1)
        for name in names:
            args = ["%(message)s"] + ["-%s %%(%s)s" % (v[0], v) for v in rng.sample(sorted(gvars), rng.randint(0, 2))]
            opts = {"executable": rng.choice(["echo", "cat", "ls"])}
            refs = []
            rep = s == 0 and not any(p[2] for p in producers) and rng.random() < 0.7
            if not rep:
                for (ps, pn, prep) in rng.sample(producers, rng.randint(0, min(2, len(producers)))):
                    if prep or any(r.split(":")[0].split(".")[-1] == pn for r in refs):
                        continue
                    refs.append("stage%d.%s:ref" % (ps, pn))
            if rep:
                opts["replicate"] = "%(numberPoints)s"
                args.append("%(replica)s")
            args.extend(refs)
            opts["arguments"] = " ".join(args)
            if refs:
                opts["references"] = " ".join(refs)
            if rng.random() < 0.5:
                opts["environment"] = rng.choice(["myenv", "MYENV", "second" if "ENV-SECOND" in experiment["default"]
                                                  else "myenv"])
            comps[name] = opts
            producers.append((s, name, rep))
        stages.append(comps)
    reps = [p for p in producers if p[2]]
    if reps:
        stages[-1]["Collect"] = {"executable": "echo", "arguments": "stage0.%s:ref" % reps[0][1],
                                 "references": "stage0.%s:ref" % reps[0][1], "aggregate": "True"}
    doc = {"experiment": experiment, "variables": variables, "stages": stages}
    # user variable files: the pool serves the earlier launches and the loads that are dumped
    vfiles = []
    for i in range(rng.choice([1, 2, 2, 3])):
        g = {"message": "u%d-launch-override" % i}
        if rng.random() < 0.7:
            g["numberPoints"] = str(rng.randint(4, 5))
        for v in rng.sample(sorted(gvars), rng.randint(0, 2)):
            if v not in ("numberPoints", "message"):
                g[v] = "u%d-%s" % (i, gen_value(rng))
        d = {"global": g}
        if rng.random() < 0.3:
            d["stages"] = {"#0": {"message": "u%d-s0" % i}}
        # user variable files come in two spellings: YAML and DOSINI ([GLOBAL] / [STAGE<N>] sections)
        vfiles.append({"name": "%s%d.%s" % (rng.choice(["vars", "ovr", "a", "zz", "site"]), i,
                                            rng.choice(["yaml", "conf"])), "doc": d})
    names = [v["name"] for v in vfiles]
    history = []
    for _ in range(rng.choice([0, 1, 1, 1, 2])):
        history.append({"variable_files": rng.sample(names, rng.randint(0 if len(history) else 1, len(names))),
                        "platform": rng.choice([None] + platforms)})
    order = rng.sample(names, rng.randint(0, len(names))) if rng.random() < 0.6 else []
    return {"id": jid, "kind": "dosini", "doc": doc, "files": {"data/in.txt": "x\n"} if rng.random() < 0.3 else {},
            "variable_files": vfiles, "variable_order": order, "history": history,
            "platform": rng.choice([None] + platforms), "nstages": nstages}


# the directory was launched once with numberPoints=5: conf/stages.d holds stage0.conf AND stage0.instance.conf
MINIMAL_DOSINI = {"id": "minimal-dosini", "kind": "dosini", "files": {}, "platform": None, "nstages": 1,
                  "doc": {"experiment": {"default": {"ENV-MYENV": {"GREETING": "hello"}}},
                          "variables": {"default": {"GLOBAL": {"numberPoints": "3", "message": "package-default"}}},
                          "stages": [{"Generate": {"executable": "echo", "arguments": "%(message)s %(replica)s",
                                                   "environment": "myenv", "replicate": "%(numberPoints)s"},
                                      "Collect": {"executable": "echo", "arguments": "Generate:ref",
                                                  "references": "Generate:ref", "aggregate": "True"}}]},
                  "variable_files": [{"name": "launch.yaml",
                                      "doc": {"global": {"numberPoints": "5", "message": "launch-override"}}}],
                  "variable_order": [], "history": [{"variable_files": ["launch.yaml"], "platform": None}]}


def listing_mode(idx):
    """the order in which child number idx sees the entries of every directory"""
    return [None, "ascending", "descending"][idx] if idx < 3 else "shuffle:%d" % idx


JOB_KEYS = ("id", "kind", "doc", "files", "variable_files", "variable_order", "platform", "nstages", "history")


def case_of(job):
    return {k: job[k] for k in JOB_KEYS if k in job}


def unjson_keys(obj):
    """JSON turns integer keys into strings: the generator marks them as '#<int>' (as harness/c15_child.py)"""
    if isinstance(obj, dict):
        out = {}
        for k, v in obj.items():
            if isinstance(k, str) and k.startswith("#") and k[1:].lstrip("-").isdigit():
                k = int(k[1:])
            out[k] = unjson_keys(v)
        return out
    if isinstance(obj, list):
        return [unjson_keys(x) for x in obj]
    return obj


def check_visit_orders(ctx, jobs, norders, record=True):
    """Explicit orders where the API allows: FlowIRConcrete.replicate() hands the components of instance() to
    FlowIR.apply_replicate in the iteration order of a set; here apply_replicate is called with the same components
    in the sorted order, the reversed one and random ones.  Oracle: the same replicated components (as a set)."""
    import logging
    import experiment.model.frontends.flowir as F
    failures = []
    prev = logging.root.manager.disable
    logging.disable(logging.CRITICAL)
    try:
        for job in jobs:
            if job.get("kind", "flowir") != "flowir":
                continue
            doc = unjson_keys(copy.deepcopy(job["doc"]))
            if not any("replicate" in (c.get("workflowAttributes") or {}) for c in doc.get("components", [])):
                continue
            platform = job.get("platform") or "default"
            try:
                conc = F.FlowIRConcrete(copy.deepcopy(doc), platform, {})
                inst = conc.instance(platform, ignore_errors=True, fill_in_all=False)
                comps = sorted(inst["components"], key=lambda c: (c.get("stage", 0), c["name"]))
                pvars = inst["variables"][platform]
                deps = conc.get_application_dependencies()
            except Exception:  # noqa
                continue
            orders = [list(range(len(comps))), list(range(len(comps) - 1, -1, -1))]
            seeds = [ctx.rng.randrange(1 << 30) for _ in range(norders)]
            for sd in seeds:
                o = list(range(len(comps)))
                random.Random(sd).shuffle(o)
                orders.append(o)
            outs = []
            for o in orders:
                try:
                    r = F.FlowIR.apply_replicate([copy.deepcopy(comps[i]) for i in o], copy.deepcopy(pvars), False,
                                                 list(deps), top_level_folders=None)
                    outs.append(sorted(json.dumps(c, sort_keys=True, default=str) for c in r))
                except Exception as exc:  # noqa
                    outs.append(["error:" + type(exc).__name__])
            case = case_of(job)
            case["visit_orders"] = [[comps[i]["name"] for i in o] for o in orders]
            if record:
                ctx.tag("explicit-visit-orders")
            for o, r in zip(orders[1:], outs[1:]):
                if r != outs[0]:
                    def names(x):
                        return sorted("stage%s.%s" % (json.loads(c).get("stage", 0), json.loads(c)["name"])
                                      for c in x if not c.startswith("error:")) or x
                    failures.append(("replication-depends-on-component-visiting-order", case,
                                     {"order_a": [comps[i]["name"] for i in orders[0]], "names_a": names(outs[0]),
                                      "order_b": [comps[i]["name"] for i in o], "names_b": names(r)}))
                    break
    finally:
        logging.disable(prev)
    if record:
        for f in failures:
            ctx.fail(*f)
    return failures


def refs_have_component(refs):
    return any(not r.startswith("data/") for r in refs)


# ----------------------------------------------------------------------------------------
# generator of DSL 2.0 packages
# ----------------------------------------------------------------------------------------

DSL_STEPS = ["work", "last", "prep", "work-I", "stage1.sim", "a.b", "x_y", "run", "last-II"]
DSL_ENV_KEYS = ["ALPHA", "BETA", "OMP_NUM_THREADS", "LD_LIBRARY_PATH", "Z", "MY_HOME"]
DSL_ENV_VALUES = ["1", "4", "/opt/tool/bin", "$FOO/bin", "lit", "${BAR}x", "$ALPHA/bin", "${BETA}:lib"]
DSL_WORDS = ["hello", "a b", "x", "0.5", "run-1"]


def shuffled_dict(rng, d):
    ks = list(d)
    rng.shuffle(ks)
    return {k: d[k] for k in ks}


def gen_dsl_env(rng, bases):
    """one of a few environments, written with its keys in a random order; now and then a variant"""
    e = shuffled_dict(rng, rng.choice(bases))
    r = rng.random()
    if r < 0.10:
        e[rng.choice(list(e))] = "other"             # a different environment
    elif r < 0.20:
        e["UNSET_" + rng.choice("AB")] = None         # None entries do not count
        e = shuffled_dict(rng, e)
    elif r < 0.25 and "OMP_NUM_THREADS" in e and e["OMP_NUM_THREADS"].isdigit():
        e["OMP_NUM_THREADS"] = int(e["OMP_NUM_THREADS"])   # str(value) counts
    return e


def gen_dsl_doc(rng):
    nb = rng.randint(1, 3)
    bases = []
    for _ in range(nb):
        ks = rng.sample(DSL_ENV_KEYS, rng.randint(2, 4))
        bases.append({k: rng.choice(DSL_ENV_VALUES) for k in ks})
    comps, wfs = [], []
    sig = {}     # template name -> {"params": {name: has_default}, "wf": bool, "paths": [relative paths of component steps]}
    for i in range(rng.randint(2, 4)):
        name = "c-" + "abcd"[i]
        params = [{"name": "msg", "default": rng.choice(DSL_WORDS)}]
        has_src = rng.random() < 0.55
        if has_src:
            params.append({"name": "src"})
        has_src2 = has_src and rng.random() < 0.35
        if has_src2:
            params.append({"name": "src2", "default": "nothing"})
        command = {"executable": rng.choice(["echo", "cat", "ls", "/bin/true"]),
                   "arguments": "%(msg)s" + (" %(src)s" if has_src else "") + (" -x %(src2)s" if has_src2 else "")}
        variables = None
        if rng.random() < 0.3:
            variables = {"k_" + c: rng.choice(DSL_WORDS) for c in rng.sample("xyz", rng.randint(1, 3))}
            command["arguments"] += "".join(" %%(%s)s" % k for k in variables)
        style = rng.choice(["param", "param", "param", "param", "literal", "literal", "none", "unset", "param-none"])
        if style == "param":
            params.append({"name": "environment", "default": gen_dsl_env(rng, bases)})
            command["environment"] = "%(environment)s"
        elif style == "param-none":
            params.append({"name": "environment", "default": "none"})
            command["environment"] = "%(environment)s"
        elif style == "literal":
            command["environment"] = gen_dsl_env(rng, bases)
        elif style == "none":
            command["environment"] = "none"
        rng.shuffle(params)
        t = {"signature": {"name": name, "parameters": params}, "command": command}
        if variables:
            t["variables"] = variables
        if rng.random() < 0.2:
            t["resourceRequest"] = {"numberThreads": rng.randint(1, 4)}
        if rng.random() < 0.2:
            t["workflowAttributes"] = {"shutdownOn": rng.sample(["KnownIssue", "Killed", "SystemIssue"], 2)}
        comps.append(t)
        sig[name] = {"params": {q["name"]: "default" in q for q in params}, "wf": False, "paths": [[]]}
    depth = rng.randint(1, 3)
    pool = [c["signature"]["name"] for c in comps]
    for lv in range(1, depth + 1):
        root = lv == depth
        level_names = []
        for i in range(1 if root else rng.randint(1, 2)):
            name = "main" if root else "w%d-%s" % (lv, "xy"[i])
            params = []
            if root:
                params.append({"name": "foo", "default": rng.choice(DSL_WORDS)})
                if rng.random() < 0.5:
                    params.append({"name": "bar", "default": rng.choice(DSL_WORDS)})
            else:
                if rng.random() < 0.5:
                    params.append({"name": "src"})
                if rng.random() < 0.3:
                    params.append({"name": "msg", "default": rng.choice(DSL_WORDS)})
            if rng.random() < 0.5:
                params.append({"name": "env", "default": gen_dsl_env(rng, bases)})
            own = {q["name"] for q in params}
            step_names = rng.sample(DSL_STEPS, rng.randint(1, 4))
            if rng.random() < 0.03:
                step_names[-1] = "step2"                      # not a component name: a naming error
            steps, execute, paths = {}, [], []
            prefer = [n for n in pool if sig[n]["wf"]] if lv > 1 else []
            for j, sn in enumerate(step_names):
                tn = rng.choice(prefer) if (j == 0 and prefer) else rng.choice(pool)
                steps[sn] = tn
                args = {}
                tp = sig[tn]["params"]
                if "msg" in tp and rng.random() < 0.5:
                    lit = [q for q in ("foo", "bar", "msg") if q in own]
                    args["msg"] = ("%%(%s)s" % rng.choice(lit)) if (lit and rng.random() < 0.6) else rng.choice(DSL_WORDS)
                if "src2" in tp and paths and rng.random() < 0.7:
                    loc = "/".join(rng.choice(paths))
                    args["src2"] = rng.choice(["<%s>:ref", "<%s>/out.txt:ref", "<%s>/out.txt:output"]) % loc
                if "src" in tp:
                    sources = list(paths)
                    r = rng.random()
                    if "src" in own and (r < 0.3 or not sources):
                        args["src"] = "%(src)s"
                    elif sources:
                        loc = "/".join(rng.choice(sources))
                        args["src"] = rng.choice(["<%s>:ref", "<%s>:output", "<%s>/out.txt:ref", "<%s>/d/f.csv:copy"]) % loc
                    else:
                        args["src"] = "nothing"
                for en in ("environment", "env"):
                    if en in tp:
                        r = rng.random()
                        if r < 0.35:
                            args[en] = gen_dsl_env(rng, bases)
                        elif r < 0.55 and "env" in own:
                            args[en] = "%(env)s"
                        elif r < 0.60:
                            args[en] = "none" if en == "environment" else {}
                execute.append({"target": "<%s>" % sn, "args": shuffled_dict(rng, args)})
                for pth in sig[tn]["paths"]:
                    paths.append([sn] + pth)
            rng.shuffle(execute)                                 # a list: the visiting order follows it
            rng.shuffle(params)
            wfs.append({"signature": {"name": name, "parameters": params}, "steps": shuffled_dict(rng, steps),
                        "execute": execute})
            sig[name] = {"params": {q["name"]: "default" in q for q in params}, "wf": True, "paths": paths}
            level_names.append(name)
        pool = pool + level_names
    entry_args = {}
    for q in wfs[-1]["signature"]["parameters"]:
        if q["name"] in ("foo", "bar") and rng.random() < 0.6:
            entry_args[q["name"]] = rng.choice(DSL_WORDS)
    rng.shuffle(wfs)
    rng.shuffle(comps)
    return {"entrypoint": {"entry-instance": "main", "execute": [{"target": "<entry-instance>", "args": entry_args}]},
            "workflows": wfs, "components": comps}


def gen_dsl_package(rng, jid):
    doc = gen_dsl_doc(rng)
    files = {}
    for i in range(rng.randint(0, 2)):
        files["data/%s" % rng.choice(["in.txt", "b.dat", "a.dat", "Z.txt"])] = "content %d\n" % i
    main = [w for w in doc["workflows"] if w["signature"]["name"] == "main"][0]
    lit = [q["name"] for q in main["signature"]["parameters"] if q["name"] in ("foo", "bar")]
    vfiles = []
    for i in range(rng.choice([0, 0, 2, 3])):
        g = {v: "u%d-%s" % (i, rng.choice(["1", "low", "x"])) for v in rng.sample(lit, rng.randint(1, len(lit)))}
        vfiles.append({"name": "%s%d.yaml" % (rng.choice(["vars", "ovr", "a", "zz"]), i), "doc": {"global": g}})
    order = [v["name"] for v in vfiles]
    rng.shuffle(order)
    if len(order) >= 2 and rng.random() < 0.3:
        order.append(order[0])
    return {"id": jid, "kind": "dsl", "doc": doc, "files": files, "variable_files": vfiles, "variable_order": order,
            "platform": None, "nstages": 1}


# two templates carry the same two variables, written in opposite orders: one environment, whatever the order in
# which a copy of the document lists the keys
MINIMAL_DSL = {"id": "minimal-dsl", "kind": "dsl", "files": {}, "variable_files": [], "variable_order": [],
               "platform": None, "nstages": 1,
               "doc": {"entrypoint": {"entry-instance": "main", "execute": [{"target": "<entry-instance>", "args": {}}]},
                       "workflows": [{"signature": {"name": "main", "parameters": []},
                                      "steps": {"first": "producer", "second": "consumer"},
                                      "execute": [{"target": "<first>", "args": {}},
                                                  {"target": "<second>", "args": {"text": "<first>:output"}}]}],
                       "components": [
                           {"signature": {"name": "producer", "parameters": [
                               {"name": "environment", "default": {"ALPHA": "1", "BETA": "/opt/tool/bin"}}]},
                            "command": {"executable": "echo", "arguments": "hello", "environment": "%(environment)s"}},
                           {"signature": {"name": "consumer", "parameters": [
                               {"name": "text"},
                               {"name": "environment", "default": {"BETA": "/opt/tool/bin", "ALPHA": "1"}}]},
                            "command": {"executable": "echo", "arguments": "%(text)s",
                                        "environment": "%(environment)s"}}]}}


# ----------------------------------------------------------------------------------------
# DSL 2.0 in this process: equal documents -> equal FlowIR; model of the two naming loops
# ----------------------------------------------------------------------------------------

def permute_keys(obj, rnd):
    """same value, different insertion order of every mapping (lists keep their order: they are data)"""
    if isinstance(obj, dict):
        keys = list(obj.keys())
        rnd.shuffle(keys)
        return {k: permute_keys(obj[k], rnd) for k in keys}
    if isinstance(obj, list):
        return [permute_keys(x, rnd) for x in obj]
    return obj


def sorted_keys(obj):
    return json.loads(json.dumps(obj, sort_keys=True))


def dsl_convert(doc):
    """the real conversion; returns a canonical view of the FlowIR or the kind of error"""
    import experiment.model.frontends.dsl as D
    import experiment.model.errors as E
    try:
        ns = D.Namespace(**copy.deepcopy(doc))
    except Exception as exc:  # noqa
        return {"error": "namespace:" + type(exc).__name__}
    try:
        raw = D.namespace_to_flowir(ns).raw()
    except E.DSLInvalidError as exc:
        msgs = sorted(str(e)[:300] for e in exc.underlying_errors)
        kind = "invalid-name" if any("cannot be the name of a component" in m for m in msgs) else "invalid"
        return {"error": kind, "n_errors": len(msgs), "_messages": msgs[:4]}
    except Exception as exc:  # noqa
        return {"error": type(exc).__name__, "_messages": [str(exc)[:300]]}
    comps = []
    for c in raw.get("components", []):
        c = json.loads(json.dumps(c, sort_keys=True, default=str))
        comps.append(c)
    rest = {k: v for k, v in raw.items() if k != "components"}
    return {"components": comps, "rest": json.loads(json.dumps(rest, sort_keys=True, default=str))}


def dsl_visit(doc):
    """what the two naming loops of namespace_to_flowir read, from the real code: the component instances in the order
    ScopeStack visits them, with step name and environment; None when that cannot be observed"""
    import experiment.model.frontends.dsl as D
    try:
        ns = D.Namespace(**copy.deepcopy(doc))
        scopes = D.ScopeStack.from_namespace(namespace=ns, override_entrypoint_args=None)
        out = []
        for _loc, scope in scopes.scopes.items():
            if isinstance(scope.template, D.Component):
                cf = D.digest_dsl_component(scope=scope, template_dsl_location=[], scopes=scopes)
                if cf.errors:
                    return None
                env = cf.environment
                if env is not None and not isinstance(env, dict):
                    return None
                out.append({"loc": list(scope.location), "step": cf.step_name, "template": scope.template.signature.name,
                            "env": None if env is None else [[str(k), None if v is None else str(v)]
                                                              for k, v in env.items()]})
        return out
    except Exception:  # noqa
        return None


def dsl_features(visit, view):
    """(tags, non-trivial?)"""
    tags = []
    if visit is None or "error" in view:
        return ["dsl:" + str(view.get("error", "unobserved"))], False
    names = [c.get("name") for c in view["components"]]
    renamed = sum(1 for v, n in zip(visit, names) if n != v["step"].split(".", 1)[-1] and n != v["step"])
    by_env = {}
    for v, c in zip(visit, view["components"]):
        en = (c.get("command") or {}).get("environment")
        if v["env"] and isinstance(en, str) and en.startswith("env"):
            by_env.setdefault(en, []).append(sum(1 for _k, val in v["env"] if val is not None))
    shared = sum(1 for o in by_env.values() if len(o) >= 2)
    # the copies of the document write such an environment with its keys in different orders
    reordered = sum(1 for o in by_env.values() if len(o) >= 2 and min(o) >= 2)
    if renamed:
        tags.append("dsl:renamed-duplicates")
    if shared:
        tags.append("dsl:shared-environment")
    if reordered:
        tags.append("dsl:shared-multi-key-environment")
    if any(v["env"] is not None and any(x[1] is None for x in v["env"]) for v in visit):
        tags.append("dsl:None-entry")
    tags.append("dsl:instances:%d" % min(len(visit), 8))
    return tags, bool(renamed or reordered)


def check_dsl_inprocess(ctx, docs, nperm, record=True, extra_seeds=()):
    failures = []
    reqs, slots = [], []
    for di, doc in enumerate(docs):
        doc = sorted_keys(doc)
        base = dsl_convert(doc)
        visit = dsl_visit(doc)
        seeds = list(extra_seeds) + [ctx.rng.randrange(1 << 30) for _ in range(nperm)]
        case = {"kind": "dsl-inprocess", "doc": doc, "perm_seeds": seeds}
        tags, nontrivial = dsl_features(visit, base)
        if record:
            ctx.case(case, nontrivial=nontrivial, tags=["dsl-inprocess"] + tags)
        # oracle: equal documents (mappings written in another order) convert to the same FlowIR
        first = None
        for sd in seeds:
            pdoc = permute_keys(doc, random.Random(sd))
            other = dsl_convert(pdoc)
            if first is None:
                first = (pdoc, other)
            if strip_private(other) != strip_private(base):
                d = diff_paths(strip_private(base), strip_private(other))
                failures.append(("dsl-conversion-depends-on-mapping-order", case,
                                 {"perm_seed": sd, "permuted_document_yaml_order": json.dumps(pdoc),
                                  "differences": d}))
                break
        # the model is asked about the first permuted copy (its environments are written in arbitrary key orders)
        if first is not None and record:
            pvisit = dsl_visit(first[0])
            if pvisit is not None:
                reqs.append({"op": "dsl", "steps": [v["step"] for v in pvisit], "envs": [v["env"] for v in pvisit]})
                slots.append((dict(case, model_asked_about_perm_seed=seeds[0]), first[1], pvisit))
    mouts = ctx.model(reqs) if (reqs and ctx.driver is not None) else None
    if mouts is not None:
        for (case, base, visit), m in zip(slots, mouts):
            m_invalid = any(n == "invalid" for n in m["names"])
            if base.get("error") == "invalid-name" or (m_invalid and "error" not in base):
                ctx.compare("namespace_to_flowir naming error == DslLoad.assignNames has an invalid name", case,
                            {"invalid": m_invalid}, {"invalid": base.get("error") == "invalid-name"})
                continue
            if "error" in base:
                continue
            comps = base["components"]
            ctx.compare("namespace_to_flowir (stage, name) == DslLoad.assignNames", case,
                        {"names": m["names"]}, {"names": [[c.get("stage", 0), c.get("name")] for c in comps]})
            ctx.compare("namespace_to_flowir command.environment == DslLoad.assignEnvs", case,
                        {"envs": m["envs"]}, {"envs": [(c.get("command") or {}).get("environment") for c in comps]})
            envs = ((base["rest"].get("environments") or {}).get("default") or {})
            ctx.compare("namespace_to_flowir environments == DslLoad.registered", case,
                        {"registered": {n: sorted(map(list, e)) for n, e in m["registered"]}},
                        {"registered": {n: sorted([str(k), None if v is None else str(v)] for k, v in (e or {}).items())
                                        for n, e in envs.items()}})
    if record:
        for f in failures:
            ctx.fail(*f)
    return failures

# ----------------------------------------------------------------------------------------
# DOSINI in this process: explicit directory listing orders; model of the stage discovery
# ----------------------------------------------------------------------------------------

class ListingOrder(object):
    """every directory listing of this process (os.listdir / os.scandir, hence glob and os.walk) in a chosen order:
    "native", "ascending", "descending", "shuffle:<seed>"; `seen` records what was returned per directory"""

    def __init__(self, mode):
        self.mode = mode
        self.seen = {}

    def reorder(self, names):
        names = sorted(names)
        if self.mode == "descending":
            names = names[::-1]
        elif self.mode.startswith("shuffle:"):
            random.Random("%s|%s" % (self.mode, "|".join(names))).shuffle(names)
        return names

    def __enter__(self):
        self.listdir, self.scandir = os.listdir, os.scandir
        if self.mode == "native":
            return self
        outer = self

        def listdir(path="."):
            out = outer.reorder(outer.listdir(path))
            outer.seen[str(path)] = list(out)
            return out

        class Scan(object):
            def __init__(self, path="."):
                with outer.scandir(path) as it:
                    by_name = {e.name: e for e in it}
                order = outer.reorder(list(by_name))
                outer.seen[str(path)] = list(order)
                self._it = iter([by_name[n] for n in order])

            def __iter__(self):
                return self

            def __next__(self):
                return next(self._it)

            def close(self):
                self._it = iter(())

            def __enter__(self):
                return self

            def __exit__(self, *exc):
                self.close()
                return False

        os.listdir, os.scandir = listdir, Scan
        return self

    def __exit__(self, *exc):
        os.listdir, os.scandir = self.listdir, self.scandir
        return False


def ini_text(sections):
    lines = []
    for sec, opts in sections.items():
        lines.append("[%s]" % sec)
        for k, v in (opts or {}).items():
            lines.append("%s=%s" % (k, v))
        lines.append("")
    return "\n".join(lines) + "\n"


def gen_dosini_dir(rng):
    """the files of a conf/ directory: the package flavour of a generated DOSINI package, for a random number of its
    stages also an instance flavour whose [DEFAULT] section carries other values (what a launch with user variables
    stores), and files that no loader pattern matches"""
    job = gen_dosini_package(rng, "x")
    doc = job["doc"]
    files = {}
    for plat, sections in doc["experiment"].items():
        files["experiment.conf" if plat == "default" else "experiment.%s.conf" % plat] = ini_text(sections)
    for plat, sections in doc["variables"].items():
        files["variables.conf" if plat == "default" else "variables.d/%s.conf" % plat] = ini_text(sections)
    n = len(doc["stages"])
    for i, comps in enumerate(doc["stages"]):
        files["stages.d/stage%d.conf" % i] = ini_text(comps)
    launched = rng.random() < 0.8
    if launched:
        # the instance flavour covers all the stages, or (a launch of an older version of the package) fewer / more
        ni = rng.choice([n, n, n, max(1, n - 1), n + 1])
        baked = {"numberPoints": str(rng.randint(4, 6)), "message": "launch-override"}
        files["experiment.instance.conf"] = ini_text(doc["experiment"]["default"])
        for i in range(ni):
            comps = doc["stages"][i] if i < n else {"Late": {"executable": "echo", "arguments": "%(message)s"}}
            sections = {"DEFAULT": dict(doc["variables"]["default"]["GLOBAL"], **baked)}
            sections.update(comps)
            files["stages.d/stage%d.instance.conf" % i] = ini_text(sections)
    for noise in rng.sample(["stages.d/README", "stages.d/stage0.conf.orig", "stages.d/stage0.conf~", "stages.d/notes.txt",
                             "variables.d/README", "stages.d/.stage0.conf.swp"], rng.randint(0, 2)):
        files[noise] = "not a configuration file\n"
    return {"files": files, "launched": launched}


MINIMAL_DOSINI_DIR = {"launched": True, "files": {
    "experiment.conf": "[ENV-MYENV]\nGREETING=hello\n",
    "variables.conf": "[GLOBAL]\nnumberPoints=3\nmessage=package-default\n",
    "stages.d/stage0.conf": "[Generate]\nexecutable=echo\narguments=%(message)s %(replica)s\n"
                            "replicate=%(numberPoints)s\n",
    "experiment.instance.conf": "[ENV-MYENV]\nGREETING=hello\n",
    "stages.d/stage0.instance.conf": "[DEFAULT]\nnumberPoints=5\nmessage=launch-override\n\n[Generate]\n"
                                     "executable=echo\narguments=%(message)s %(replica)s\n"
                                     "replicate=%(numberPoints)s\n"}}


def stage_entries(names):
    """what the stage discovery reads from the names of a listing of conf/stages.d: [index, instance flavour?, name]
    for the names that match stage*.conf"""
    import fnmatch
    out = []
    for nm in names:
        if not fnmatch.fnmatchcase(nm, "stage*.conf"):
            continue
        digits = nm.split(".")[0][5:]
        if not digits.isdigit():
            return None
        out.append([int(digits), nm.endswith(".instance.conf"), nm])
    return out


def check_dosini_listing(ctx, docs, norders, record=True):
    """Dosini.load_from_directory on the same conf/ directory while the process sees every directory listed in
    explicit orders.  Oracle: the same FlowIR (or the same kind of error) for every order, for the package flavour
    and for the instance flavour.  Model: St4sd.C15Stages.discover predicts, from the names in the order listed, the
    file that Dosini._discover_stages picks for every stage."""
    import logging
    import experiment.model.frontends.dosini as DI
    failures, reqs, slots = [], [], []
    prev = logging.root.manager.disable
    logging.disable(logging.CRITICAL)
    scratch = tempfile.mkdtemp(prefix="c15-listing-")
    try:
        for di, doc in enumerate(docs):
            conf = os.path.join(scratch, "d%d" % di, "conf")
            for rel, text in doc["files"].items():
                path = os.path.join(conf, rel)
                os.makedirs(os.path.dirname(path), exist_ok=True)
                with open(path, "w") as fh:
                    fh.write(text)
            os.makedirs(os.path.join(conf, "stages.d"), exist_ok=True)
            modes = ["ascending", "descending", "native"] + ["shuffle:%d" % ctx.rng.randrange(1 << 30)
                                                              for _ in range(norders)]
            case = {"kind": "dosini-listing", "doc": doc, "listing_orders": modes}
            both = sum(1 for f in doc["files"] if f.endswith(".instance.conf") and f.startswith("stages.d/"))
            if record:
                ctx.case(case, nontrivial=both > 0,
                         tags=["dosini-listing", "dosini-listing:both-flavours" if both else "dosini-listing:package-only"])
            for is_instance in (False, True):
                outs = []
                for mode in modes:
                    with ListingOrder(mode) as lo:
                        try:
                            errs = []
                            flowir = DI.Dosini.load_from_directory(conf, [], {}, is_instance, out_errors=errs)
                            out = {"flowir": json.loads(json.dumps(flowir, sort_keys=True, default=str)
                                                        .replace(scratch, "$I")),
                                   "n_errors": len(errs)}
                        except Exception as exc:  # noqa
                            out = {"error": type(exc).__name__}
                        picked = None
                        try:
                            fn = getattr(DI.Dosini, "_discover_stages", None)
                            if fn is not None:
                                picked = {str(k): os.path.basename(v) for k, v in fn(conf, is_instance).items()}
                        except Exception:  # noqa
                            picked = None
                    outs.append(out)
                    listed = lo.seen.get(os.path.join(conf, "stages.d"))
                    if mode != "native" and record and picked is not None and listed is not None:
                        entries = stage_entries(listed)
                        if entries is not None:
                            upto = max([e[0] for e in entries] + [0]) + 1
                            reqs.append({"op": "stages", "listing": entries, "is_instance": is_instance, "upto": upto})
                            slots.append((dict(case, listing=mode, is_instance=is_instance, listed=listed), picked, upto))
                for mode, out in zip(modes[1:], outs[1:]):
                    if out != outs[0]:
                        failures.append(("dosini-load-depends-on-directory-listing-order", case,
                                         {"is_instance": is_instance, "listing_a": modes[0], "listing_b": mode,
                                          "differences": diff_paths(outs[0], out)}))
                        break
    finally:
        logging.disable(prev)
        shutil.rmtree(scratch, ignore_errors=True)
    mouts = ctx.model(reqs) if (reqs and ctx.driver is not None) else None
    if mouts is not None:
        for (case, picked, upto), m in zip(slots, mouts):
            ctx.compare("Dosini._discover_stages == C15Stages.discover (listing in the order given)", case,
                        {"stages": {str(i): m["stages"][i] for i in range(upto) if m["stages"][i] is not None}},
                        {"stages": picked})
    if record:
        for f in failures:
            ctx.fail(*f)
    return failures


MINIMAL = {"id": "minimal", "kind": "flowir",
           "doc": {"variables": {"default": {"global": {"v": "pkg"}}},
                   "components": [{"name": "c", "stage": 0, "command": {"executable": "echo", "arguments": "%(v)s"}}]},
           "files": {}, "variable_files": [{"name": "a.yaml", "doc": {"global": {"v": "from-a"}}},
                                           {"name": "b.yaml", "doc": {"global": {"v": "from-b"}}}],
           "variable_order": ["a.yaml", "b.yaml"], "platform": None, "nstages": 1}


MINIMAL_DUP = {"id": "minimal-dup", "kind": "flowir", "doc": MINIMAL["doc"], "files": {},
               "variable_files": MINIMAL["variable_files"], "variable_order": ["a.yaml", "b.yaml", "a.yaml"],
               "platform": None, "nstages": 1}

# two spellings of one environment name on one platform (names are case-insensitive): equal documents that list
# the two entries in a different order must load to the same environment
MINIMAL_ENVCASE = {"id": "minimal-envcase", "kind": "flowir",
                   "doc": {"environments": {"default": {"MyEnv": {"WHO": "first"}, "MYENV": {"WHO": "second"}}},
                           "components": [{"name": "c", "stage": 0,
                                           "command": {"executable": "echo", "environment": "myenv"}}]},
                   "files": {}, "variable_files": [], "variable_order": [], "platform": None, "nstages": 1}


# ----------------------------------------------------------------------------------------
# children
# ----------------------------------------------------------------------------------------

def child_env(hashseed):
    env = {"PATH": os.environ.get("PATH", "/usr/bin:/bin"), "HOME": os.environ.get("HOME", "/root"),
           "PYTHONHASHSEED": str(hashseed), "PYTHONDONTWRITEBYTECODE": "1", "LC_ALL": "C.UTF-8",
           "PYTHONPATH": os.pathsep.join([os.path.join(REPO, "python"), REPO]), "FOO": "/launch/foo", "BAR": "bar"}
    if os.environ.get("LOGNAME"):
        env["LOGNAME"] = os.environ["LOGNAME"]      # the run's own shadow-directory root (see ./check)
    return env


def run_children(jobs, hashseeds, rng, scratch, seeds=None):
    """returns {hashseed: {job id: dump}}; `seeds` ("<child index>/<job id>" -> [key seed, file order seed],
    "order/<child index>" -> [seed of the order in which that child loads the jobs, 0]) is filled with the
    permutation seeds used, or says which ones to use again"""
    procs = []
    seeds = {} if seeds is None else seeds
    for idx, hs in enumerate(hashseeds):
        js = []
        # process-level state shared between independent loads: every child but the first loads the packages in
        # another order (a result that depends on what was loaded before shows as a difference between processes)
        okey = "order/%d" % idx
        if okey not in seeds:
            seeds[okey] = [rng.randrange(1 << 30), 0]
        jobs_here = list(jobs)
        if idx > 0:
            random.Random(seeds[okey][0]).shuffle(jobs_here)
        for j in jobs_here:
            j2 = dict(j)
            key = "%d/%s" % (idx, j["id"])
            if key not in seeds:
                seeds[key] = [rng.randrange(1 << 30), rng.randrange(1 << 30)]
            j2["doc_key_seed"], j2["file_order_seed"] = seeds[key]
            js.append(j2)
        jp = os.path.join(scratch, "jobs-%d.json" % idx)
        op = os.path.join(scratch, "out-%d.json" % idx)
        with open(jp, "w") as fh:
            # every other child runs with all loggers enabled at DEBUG level (an ambient setting; see c15_child.py)
            json.dump({"tag": "h%d" % idx, "scratch": scratch, "jobs": js,
                       "logging": "debug" if idx % 2 == 1 else None, "listing": listing_mode(idx)}, fh)
        p = subprocess.Popen(["/venv/bin/python", CHILD, jp, op], env=child_env(hs), stdout=subprocess.PIPE,
                             stderr=subprocess.PIPE, cwd=scratch)
        procs.append((hs, p, op))
    res = {}
    for hs, p, op in procs:
        try:
            _o, e = p.communicate(timeout=1500)
        except subprocess.TimeoutExpired:
            p.kill()
            from harness.common import InfraError
            raise InfraError("C15 child with PYTHONHASHSEED=%s timed out" % hs)
        if p.returncode != 0 or not os.path.exists(op):
            from harness.common import InfraError
            raise InfraError("C15 child with PYTHONHASHSEED=%s failed: %s" % (hs, e.decode(errors="replace")[-1500:]))
        res[hs] = json.load(open(op))["results"]
    return res


def strip_private(x):
    if isinstance(x, dict):
        return {k: strip_private(v) for k, v in x.items() if not k.startswith("_")}
    if isinstance(x, list):
        return [strip_private(v) for v in x]
    return x


def diff_paths(a, b, path="", out=None, limit=8):
    out = [] if out is None else out
    if len(out) >= limit:
        return out
    if isinstance(a, dict) and isinstance(b, dict):
        for k in sorted(set(a) | set(b)):
            if k not in a or k not in b:
                out.append({"path": path + "/" + k, "a": a.get(k, "<absent>"), "b": b.get(k, "<absent>")})
            else:
                diff_paths(a[k], b[k], path + "/" + k, out, limit)
            if len(out) >= limit:
                break
    elif isinstance(a, list) and isinstance(b, list) and len(a) == len(b):
        for i, (x, y) in enumerate(zip(a, b)):
            diff_paths(x, y, path + "/%d" % i, out, limit)
            if len(out) >= limit:
                break
    elif a != b:
        out.append({"path": path, "a": a if not isinstance(a, (dict, list)) else json.dumps(a)[:200],
                    "b": b if not isinstance(b, (dict, list)) else json.dumps(b)[:200]})
    return out


# ----------------------------------------------------------------------------------------
# oracle + model
# ----------------------------------------------------------------------------------------

def expected_user_variables(job):
    """files layered in the order given, the last one winning (a path given twice counts where it is)"""
    by_name = {v["name"]: v["doc"] for v in job["variable_files"]}
    res = {}
    for n in job["variable_order"]:
        d = by_name[n]
        for k, v in d.get("global", {}).items():
            res.setdefault("global", {})[k] = v
        for s, sv in d.get("stages", {}).items():
            for k, v in sv.items():
                res.setdefault("stages", {}).setdefault(s.lstrip("#"), {})[k] = v
    return res


def flat_vars(uv):
    out = []
    for k, v in (uv.get("global") or {}).items():
        out.append([-1, str(k), str(v)])
    for s, sv in (uv.get("stages") or {}).items():
        for k, v in (sv or {}).items():
            out.append([int(str(s).lstrip("#")), str(k), str(v)])
    return sorted(out)


def model_layer_request(job):
    names = [v["name"] for v in job["variable_files"]]
    files = [flat_vars(v["doc"]) for v in job["variable_files"]]
    order = [names.index(n) for n in job["variable_order"]]
    queries = []
    for s in range(job.get("nstages", 1)):
        for n in sorted({e[1] for f in files for e in f}):
            queries.append([s, n])
    return {"op": "layer", "files": files, "order": order, "queries": queries}


def shadowed_by_sibling(job):
    """some component gives replicate/aggregate as %(v)s without defining v, and a component of its stage defines v"""
    comps = job["doc"].get("components", []) if isinstance(job.get("doc"), dict) else []
    for c in comps:
        for key in ("replicate", "aggregate"):
            val = (c.get("workflowAttributes") or {}).get(key)
            if isinstance(val, str) and val.startswith("%(") and val.endswith(")s"):
                v = val[2:-2]
                if v in (c.get("variables") or {}):
                    continue
                if any(o is not c and o.get("stage", 0) == c.get("stage", 0) and v in (o.get("variables") or {})
                       for o in comps):
                    return True
    return False


def component_level_names(job):
    out = {}
    for c in job["doc"].get("components", []) if job.get("kind") != "dosini" else []:
        out[(c.get("stage", 0), c["name"])] = set((c.get("variables") or {}).keys())
    return out


def difference_reproduces(job, hashseeds, seeds, scratch):
    """the same job once more in fresh child processes with the same hash seeds and the same permutations: a
    difference that is a function of hash seed / mapping order / file creation order shows again; one that came from
    the machine (a swallowed OSError or MemoryError under load, ...) does not"""
    d = tempfile.mkdtemp(prefix="confirm-", dir=scratch)
    try:
        sub = {k: v for k, v in seeds.items() if k.split("/", 1)[1] == job["id"] or k.startswith("order/")}
        r2 = run_children([job], hashseeds, None, d, seeds=sub)
        first = strip_private(r2[hashseeds[0]][job["id"]])
        return any(strip_private(r2[hs][job["id"]]) != first for hs in hashseeds[1:])
    finally:
        shutil.rmtree(d, ignore_errors=True)


def whole_run_again(jobs, hashseeds, seeds, scratch, cache, job, hs_a, hs_b):
    """all the packages once more, in the same per-child orders and with the same seeds (done once per check_jobs):
    does `job` differ again between the two processes?"""
    if "_whole" not in cache:
        d = tempfile.mkdtemp(prefix="confirm-all-", dir=scratch)
        try:
            cache["_whole"] = run_children(jobs, hashseeds, None, d, seeds=seeds)
        finally:
            shutil.rmtree(d, ignore_errors=True)
    r = cache["_whole"]
    return strip_private(r[hs_a][job["id"]]) != strip_private(r[hs_b][job["id"]])


def check_jobs(ctx, jobs, hashseeds, scratch, record=True):
    """runs the children, the oracle and the model comparison; returns the list of (what, job, detail) failures"""
    failures = []
    seeds = {}
    confirmed = {}
    res = run_children(jobs, hashseeds, ctx.rng, scratch, seeds=seeds)
    reqs = [model_layer_request(j) for j in jobs]
    mouts = ctx.model(reqs) if ctx.driver is not None else None
    for ji, job in enumerate(jobs):
        dumps = {hs: strip_private(res[hs][job["id"]]) for hs in hashseeds}
        case = case_of(job)
        case["hashseeds"] = list(hashseeds)
        case["listing_orders"] = [listing_mode(i) or "native" for i in range(len(hashseeds))]
        if job.get("again"):
            case["again"] = True
        first = dumps[hashseeds[0]]
        loaded = "error" not in first and "child_error" not in first
        nvf = len(set(job["variable_order"]))
        if record:
            ctx.case(case, nontrivial=loaded and (len(first.get("names", [])) >= 2 or nvf >= 2),
                     tags=["loaded" if loaded else "load-error:" + str(first.get("error") or first.get("child_error")),
                           "variable-files:%d" % nvf, "platform:%s" % job["platform"],
                           "dup-variable-file" if len(job["variable_order"]) != nvf else "no-dup"] +
                          (["replicated"] if any("replicate" in (c.get("workflowAttributes") or {})
                                                  for c in job["doc"].get("components", [])) else []) +
                          (["dosini:both-flavours-on-disk" if job.get("history") else "dosini:package-flavour-only",
                            "dosini:stages:%d" % job["nstages"]] if job.get("kind") == "dosini" else []) +
                          (["replicate-variable-shadowed-by-sibling"] if shadowed_by_sibling(job) else []) +
                          (["loaded-twice-in-one-process"] if job.get("again") else []) +
                          ["package:" + job.get("kind", "flowir")])
        for hs in hashseeds:
            if "child_error" in dumps[hs]:
                from harness.common import InfraError
                raise InfraError("C15 child crashed on job %s: %s" % (job["id"], res[hs][job["id"]].get("tb")))
        # (1) every process sees the same package
        for hs in hashseeds[1:]:
            if dumps[hs] != first:
                d = diff_paths(first, dumps[hs])
                ps = [x["path"] for x in d]
                if job.get("kind") == "dsl" and not any("user_variables" in x for x in ps):
                    slug = "dsl-package-load-differs-across-processes"
                elif job.get("kind") == "dosini":
                    slug = "dosini-package-load-differs-across-processes-or-listing-orders"
                elif any(("/conf_init" in x or "/conf_parametrize" in x or "user_variables" in x) for x in ps):
                    slug = "variable-layering-differs-across-processes"
                elif ps and all("/environment" in x for x in ps):
                    slug = "environments-differ-across-processes"
                else:
                    slug = "load-differs-across-processes"
                # the first differences of a kind are run once more (same seeds, fresh processes) before they count
                if confirmed.get(slug, 0) < 2:
                    if difference_reproduces(job, hashseeds, seeds, scratch):
                        confirmed[slug] = confirmed.get(slug, 0) + 1
                    elif whole_run_again(jobs, hashseeds, seeds, scratch, confirmed, job, hashseeds[0], hs):
                        # alone the package loads the same in every process: the difference needs the packages that
                        # were loaded before it (every child loads them in another order)
                        failures.append(("result-depends-on-earlier-cases", case,
                                         {"hashseed_a": hashseeds[0], "hashseed_b": hs, "differences": d,
                                          "note": "needs the other packages of the run: re-run ./check C15 with the "
                                                  "same --seed and tier (a replay of this package alone passes)",
                                          "orders": "child 0 loads the packages in the order generated, every other "
                                                    "child in an order shuffled with seeds['order/<child>']",
                                          "load_order_seeds": {k: v[0] for k, v in seeds.items()
                                                               if k.startswith("order/")}}))
                        break
                    else:
                        ctx.tag("difference-not-reproduced-with-the-same-seeds")
                        ctx.notes.append("C15: job %s differed between child processes (%s) but not when run again with "
                                         "the same hash seeds and permutations: %s" % (job["id"], slug, json.dumps(d)[:600]))
                        break
                failures.append((slug, case,
                                 {"hashseed_a": hashseeds[0], "hashseed_b": hs, "differences": d,
                                  "listing_a": "native", "listing_b": listing_mode(hashseeds.index(hs)) or "native"}))
                break
        # (1b) a package loaded a second time in the same process (after all the other packages) loads the same
        if job.get("again"):
            for hs in hashseeds:
                again = res[hs].get(job["id"] + "@again")
                if again is None:
                    continue
                if "child_error" in again:
                    from harness.common import InfraError
                    raise InfraError("C15 child crashed on job %s (second load): %s" % (job["id"], again.get("tb")))
                if strip_private(again) != dumps[hs]:
                    failures.append(("result-depends-on-earlier-cases", dict(case, again=True),
                                     {"hashseed": hs, "differences": diff_paths(dumps[hs], strip_private(again))}))
                    break
        # (2) user variable files: order given, last wins — at each of the three entry points
        exp = flat_vars(expected_user_variables(job))
        bad = None
        for hs in hashseeds:
            d = dumps[hs]
            if "error" in d:
                continue
            for where in ("experimentFromPackage", "conf_init", "conf_parametrize"):
                uv = d.get("user_variables") if where == "experimentFromPackage" else d.get(where, {}).get("user_variables")
                if uv is None or (isinstance(uv, dict) and "error" in uv):
                    continue
                got = flat_vars(uv)
                if got != exp and bad is None:
                    bad = {"hashseed": hs, "entry_point": where, "expected": exp, "got": got}
        if bad is not None:
            failures.append(("variable-files-not-layered-in-order-given", case, bad))
        # (3) model
        if mouts is not None and record:
            m = mouts[ji]
            mvars = sorted([e[0], e[1], e[2]] for e in m["vars"])
            for hs in hashseeds[:2]:
                d = dumps[hs]
                if "error" in d:
                    continue
                for where in ("conf_init", "conf_parametrize"):
                    w = d.get(where, {})
                    if "error" in w:
                        continue
                    ctx.compare("layer_many_variable_files(order given) == Layer.loadVars [%s]" % where, case,
                                {"vars": mvars}, {"vars": flat_vars(w["user_variables"])})
                    if job.get("kind") in ("dsl", "dosini"):
                        # user variables of a DSL 2.0 package override the arguments of the entry instance; there
                        # is no per-stage injection to compare
                        continue
                    # value injected per stage, for names that no component-level variable shadows
                    cl = component_level_names(job)
                    qs = reqs[ji]["queries"]
                    agree = True
                    detail = None
                    for (s, n), eff in zip(qs, m["effective"]):
                        if eff is None:
                            continue
                        for cname, cfg in w["components"].items():
                            st, nm = cname.split(".", 1)
                            if int(st[5:]) != s:
                                continue
                            base = nm.rstrip("0123456789") if (s, nm) not in cl else nm
                            if n in cl.get((s, nm), cl.get((s, base), set())):
                                continue
                            got = (cfg.get("variables") or {}).get(n)
                            if str(got) != eff:
                                agree = False
                                detail = {"component": cname, "variable": n, "model": eff, "impl": got}
                    ctx.compare("value injected per stage == Layer.effective [%s]" % where, case,
                                {"agree": True}, {"agree": agree, "detail": detail} if not agree else {"agree": True})
    if record:
        for f in failures:
            ctx.fail(*f)
    return failures


# ----------------------------------------------------------------------------------------
# memoization serialisation
# ----------------------------------------------------------------------------------------

def gen_info(rng, depth=0):
    k = rng.random()
    if depth >= 3 or k < 0.3:
        return rng.choice(["a", "b", "", "executable", "files", "x y", "10", "9", "Z", "é", 3, 0, True, None, 2.5])
    if k < 0.8:
        keys = rng.sample(["command", "arguments", "executable", "files", "backend", "image", "a", "B", "b", "ab", "a0",
                           "", "Z", "é"], rng.randint(0, 5))
        return {key: gen_info(rng, depth + 1) for key in keys}
    return [rng.choice(["a", "b", "ab", "", "B", "10", "9", "a:ref", "é"]) for _ in range(rng.randint(0, 4))]


def to_tree(x):
    if isinstance(x, dict):
        return {"d": [[k, to_tree(v)] for k, v in x.items()]}
    if isinstance(x, list):
        return {"l": [str(v) for v in x]}
    return {"p": str(x)}


def permuted(x, rng):
    if isinstance(x, dict):
        ks = list(x)
        rng.shuffle(ks)
        return {k: permuted(x[k], rng) for k in ks}
    if isinstance(x, list):
        y = list(x)
        rng.shuffle(y)
        return y
    return x


def check_serialize(ctx, n):
    import experiment.model.graph as G
    fn = G.ComponentSpecification._memoization_info_to_hash
    infos = []
    for _ in range(n):
        x = gen_info(ctx.rng)
        if not isinstance(x, dict):
            x = {"command": x}
        infos.append(x)
    mo = ctx.model([{"op": "serialize", "tree": to_tree(x)} for x in infos])
    for i, x in enumerate(infos):
        case = {"memo_info": x}
        h = fn(copy.deepcopy(x))
        y = permuted(x, ctx.rng)
        h2 = fn(copy.deepcopy(y))
        ctx.case(case, nontrivial=len(json.dumps(x)) > 30, tags=["serialize"])
        if h != h2:
            ctx.fail("memoization-hash-depends-on-dictionary-order", case, {"permuted": y, "h": h, "h_permuted": h2})
        if mo is not None:
            hm = hashlib.md5(mo[i]["buf"].encode("utf-8")).hexdigest()
            ctx.compare("_memoization_info_to_hash == md5(Layer.serialize)", case, {"hash": hm}, {"hash": h})


# ----------------------------------------------------------------------------------------

def classify_variable_files_set_order(what, case, detail):
    """narrow: only order-of-variable-files failures of packages given >= 2 distinct variable files"""
    return (what in ("variable-files-not-layered-in-order-given", "variable-layering-differs-across-processes")
            and len(set(case.get("variable_order", []))) >= 2)


def classify_env_names_equal_up_to_case(what, case, detail):
    """narrow: the document defines, on one platform, two environment names that are equal up to case, and
    nothing but environments differ between the processes"""
    if what != "environments-differ-across-processes":
        return False
    envs = (case.get("doc") or {}).get("environments") or {}
    collide = any(len({n.lower() for n in (e or {})}) < len(e or {}) for e in envs.values())
    paths = [d.get("path", "") for d in (detail or {}).get("differences", [])]
    return collide and bool(paths) and all("/environment" in p for p in paths)


CLASSIFIERS = {"c15_variable_files_set_order": classify_variable_files_set_order,
               "c15_environment_names_equal_up_to_case": classify_env_names_equal_up_to_case}


def make_shrinker(ctx, scratch_root):
    def shrink(what, case):
        seeds = list(range(8))
        tries = []
        if case.get("kind") == "dsl-inprocess":
            # the two-template namespace, then the namespace itself without one of its templates' extras
            for doc in (MINIMAL_DSL["doc"],):
                fs = check_dsl_inprocess(ctx, [doc], nperm=16, record=False)
                hit = [f for f in fs if f[0] == what]
                if hit:
                    return hit[0][1]
            return case
        if what == "replication-depends-on-component-visiting-order":
            for t in (copy.deepcopy(MINIMAL_SHADOW), case):
                hit = [f for f in check_visit_orders(ctx, [t], norders=24, record=False) if f[0] == what]
                if hit:
                    return hit[0][1]
            return case
        if case.get("kind") == "dosini-listing":
            hit = [f for f in check_dosini_listing(ctx, [copy.deepcopy(MINIMAL_DOSINI_DIR)], norders=8, record=False)
                   if f[0] == what]
            return hit[0][1] if hit else case
        if case.get("kind") == "dosini":
            tries.append(copy.deepcopy(MINIMAL_DOSINI))
        if case.get("kind") == "dsl":
            tries.append(copy.deepcopy(MINIMAL_DSL))
        if shadowed_by_sibling(case):
            tries.append(copy.deepcopy(MINIMAL_SHADOW))
        if len(set(case.get("variable_order", []))) >= 2:
            tries.append(dict(MINIMAL))
            # the same package with two of its files only
            names = []
            for n in case["variable_order"]:
                if n not in names:
                    names.append(n)
            for i in range(len(names)):
                for j in range(i + 1, len(names)):
                    c = {k: case[k] for k in ("id", "kind", "doc", "files", "platform", "nstages")}
                    c["variable_files"] = [v for v in case["variable_files"] if v["name"] in (names[i], names[j])]
                    c["variable_order"] = [names[i], names[j]]
                    tries.append(c)
        for t in tries[:4]:
            d = tempfile.mkdtemp(prefix="c15-shrink-", dir=scratch_root)
            try:
                fs = check_jobs(ctx, [t], seeds, d, record=False)
            finally:
                shutil.rmtree(d, ignore_errors=True)
            hit = [f for f in fs if f[0] == what]
            if hit:
                return hit[0][1]
        return case
    return shrink


def run(ctx):
    quick = ctx.tier == "quick"
    ctx.rule = ("case = one generated FlowIR package (1-3 stages, 1-3 components per stage, component/data "
                "references, replicate+aggregate, global/stage/platform variables, environments with randomly cased "
                "names, data files) + 0-4 user variable files (overlapping names, global and stage sections, "
                "sometimes one path given twice) + platform, loaded in %d processes with distinct PYTHONHASHSEED, "
                "mapping keys permuted and files created in a different order in each; non-trivial = the package "
                "loads and has >= 2 components or >= 2 distinct variable files; plus random memoization infos "
                "(nested dictionaries/lists, permuted); plus generated DSL 2.0 packages (2-4 component templates whose "
                "environments - parameter default, literal, execute argument, forwarded workflow parameter - are drawn "
                "from 1-3 multi-key mappings written in random key orders, with None entries and int values now and "
                "then; 1-3 levels of workflows, templates instantiated several times, step names from a small pool so "
                "that nested workflows repeat them, output references between steps, 0-3 user variable files) loaded "
                "in the same child processes; plus DSL 2.0 namespaces converted in this process from the document and "
                "from %d copies with permuted mappings, non-trivial = converts and (a duplicate step name was "
                "renamed or >= 2 instances share an environment of >= 2 variables); plus generated DOSINI packages "
                "(1-3 or 11 stages, 0-2 extra platforms, replicate through %%(numberPoints)s + aggregate, 1-3 user "
                "variable files in YAML or DOSINI spelling, a history of 0-2 earlier launches that stored the instance "
                "flavour in the directory) loaded in the same child processes, which see every directory listed in "
                "native / ascending / descending / shuffled order; plus generated DOSINI conf/ directories loaded in this "
                "process with Dosini.load_from_directory (package and instance flavour) under explicit listing orders, "
                "non-trivial = conf/stages.d holds both flavours of some stage" % (4 if quick else 16,
                                                                                   4 if quick else 8))
    ctx.assumptions = ["the order in which a directory lists its entries is varied through the creation order of the "
                       "files and by reordering what os.listdir / os.scandir return (ascending, descending, shuffled); "
                       "code that lists directories through another system interface is not reached by that",
                       "launch environment of all children is identical (set by the harness)"]
    ctx.trusted.append("C15: hash-seed independence is established by comparison of canonical dumps across child "
                       "processes (harness/c15_child.py), not by a theorem; PyYAML load/dump of the generated documents")
    ctx.trusted.append("C15: the order in which ScopeStack visits the component instances of a DSL 2.0 namespace, their "
                       "step names and environments are read from the real code (ScopeStack.from_namespace, "
                       "digest_dsl_component) and fed to the model of the two naming loops")
    hashseeds = [0, 1, 2, 3] if quick else list(range(16))
    # vary the seeds with VERIF_SEED but keep 0 in (hash randomisation disabled)
    hashseeds = [0] + [(ctx.seed * 97 + 1000 * i + i) % 4294967295 for i in range(1, len(hashseeds))]
    njobs = 40 if quick else 160
    ndsl = 20 if quick else 80
    nshadow = 12 if quick else 48
    ndosini = 14 if quick else 56
    jobs = [copy.deepcopy(MINIMAL), copy.deepcopy(MINIMAL_DUP), copy.deepcopy(MINIMAL_ENVCASE),
            copy.deepcopy(MINIMAL_DSL), copy.deepcopy(MINIMAL_SHADOW), copy.deepcopy(MINIMAL_DOSINI)] + \
           [gen_package(ctx.rng, "j%d" % i) for i in range(njobs)] + \
           [gen_shadow_package(ctx.rng, "s%d" % i) for i in range(nshadow)] + \
           [gen_dsl_package(ctx.rng, "d%d" % i) for i in range(ndsl)] + \
           [gen_dosini_package(ctx.rng, "i%d" % i) for i in range(ndosini)]
    ctx.rng.shuffle(jobs)
    # a sample is loaded a second time at the end of every child process (names collide across the packages:
    # the generators draw component / variable / environment names from small pools)
    for j in ctx.rng.sample(jobs, 8 if quick else 24):
        j["again"] = True
    corpus_dir = os.path.join(os.path.dirname(HERE), "corpus", "C15")
    if os.path.isdir(corpus_dir):
        for fn in sorted(os.listdir(corpus_dir)):
            if fn.endswith(".json"):
                j = json.load(open(os.path.join(corpus_dir, fn)))
                j = j.get("input", j)
                j["id"] = "corpus-" + fn[:-5]
                jobs.insert(0, j)
    scratch = tempfile.mkdtemp(prefix="c15-")
    try:
        ctx.classifiers = CLASSIFIERS
        ctx.shrinker = make_shrinker(ctx, scratch)
        check_jobs(ctx, jobs, hashseeds, scratch)
        check_visit_orders(ctx, jobs, norders=4 if quick else 10)
        check_dsl_inprocess(ctx, [MINIMAL_DSL["doc"]] + [gen_dsl_doc(ctx.rng) for _ in range(200 if quick else 1500)],
                            nperm=4 if quick else 8)
        check_dosini_listing(ctx, [copy.deepcopy(MINIMAL_DOSINI_DIR)] +
                             [gen_dosini_dir(ctx.rng) for _ in range(40 if quick else 300)],
                             norders=3 if quick else 8)
        check_serialize(ctx, 600 if quick else 6000)
        ctx.extra["hashseeds"] = hashseeds
        # the shrinker (if any failure) runs inside finish(): keep scratch until then
        ctx._c15_scratch = scratch
    except Exception:
        shutil.rmtree(scratch, ignore_errors=True)
        raise
    _wrap_finish(ctx, scratch)


def _wrap_finish(ctx, scratch):
    orig = ctx.finish

    def finish():
        try:
            return orig()
        finally:
            shutil.rmtree(scratch, ignore_errors=True)
    ctx.finish = finish


def replay(ctx, doc):
    case = doc.get("input") or doc["no_longer_checks"][-1]["input"]
    ctx.classifiers = CLASSIFIERS
    if "memo_info" in case:
        import experiment.model.graph as G
        x = case["memo_info"]
        h = G.ComponentSpecification._memoization_info_to_hash(copy.deepcopy(x))
        ctx.case(case, nontrivial=True, tags=["serialize"])
        mo = ctx.model([{"op": "serialize", "tree": to_tree(x)}])
        if mo is not None:
            ctx.compare("_memoization_info_to_hash == md5(Layer.serialize)", case,
                        {"hash": hashlib.md5(mo[0]["buf"].encode("utf-8")).hexdigest()}, {"hash": h})
        for _ in range(20):
            y = permuted(x, ctx.rng)
            if G.ComponentSpecification._memoization_info_to_hash(copy.deepcopy(y)) != h:
                ctx.fail("memoization-hash-depends-on-dictionary-order", case, {"permuted": y})
                break
        return
    if case.get("kind") == "dsl-inprocess":
        check_dsl_inprocess(ctx, [case["doc"]], nperm=32, extra_seeds=case.get("perm_seeds", []))
        return
    if case.get("kind") == "dosini-listing":
        check_dosini_listing(ctx, [case["doc"]], norders=24)
        return
    scratch = tempfile.mkdtemp(prefix="c15-")
    job = {k: v for k, v in case.items() if k not in ("hashseeds", "visit_orders", "listing_orders")}
    seeds = list(dict.fromkeys(list(case.get("hashseeds", [])) + list(range(16))))
    check_visit_orders(ctx, [job], norders=24)
    check_jobs(ctx, [job], seeds, scratch)
    _wrap_finish(ctx, scratch)
