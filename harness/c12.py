"""C12 — Task restarts stay within the configured policy.

Implementation under test (real code, in-process, single-threaded):
  * a real Experiment with one component (or several, see below) built from a FlowIR document carrying the generated
    workflowAttributes (maxRestarts / restartHookFile / restartHookOn / repeatInterval), backend local or simulator,
    real hook modules written into the package's `hooks/` directory;
  * the real ComponentState + Engine / RepeatingEngine created by tests.utils.new_controller and the real Controller;
  * Engine: the REAL `Engine.run` executes for the first launch and for every launch made by `Engine.restart`
    (InitPerformanceInfo, LaunchTask, SetLaunchTime, Wait, FinalisePerformanceInfo, HandleTaskExit ->
    `_setExitReason`): the task generator is a harness function that either returns a fake Task object whose exit
    reason is scripted (the task is created fine and then REPORTS e.g. SubmissionFailed) or raises
    OSError / JobLaunchError / another exception (no Task object); the launch is fired by the harness through the
    start observable handed to the real `run`.  When no launch is pending (the previous restart was refused, or
    `run()` raised) the exit is injected through the real `Engine._setExitReason(reason)`.
    RepeatingEngine: the ivars its real `exitReason()` reads are set.
    kill(): launch kinds `kill:before-run` / `kill:pre-launch` deliver the real `Engine.kill()` before run() was ever
    called resp. after run() (first launch, or the run() made by `Engine.restart`) and INSTEAD of the emission of the
    start observable, i.e. inside the launch delay; the oracle takes that task as killed whatever the engine reports;
    the reported exit reason is compared with `RestartKill.kexec` (lean/St4sd/Model/RestartKill.lean).
  * then the real `Controller._restartComponent(component)` (mode fin=false) or the real
    `Controller.postMortemCheck(state, component)` (mode fin=true: real TransitionComponentToFinalState,
    ComponentState.finish, Engine.shutdown).
  Intercepted: `engine.run` (instance attribute: counts invocations, may raise on request, otherwise calls the real
  method with a harness-owned start observable), `op.delay` inside engine.py (the launch delay), `threading.Thread`
  inside engine.py (counts restart threads of RepeatingEngine, may raise), `time.sleep` inside control.py, the
  answer of `MonitorExceptionTracker.isSystemStable`, RxPY pools/interval (synchronous stand-ins).
  The hook module on disk counts its calls: the oracle asserts, per restart-hook outcome of the property's quantifier,
  that an exit at which the hook was really called and refused (not required / not possible / failed / raising) does not
  start the task again; the model's `stepAsksHook` is compared with the call count.
  Loader: every policy is written into a FlowIR document and read back from `job.workflowAttributes`; the oracle judges
  restarts by the WRITTEN policy and compares it with the one the runtime reads (model: `Restart.load`).
  Several components: experiments with 2-5 components naming different hook files with fixed, different answers, exits
  interleaved (model: `Restart.mexec`); per component oracle + every component re-run alone on its own exits.
  Order independence: `order_suite()` is run first thing in the process, again after everything else in other orders,
  and in two child interpreters (`--order-child`): identical implementation answers are required.
Model: lean/St4sd/Model/Restart.lean via drv-c12.  Theorems: lean/St4sd/Props/C12.lean.
"""
from __future__ import annotations

import logging
import os
import shutil
import sys
import tempfile
import time

REASONS = ["Success", "KnownIssue", "SystemIssue", "SubmissionFailed", "UnknownIssue", "Killed", "Cancelled",
           "ResourceExhausted"]
SCHEMA_REASONS = [r for r in REASONS if r not in ("Killed", "Cancelled")]  # restated from the property text
CTXS = ["RestartContextRestartPossible", "RestartContextHookNotAvailable", "RestartContextRestartNotRequired",
        "RestartContextRestartNotPossible", "RestartContextHookFailed", "RestartContextRestartConditionsNotMet"]
HOOKS = ["ctx:" + c for c in CTXS] + ["yes", "no", "raises", "ioError", "junk"]
DISKS = ["absent", "scripted", "broken:syntax", "broken:noattr", "broken:raises", "importerror"]
FINAL_STATES = ("finished", "failed", "component_shutdown")
INITIATED = "RestartInitiated"
# restart-hook outcomes of the property's quantifier that REFUSE the restart ("not required, not possible, failed,
# raising"): codes.py documents RestartContextRestartNotRequired "A restart is not necessary", ...NotPossible "A restart
# is not possible", ...HookFailed "Tried to restart but something went wrong"; Engine.restart documents the old
# interface's False as "not required" and a raising hook (other than IOError) as "Will consider it
# RestartContextHookFailed".  ("possible"/True allow it; IOError, HookNotAvailable and junk are documented as "no
# specific hook: vanilla restart" - nothing is asserted about those beyond the policy bounds.)
REFUSING_HOOKS = {"ctx:RestartContextRestartNotRequired": "not required", "no": "not required (False)",
                  "ctx:RestartContextRestartNotPossible": "not possible", "ctx:RestartContextHookFailed": "failed",
                  "raises": "raising"}
PROPERTY_CAP = 5          # "consecutive re-submissions after failed submissions never exceed five"
PROPERTY_DEFAULT_MAX = 3  # "three by default"

HOOK_SRC = '''
import os
FIXED = None     # (answer, variant): a hook file whose Restart() always answers the same; None: scripted per exit
FILE = None
def Restart(workingDirectory, restarts, componentName, log, exitReason, exitCode):
    a, v = FIXED if FIXED else (os.environ['C12_HOOK'], int(os.environ.get('C12_HOOK_VARIANT', '0')))
    os.environ['C12_HOOK_CALLS'] = str(int(os.environ.get('C12_HOOK_CALLS', '0')) + 1)
    os.environ['C12_HOOK_FILES'] = os.environ.get('C12_HOOK_FILES', '') + str(
        FILE or os.path.basename(globals().get('__file__') or '?')) + ';'
    os.environ['C12_HOOK_SAW_RESTARTS'] = str(restarts)
    if a.startswith('ctx:'):
        return a[4:]
    if a == 'yes':
        return True
    if a == 'no':
        return False
    if a == 'raises':
        raise [RuntimeError, ValueError, KeyError, ZeroDivisionError, AssertionError, ImportError][v % 6]('hook says no')
    if a == 'ioError':
        raise [IOError, FileNotFoundError, OSError, PermissionError][v % 4]('hook cannot read')
    junk = [42, None, 'garbage', ['RestartContextRestartPossible'], 1.5, b'RestartContextRestartPossible', {}, 0, 1,
            ('RestartContextRestartNotRequired', False), '', 'restartcontextrestartnotrequired']
    return junk[v % len(junk)]
'''
DISK_SRC = {
    "scripted": HOOK_SRC,
    "broken:syntax": "def Restart(:\n    pass\n",
    "broken:noattr": "def SomethingElse():\n    return True\n",
    "broken:raises": "raise RuntimeError('hook module cannot be loaded')\n",
    "importerror": "import a_module_that_does_not_exist_c12\ndef Restart(*a, **k):\n    return True\n",
}

_S = {}


def _setup():
    """Deterministic single-threaded stand-ins (DESIGN 3.3); idempotent."""
    if _S:
        return _S
    import warnings
    warnings.filterwarnings("ignore")
    import reactivex
    import reactivex.scheduler
    ct = reactivex.scheduler.CurrentThreadScheduler()
    reactivex.interval = lambda *a, **k: reactivex.never()
    reactivex.scheduler.NewThreadScheduler = lambda *a, **k: ct
    import experiment.runtime.utilities.rx as RX
    RX.ThreadPoolGenerator.get_pool = classmethod(lambda cls, pool: ct)
    import experiment.runtime.control as C
    import experiment.runtime.engine as E
    import experiment.runtime.monitor as M
    import experiment.runtime.workflow as W
    import tests.utils as TU
    import threading as real_threading
    logging.disable(logging.CRITICAL)

    class FakeTime:
        def sleep(self, s):
            _S["slept"] = _S.get("slept", 0) + s

        def __getattr__(self, k):
            return getattr(time, k)

    C.time = FakeTime()

    class FakeThread:
        def __init__(self, target=None, **kw):
            self.target = target

        def start(self):
            if _S.get("thread_fails"):
                raise RuntimeError("can't start new thread")
            _S["threads"] = _S.get("threads", 0) + 1

    class FakeThreading:
        Thread = FakeThread

        def __getattr__(self, k):
            return getattr(real_threading, k)

    E.threading = FakeThreading()

    class OpProxy:
        """reactivex.operators as engine.py sees it: the launch delay is not waited for"""

        def __init__(self, real):
            self._real = real

        def delay(self, *a, **k):
            return lambda source: source

        def __getattr__(self, k):
            return getattr(self._real, k)

    E.op = OpProxy(E.op)
    tracker = M.MonitorExceptionTracker.defaultTracker()
    tracker.isSystemStable = lambda *a, **k: _S.get("stable", True)
    tracker.printStatus = lambda *a, **k: None
    _S.update(C=C, E=E, M=M, W=W, TU=TU)
    return _S


class StubProc:
    def __init__(self, reason):
        self.exitReason = reason
        self.returncode = 0 if reason == "Success" else 1

        self.status = "finished"
        self.schedulerId = "stub"

        class _Perf:
            def getElements(self):
                return {}

        self.performanceInfo = _Perf()

    def isAlive(self):
        return False

    def __getattr__(self, k):  # anything else the state dictionary reads about a finished task
        if k.startswith("__"):
            raise AttributeError(k)
        return None


class FakeTask(StubProc):
    """what the task generator returns when the backend accepts the task: it has already finished when wait() is
    called and reports the scripted exit reason"""

    def wait(self):
        import datetime
        t0 = datetime.datetime.now()
        while datetime.datetime.now() == t0:      # task-run-time is a divisor in FinalisePerformanceInfo
            pass
        return self.returncode

    def kill(self):
        pass

    def terminate(self):
        pass


LAUNCHES = ["task", "submitError:os", "submitError:launch", "otherError"]
# kill() delivered to the real engine at the points of its life cycle (property: "never after a killed ... task"):
# before run() was ever called, and between run() (first launch or the run() of a restart) and LaunchTask - the
# launch delay of production.  (A kill while the task runs needs the task pool's second thread: the synchronous
# schedulers of this harness deliver Terminate only after wait() returned; not driven.)
KILLS = ["kill:before-run", "kill:pre-launch"]
DEFAULT_LISTED = ["ResourceExhausted"]   # documented default of restartHookOn when the component writes no list


def fixed_hook_src(name, answer, variant=0):
    """a hook file whose Restart() always gives the same answer (contents differ from file to file)"""
    return HOOK_SRC.replace("FIXED = None ", "FIXED = (%r, %d) #" % (answer, variant), 1).replace(
        "FILE = None", "FILE = %r" % name, 1)


def file_src(name, spec):
    if spec["disk"] == "fixed":
        return fixed_hook_src(name, spec["answer"], spec.get("variant", 0))
    return DISK_SRC[spec["disk"]]


def own_file_name(cfg):
    """the hook file a component uses: restartHookFile, restart.py when it names none, no file when it is ''"""
    if cfg["hookFile"] == "":
        return None
    return cfg["hookFile"] or "restart.py"


def comps_of(case):
    """[(name, cfg)] of a case: one component `comp`, or the components of a several-components case"""
    if "comps" in case:
        return [(c["name"], c["cfg"]) for c in case["comps"]]
    return [("comp", case["cfg"])]


def own_answer(case, k):
    """the fixed answer of component k's own hook file (None when it has no fixed-answer file)"""
    cfg = comps_of(case)[k][1]
    spec = (case.get("files") or {}).get(own_file_name(cfg) or "")
    return spec["answer"] if spec and spec["disk"] == "fixed" else None


def launch_kind(inp):
    return (inp.get("launch") or "task").split(":")[0]


def flowir_for(cfg, name="comp", header=True):
    lines = (["components:"] if header else []) + ["- name: %s" % name, "  command:", "    executable: echo",
                                                   "    arguments: hello"]
    if cfg["backend"] == "simulator":
        lines += ["  resourceManager:", "    config:", "      backend: simulator"]
        if cfg.get("sim_restart") is not None:
            lines += ["  variables:", "    sim_restart: '%s'" % cfg["sim_restart"]]
    wa = []
    if cfg["maxRestarts"] is not None:
        wa.append("    maxRestarts: %d" % cfg["maxRestarts"])
    if cfg["hookFile"] is not None:
        wa.append("    restartHookFile: '%s'" % cfg["hookFile"])
    if cfg["hookOn"] is not None:
        wa.append("    restartHookOn: [%s]" % ", ".join(cfg["hookOn"]))
    if cfg["repeating"]:
        wa.append("    repeatInterval: 5")
    if wa:
        lines += ["  workflowAttributes:"] + wa
    return "\n".join(lines) + "\n"


def flowir_for_case(case):
    return "".join(flowir_for(cfg, name, header=(k == 0)) for k, (name, cfg) in enumerate(comps_of(case)))


def hook_files(cfg):
    if cfg["disk"] == "absent":
        return {}
    name = cfg["hookFile"] if cfg["hookFile"] else "restart.py"
    return {"hooks/" + name: DISK_SRC[cfg["disk"]]}


def hook_files_for_case(case):
    if "comps" not in case:
        return hook_files(case["cfg"])
    return {"hooks/" + name: file_src(name, spec) for name, spec in sorted(case["files"].items())}


def written_policy(cfg):
    return {"maxRestarts": cfg["maxRestarts"], "hookFile": cfg["hookFile"],
            "hookOn": None if cfg["hookOn"] is None else list(cfg["hookOn"])}


def model_cfg(cfg):
    """the component as the model gets it: the policy as WRITTEN (the model's loader `Restart.load` gives the policy
    the runtime sees), backend / engine kind, what importing its own hook file gives"""
    if cfg["hookFile"] == "" or cfg["disk"] in ("absent", "importerror"):
        module = "fallback"
    elif cfg["disk"] in ("scripted", "fixed"):
        module = "scripted"
    else:
        module = "broken"
    sim = cfg["backend"] == "simulator" and str(cfg.get("sim_restart") or "yes").lower() in ("yes", "true")
    return {"written": written_policy(cfg), "simulator": sim, "repeating": bool(cfg["repeating"]), "hookModule": module}


class _Swallow(logging.Handler):
    """formats every record (so that lazily formatted arguments are evaluated as with a real handler), keeps nothing"""

    def emit(self, record):
        try:
            record.getMessage()
        except Exception:  # noqa
            pass


def _ambient_logging(level):
    """ambient setting a user may change: the log level.  None = logging disabled (the default of this harness);
    "debug"/"info"/"warning" = records of that level and above are really formatted and handled"""
    if not level:
        return lambda: None
    root = logging.getLogger()
    prev = (logging.root.manager.disable, root.level, list(root.handlers))
    logging.disable(logging.NOTSET)
    root.handlers[:] = [_Swallow()]
    root.setLevel({"debug": 1, "info": logging.INFO, "warning": logging.WARNING}[level])

    def restore():
        root.handlers[:] = prev[2]
        root.setLevel(prev[1])
        logging.disable(prev[0])
    return restore


class _Driven:
    """one component of the experiment under test: its real ComponentState and engine with the harness task
    generator, the wrapper around `run` and the launches the real `run()` is waiting for"""

    def __init__(self, S, cfg, comp):
        import reactivex.subject
        import experiment.runtime.errors as RE
        E = S["E"]
        self.S, self.cfg, self.comp, self.eng = S, cfg, comp, comp.engine
        self.runs = {"n": 0, "initial": 0, "created": 0}
        self.flags = {"run_fails": False, "initial": False}
        self.pending = []           # start observables of launches the real run() is waiting for
        self.script = []            # what the next call of the task generator does
        self.steps = 0
        self.threads = 0            # restart threads of a RepeatingEngine attributed to this component
        self.control = os.path.join(self.eng.job.directory, "CONTROL")
        eng, runs, flags, pending, script = self.eng, self.runs, self.flags, self.pending, self.script

        def generator(job, *a, **k):
            kind, reason = script.pop(0)
            if kind == "submitError:os":
                raise OSError("working directory vanished")
            if kind == "submitError:launch":
                raise RE.JobLaunchError("backend refused the task", None)
            if kind == "otherError":
                raise RuntimeError("task generator is broken")
            runs["created"] += 1
            return FakeTask(reason)

        def run_wrapper(*a, **k):
            if flags["initial"]:
                runs["initial"] += 1
            else:
                runs["n"] += 1
            if flags["run_fails"]:
                eng._runCalled = True
                raise RuntimeError("backend cannot launch")
            if cfg["repeating"]:
                eng._runCalled = True
                return
            start = reactivex.subject.Subject()
            E.Engine.run(eng, startObservable=start)      # the real method
            pending.append(start)

        eng.run = run_wrapper
        if not cfg["repeating"]:
            eng.taskGenerator = generator

    def seen(self):
        """the restart policy the runtime reads"""
        wa = self.eng.job.workflowAttributes
        on = wa.get("restartHookOn")
        return {"hookOn": None if on is None else list(on), "maxRestarts": wa.get("maxRestarts"),
                "hookFile": wa.get("restartHookFile")}

    def total(self):
        return self.runs["n"] + self.threads

    def task_exits(self, inp, no_initial_run):
        """the launch and the task exit; returns the launch label"""
        cfg, eng, pending, script = self.cfg, self.eng, self.pending, self.script
        reason = inp["reason"]
        first = self.steps == 0
        self.steps += 1
        if inp["control"]:
            with open(self.control, "w") as fh:
                fh.write("dlmeso\nsteps 10\nfinish\n")
        elif os.path.exists(self.control):
            os.remove(self.control)
        if cfg["repeating"]:
            eng.cancelMonitorEvent.set()
            eng.process = StubProc(reason)
            eng.kernelCompleted = True
            eng.lastExecution = False
            return "none"
        kill = (inp.get("launch") or "").startswith("kill:") and inp["launch"]
        if kill == "kill:before-run" and first and eng._runCalled is None:
            eng.kill()                              # the real method, before run() was ever called
            return "killed-before-run"
        if first and not no_initial_run:
            self.flags["initial"] = True
            try:
                eng.run()                           # first launch of the component's task
            finally:
                self.flags["initial"] = False
        if pending and kill:
            # run() was called (first launch, or by Engine.restart) and waits for the launch delay: the start
            # observable never gets to emit, kill() arrives first
            del pending[:]
            eng.kill()
            return "killed-before-launch"
        if pending:
            start = pending.pop(0)
            del pending[:]
            script[:] = [(inp.get("launch") or "task", reason)]
            start.on_next(0)                        # LaunchTask .. HandleTaskExit run synchronously
            label = launch_kind(inp) if not script else "not-launched"
            del script[:]
            return label
        if eng.process is not None:
            eng.process = FakeTask(reason)          # _setExitReason prefers the task's own exit reason
        eng._setExitReason(reason)
        return "none"


def impl_run(case, root):
    """Runs one history on the real code: one experiment with the component(s) of the case, every exit of the history
    delivered to its component.  Returns {"events": [...], "seen": [...], "hookOn": [...]} or {"error": name}."""
    S = _setup()
    C, E, TU = S["C"], S["E"], S["TU"]
    comps_cfg = comps_of(case)
    tmp = tempfile.mkdtemp(prefix="h-", dir=root)
    restore_logging = _ambient_logging(case.get("log"))
    try:
        try:
            exp = TU.experiment_from_flowir(flowir_for_case(case), tmp, extra_files=hook_files_for_case(case),
                                            checkExecutables=False)
            ctl, comps = TU.new_controller(exp)
            # what Controller.initialise records about the stage; its subscriptions are not made: the harness
            # delivers the post-mortem notification itself
            ctl.currentStage = exp._stages[0]
        except Exception as exc:  # noqa
            return {"error": "build:" + type(exc).__name__, "detail": str(exc)[:300]}
        by_name = {c.specification.identification.componentName: c for c in comps[0]}
        driven = []
        for name, cfg in comps_cfg:
            comp = by_name.get(name)
            if comp is None:
                return {"error": "component-missing:" + name}
            want = E.RepeatingEngine if cfg["repeating"] else E.Engine
            if type(comp.engine) is not want:
                return {"error": "engine-type:" + type(comp.engine).__name__}
            driven.append(_Driven(S, cfg, comp))
        seen_policy = [d.seen() for d in driven]
        S["threads"] = 0
        events = []
        launches = []
        has_kill = any(str(i.get("launch") or "").startswith("kill:") for i in case["inps"])
        for step_no, inp in enumerate(case["inps"]):
            k = inp.get("comp", 0)
            d = driven[k]
            cfg, eng, comp = d.cfg, d.eng, d.comp
            reason = inp["reason"]
            os.environ["C12_HOOK"] = inp.get("hook") or "junk"
            os.environ["C12_HOOK_VARIANT"] = str(inp.get("variant", 0))
            d.flags["run_fails"] = False
            S["thread_fails"] = bool(inp["runFails"])
            S["stable"] = bool(inp["stable"])
            launches.append(d.task_exits(inp, case.get("noInitialRun")))
            killed = launches[-1].startswith("kill")
            if not cfg["repeating"] and eng.exitReason() != reason and not killed:
                return {"error": "exit-reason-not-delivered", "detail": {"step": step_no, "wanted": reason,
                                                                         "engine": eng.exitReason(),
                                                                         "launch": launches[-1]}}
            d.flags["run_fails"] = bool(inp["runFails"])
            reported = eng.exitReason()             # what the engine says about the task that just ended
            before = d.total()
            others_before = [o.total() for o in driven]
            threads_before = S["threads"]
            os.environ["C12_HOOK_CALLS"] = "0"
            os.environ["C12_HOOK_FILES"] = ""
            try:
                if case["fin"]:
                    seen = {}
                    orig = ctl._restartComponent

                    def spy(component, *a, **k):
                        seen["code"] = orig(component, *a, **k)
                        return seen["code"]

                    ctl._restartComponent = spy
                    try:
                        ctl.postMortemCheck(None, comp)
                    finally:
                        del ctl._restartComponent
                    code = seen.get("code", "no-decision")
                elif case.get("explicit") or cfg["repeating"]:
                    code = ctl._restartComponent(comp, exitReason=reason, returncode=1)
                else:
                    code = ctl._restartComponent(comp)
            except Exception as exc:  # noqa
                code = "raised:" + type(exc).__name__
            d.threads += S["threads"] - threads_before
            ev = {"code": code, "restarts": int(eng.restarts), "resub": int(eng.resubmissionAttempts()),
                  "runs": d.total(), "shutdown": bool(eng.isShutdown),
                  "started": d.total() - before, "state": str(comp.state),
                  "finishCalled": bool(comp.finishCalled), "launch": launches[-1], "created": d.runs["created"],
                  "hookCalls": int(os.environ.get("C12_HOOK_CALLS", "0"))}
            if has_kill and not cfg["repeating"]:
                ev["engineReason"] = reported
            if "comps" in case:
                ev["comp"] = k
                ev["hookFiles"] = [f for f in os.environ.get("C12_HOOK_FILES", "").split(";") if f]
                ev["othersStarted"] = sum(o.total() - b for j, (o, b) in enumerate(zip(driven, others_before)) if j != k)
            events.append(ev)
        return {"events": events, "hookOn": seen_policy[0]["hookOn"] or [], "seen": seen_policy, "launches": launches}
    finally:
        restore_logging()
        shutil.rmtree(tmp, ignore_errors=True)


# ----------------------------------------------------------------------------------------
# oracle: restatement of the property on the implementation's observations, independent of the model
# ----------------------------------------------------------------------------------------

def oracle(case, out):
    """list of (slug, detail): every component of the case is judged by the policy IT wrote, on its own exits"""
    if "error" in out:
        return [("harness-could-not-drive-the-code:" + out["error"], out)]
    bad = []
    for k, (name, cfg) in enumerate(comps_of(case)):
        mine = [(j, inp, ev) for j, (inp, ev) in enumerate(zip(case["inps"], out["events"])) if inp.get("comp", 0) == k]
        fixed = own_answer(case, k)
        own = own_file_name(cfg)
        for what, detail in oracle_component(cfg, case["fin"], mine, out["seen"][k], fixed, own, "comps" in case):
            if "comps" in case:
                detail = dict(detail, component=name)
            bad.append((what, detail))
    return bad


def oracle_component(cfg, fin, mine, seen, fixed, own, several):
    """`mine` = [(position in the history, input, event)] of one component; `seen` = the policy the runtime reads for
    it; `fixed` = the answer its own hook file always gives (several-components cases), `own` = that file's name"""
    bad = []
    # the policy the runtime works with is the policy the component wrote (a missing list means the documented default,
    # a missing maximum / hook file stay missing: "three by default", "unlimited ... when a restart hook file is named
    # without a maximum")
    written = written_policy(cfg)
    listed = list(cfg["hookOn"]) if cfg["hookOn"] is not None else list(DEFAULT_LISTED)
    if sorted(seen["hookOn"] or []) != sorted(listed) or seen["hookOn"] is None \
            or seen["maxRestarts"] != written["maxRestarts"] \
            or type(seen["maxRestarts"]) is not type(written["maxRestarts"]) \
            or seen["hookFile"] != written["hookFile"]:
        bad.append(("policy-seen-by-runtime-differs-from-policy-written", {"written": written, "seen": seen}))
    if cfg["maxRestarts"] is not None:
        maximum = cfg["maxRestarts"]
    elif cfg["hookFile"]:
        maximum = -1            # "unlimited ... when a restart hook file is named without a maximum"
    else:
        maximum = PROPERTY_DEFAULT_MAX
    streak = 0
    restarts_started = 0        # times the task was started again for a reason other than a failed submission
    final_at = None
    for k, inp, ev in mine:
        # what ended the task: the harness delivered kill() to the engine before the task was launched - a killed task,
        # whatever the engine goes on to report about it -, otherwise the reason the task itself reported
        reason = "Killed" if str(ev.get("launch", "")).startswith("killed-") else inp["reason"]
        hook = fixed if several else inp["hook"]
        if several and ev.get("othersStarted"):
            bad.append(("exit-of-one-component-starts-another-components-task", {"step": k, "event": ev}))
        if several and any(f != own for f in ev.get("hookFiles", [])):
            bad.append(("restart-decided-by-another-components-hook-file", {"step": k, "own_hook_file": own, "event": ev}))
        if str(ev["code"]).startswith("raised:") or ev["code"] == "no-decision":
            bad.append(("restart-decision-raises", {"step": k, "event": ev}))
        started = ev["started"]
        if ev["code"] == INITIATED and started != 1:
            bad.append(("initiated-but-task-not-started-once", {"step": k, "event": ev}))
        if started > 0 or ev["code"] == INITIATED:
            if reason in ("Killed", "Cancelled"):
                bad.append(("task-started-again-after-killed-or-cancelled", {"step": k, "reason": reason, "event": ev}))
            elif reason not in listed and reason != "SubmissionFailed":
                bad.append(("task-started-again-for-unlisted-reason", {"step": k, "reason": reason, "listed": listed}))
            if final_at is not None:
                bad.append(("task-started-again-after-final-state", {"step": k, "final_at": final_at, "event": ev}))
            if reason != "SubmissionFailed":
                restarts_started += started if started > 0 else 1
            # every restart-hook outcome: the hook module's Restart() was really called at this exit and refused
            # (several components: a restart hook was called at this exit and the component's OWN hook file refuses)
            if ev.get("hookCalls", 0) > 0 and hook in REFUSING_HOOKS:
                bad.append(("task-started-again-although-restart-hook-refused",
                            {"step": k, "reason": reason, "hook": hook, "outcome": REFUSING_HOOKS[hook],
                             "event": ev}))
        if ev["code"] == INITIATED and reason == "SubmissionFailed":
            streak += 1
            if streak > PROPERTY_CAP:
                bad.append(("more-than-five-consecutive-resubmissions", {"step": k, "consecutive": streak}))
        else:
            streak = 0
        if maximum != -1:
            if ev["restarts"] > maximum:
                bad.append(("restart-counter-exceeds-maximum", {"step": k, "restarts": ev["restarts"], "maximum": maximum}))
            if restarts_started > maximum:
                bad.append(("task-restarted-more-often-than-maximum", {"step": k, "started": restarts_started,
                                                                        "maximum": maximum}))
        if fin:
            if ev["code"] != INITIATED:
                if ev["state"] not in FINAL_STATES or not ev["finishCalled"] or not ev["shutdown"]:
                    bad.append(("refused-restart-without-final-state", {"step": k, "event": ev}))
                if final_at is None:
                    final_at = k
            elif final_at is None and ev["state"] in FINAL_STATES:
                bad.append(("final-state-although-restart-initiated", {"step": k, "event": ev}))
    return bad


def classify_sf_in_hook_on(what, case, detail):
    """defect #5: SubmissionFailed listed in restartHookOn bypasses the cap (only that)"""
    return what == "more-than-five-consecutive-resubmissions" and "cfg" in case and \
        "SubmissionFailed" in (case["cfg"].get("hookOn") or [])


def classify_repeating_unlisted(what, case, detail):
    """RepeatingEngine restarted by the unstable-system path although ResourceExhausted is not listed"""
    return what == "task-started-again-for-unlisted-reason" and "cfg" in case and case["cfg"]["repeating"] and \
        detail.get("reason") == "ResourceExhausted"


def classify_repeating_max0(what, case, detail):
    """RepeatingEngine ignores an explicit maxRestarts of 0 (restarts once)"""
    return (what in ("restart-counter-exceeds-maximum", "task-restarted-more-often-than-maximum")
            and "cfg" in case and case["cfg"]["repeating"] and case["cfg"]["maxRestarts"] == 0)


CLASSIFIERS = {"c12_submissionfailed_listed_bypasses_cap": classify_sf_in_hook_on,
               "c12_repeating_engine_ignores_maxrestarts_zero": classify_repeating_max0,
               "c12_repeating_engine_restarted_for_unlisted_reason": classify_repeating_unlisted}


# ----------------------------------------------------------------------------------------
# generators
# ----------------------------------------------------------------------------------------

def gen_cfg(rng):
    cfg = {}
    cfg["maxRestarts"] = rng.choice([None, None, -1, 0, 1, 2, 3, 4, 7, 10, 11])
    cfg["hookFile"] = rng.choice([None, None, "", "custom.py"])
    k = rng.random()
    if k < 0.12:
        cfg["hookOn"] = None          # flowir default
    elif k < 0.2:
        cfg["hookOn"] = []
    else:
        on = [r for r in SCHEMA_REASONS if rng.random() < 0.4]
        if rng.random() < 0.35 and "SubmissionFailed" not in on:
            on.append("SubmissionFailed")
        rng.shuffle(on)
        cfg["hookOn"] = on
    cfg["disk"] = rng.choice(["absent", "scripted", "scripted", "scripted", "broken:syntax", "broken:noattr",
                              "broken:raises", "importerror"])
    if rng.random() < 0.2:
        cfg["backend"] = "simulator"
        cfg["sim_restart"] = rng.choice([None, "yes", "True", "no", "false", "YES"])
    else:
        cfg["backend"] = "local"
        cfg["sim_restart"] = None
    cfg["repeating"] = rng.random() < 0.15
    return cfg


def gen_inps(rng, cfg, n, fin):
    listed = cfg["hookOn"] if cfg["hookOn"] is not None else ["ResourceExhausted"]
    style = rng.choice(["listed", "listed", "submission", "submission-success", "any", "mixed", "unlisted-unstable",
                        "listed-hook-faults"])
    unlisted = [r for r in REASONS if r not in listed] or REASONS
    good_hooks = ["ctx:RestartContextRestartPossible", "yes", "junk", "ioError", "ctx:RestartContextHookNotAvailable"]
    lstyle = rng.choice([0.0, 0.0, 0.3, 0.5, 1.0])   # share of failed submissions that are raised by the task generator
    kstyle = rng.choice([0.0, 0.0, 0.08, 0.2, 0.5])  # share of launches that a kill() forestalls
    inps = []
    for _ in range(n):
        if style in ("listed", "listed-hook-faults") and listed:
            reason = rng.choice(listed) if rng.random() < 0.85 else rng.choice(REASONS)
        elif style == "submission":
            reason = "SubmissionFailed" if rng.random() < 0.93 else rng.choice(REASONS)
        elif style == "submission-success":
            reason = "SubmissionFailed" if rng.random() < 0.8 else rng.choice(["Success", "KnownIssue"])
        elif style == "mixed":
            reason = rng.choice((listed or REASONS) + ["SubmissionFailed", "ResourceExhausted"])
        elif style == "unlisted-unstable":
            reason = rng.choice(unlisted) if rng.random() < 0.8 else rng.choice(REASONS)
        else:
            reason = rng.choice(REASONS)
        if cfg["repeating"] and fin:
            # a RepeatingEngine's own exitReason() only ever reports these two
            reason = "ResourceExhausted" if reason in ("ResourceExhausted", "SubmissionFailed", "KnownIssue") else "Success"
        hook = rng.choice(good_hooks) if rng.random() < (0.8 if fin else 0.6) else rng.choice(HOOKS)
        if style == "listed-hook-faults" and rng.random() < 0.6:
            # a fault inside the user's hook (it raises, reports failure) or an outright refusal, at any point of the history
            hook = rng.choice(sorted(REFUSING_HOOKS))
        # how the launch before this exit goes: the backend accepts the task, which later reports `reason` (also
        # SubmissionFailed: image pull failures, scheduler TERM codes), or the task generator raises
        launch = "task"
        k = rng.random()
        if reason == "SubmissionFailed" and k < lstyle:
            launch = rng.choice(["submitError:os", "submitError:launch"])
        elif reason == "UnknownIssue" and k < 0.3:
            launch = "otherError"
        if not cfg["repeating"] and rng.random() < kstyle:
            # kill() reaches the engine before this launch happens (first launch, or the launch of the restart
            # initiated at the previous exit); at the first step possibly before run() was called at all
            reason, launch = "Killed", rng.choice(KILLS)
        inps.append({"reason": reason, "hook": hook, "variant": rng.randrange(12), "launch": launch,
                     "control": rng.random() < 0.4, "runFails": (not fin) and rng.random() < 0.08,
                     "stable": rng.random() < (0.25 if style == "unlisted-unstable" else 0.7)})
    return inps


def gen_case(rng, cfg, fin, maxlen):
    n = rng.choice([1, 2, 3, 5, 8, 12, 20, 30, maxlen, maxlen])
    n = min(n, maxlen)
    case = {"cfg": cfg, "fin": fin, "explicit": rng.random() < 0.3, "inps": gen_inps(rng, cfg, n, fin)}
    if rng.random() < 0.12:
        case["log"] = rng.choice(["debug", "debug", "info", "warning"])     # ambient setting: really handled log records
    return case


def _inp(reason, hook="ctx:RestartContextRestartPossible", control=False, run_fails=False, stable=True, variant=0,
         launch="task"):
    return {"reason": reason, "hook": hook, "variant": variant, "control": control, "runFails": run_fails,
            "stable": stable, "launch": launch}


def _cfg(maxRestarts=None, hookFile=None, hookOn=None, disk="scripted", backend="local", sim_restart=None, repeating=False):
    return {"maxRestarts": maxRestarts, "hookFile": hookFile, "hookOn": hookOn, "disk": disk, "backend": backend,
            "sim_restart": sim_restart, "repeating": repeating}


# ---- several components of one experiment, every hook file with its own fixed answer ----

COMP_NAMES = ["alpha", "beta", "gamma", "delta", "epsilon"]
FILE_NAMES = ["restart.py", "allow.py", "refuse.py", "custom.py", "other.py"]
ALLOWING = ["ctx:RestartContextRestartPossible", "yes"]
VANILLA = ["junk", "ioError", "ctx:RestartContextHookNotAvailable", "ctx:RestartContextRestartConditionsNotMet"]


def _file(answer, variant=0, disk="fixed"):
    return {"disk": disk, "answer": answer, "variant": variant} if disk == "fixed" else {"disk": disk}


def _mcomp(name, files, hookFile=None, hookOn=("ResourceExhausted",), maxRestarts=None, backend="local", sim_restart=None):
    cfg = _cfg(maxRestarts=maxRestarts, hookFile=hookFile, hookOn=None if hookOn is None else list(hookOn),
               backend=backend, sim_restart=sim_restart)
    own = own_file_name(cfg)
    cfg["disk"] = files[own]["disk"] if own in files else "absent"
    return {"name": name, "cfg": cfg}


def _minp(comp, reason, control=False, run_fails=False, stable=True, launch="task"):
    return {"comp": comp, "reason": reason, "control": control, "runFails": run_fails, "stable": stable, "launch": launch}


def gen_multi(rng, maxlen):
    nfiles = rng.choice([2, 2, 3, 4, 5])
    names = rng.sample(FILE_NAMES, nfiles)
    files = {}
    for j, n in enumerate(names):
        k = rng.random()
        if j == 0 or k < 0.3:
            files[n] = _file(rng.choice(ALLOWING))
        elif j == 1 or k < 0.75:
            files[n] = _file(rng.choice(sorted(REFUSING_HOOKS)), rng.randrange(12))
        elif k < 0.9:
            files[n] = _file(rng.choice(VANILLA), rng.randrange(12))
        else:
            files[n] = _file(None, disk=rng.choice(["broken:noattr", "broken:syntax", "importerror"]))
    ncomp = rng.choice([2, 2, 3, 3, 4, 5])
    comps = []
    sim = rng.random() < 0.12                   # one backend per experiment (the loader refuses to mix simulator and real)
    for j in range(ncomp):
        if j < len(names):
            own = names[j]                      # the first components use different files
        else:
            own = rng.choice(names + ["", "missing.py"])
        hook_file = None if own == "restart.py" else own
        k = rng.random()
        if k < 0.1:
            on = None
        elif k < 0.17:
            on = []
        else:
            on = ["ResourceExhausted"] + [r for r in ("KnownIssue", "SystemIssue", "UnknownIssue") if rng.random() < 0.4]
            rng.shuffle(on)
        comps.append(_mcomp(COMP_NAMES[j], files, hookFile=hook_file, hookOn=on,
                            maxRestarts=rng.choice([None, None, None, -1, 1, 2, 5]),
                            backend="simulator" if sim else "local", sim_restart=rng.choice(["no", "yes"]) if sim else None))
    fin = rng.random() < 0.6
    n = min(maxlen, rng.choice([3, 5, 8, 12, 20, 30]))
    order = rng.choice(["random", "allowing-first", "round-robin", "blocks"])
    allowing = [j for j in range(ncomp) if own_answer({"comps": comps, "files": files}, j) in ALLOWING]
    inps = []
    for step in range(n):
        if order == "allowing-first" and step < 2 and allowing:
            k = rng.choice(allowing)
        elif order == "round-robin":
            k = step % ncomp
        elif order == "blocks":
            k = (step * ncomp) // n
        else:
            k = rng.randrange(ncomp)
        listed = comps[k]["cfg"]["hookOn"] if comps[k]["cfg"]["hookOn"] is not None else DEFAULT_LISTED
        r = rng.random()
        if listed and r < 0.8:
            reason = rng.choice(listed)
        elif r < 0.9:
            reason = "SubmissionFailed"
        else:
            reason = rng.choice(REASONS)
        inps.append(_minp(k, reason, control=rng.random() < 0.2, stable=rng.random() < 0.85,
                          launch=rng.choice(["submitError:os", "submitError:launch"])
                          if reason == "SubmissionFailed" and rng.random() < 0.3 else "task"))
    return {"comps": comps, "files": files, "fin": fin, "explicit": rng.random() < 0.3, "inps": inps}


def multi_corpus():
    """the family: components of ONE experiment with different hook files and different hook outcomes (possible / not
    possible / not required / failed / raising / vanilla), restarted in varying orders"""
    cs = []
    outcomes = ["ctx:RestartContextRestartNotPossible", "ctx:RestartContextRestartNotRequired", "no",
                "ctx:RestartContextHookFailed", "raises"]
    for n, refusal in enumerate(outcomes):
        files = {"allow.py": _file(ALLOWING[n % 2]), "refuse.py": _file(refusal, n)}
        comps = [_mcomp("first", files, hookFile="allow.py", maxRestarts=[None, 2, -1][n % 3]),
                 _mcomp("second", files, hookFile="refuse.py", maxRestarts=[None, 2, -1][n % 3])]
        for fin in (True, False):
            # the permissive one restarts first / the refusing one is asked first / interleaved
            cs.append({"comps": comps, "files": files, "fin": fin, "explicit": False,
                       "inps": [_minp(0, "ResourceExhausted"), _minp(1, "ResourceExhausted"), _minp(1, "ResourceExhausted"),
                                _minp(0, "ResourceExhausted")]})
            cs.append({"comps": comps, "files": files, "fin": fin, "explicit": False,
                       "inps": [_minp(1, "ResourceExhausted"), _minp(0, "ResourceExhausted"), _minp(0, "ResourceExhausted"),
                                _minp(1, "ResourceExhausted")]})
    # the default restart.py of one component and a named file of another; a third with '' (no hook) and one whose
    # named file does not exist; an empty and a missing restartHookOn next to each other
    files = {"restart.py": _file("ctx:RestartContextRestartNotPossible"), "custom.py": _file("yes"),
             "other.py": _file("junk", 3)}
    comps = [_mcomp("alpha", files, hookFile="custom.py", hookOn=["KnownIssue", "ResourceExhausted"]),
             _mcomp("beta", files, hookFile=None, hookOn=["KnownIssue", "ResourceExhausted"]),
             _mcomp("gamma", files, hookFile="", hookOn=["ResourceExhausted"]),
             _mcomp("delta", files, hookFile="missing.py", hookOn=[]),
             _mcomp("epsilon", files, hookFile="other.py", hookOn=None, maxRestarts=1)]
    for fin in (True, False):
        cs.append({"comps": comps, "files": files, "fin": fin, "explicit": False,
                   "inps": [_minp(0, "KnownIssue"), _minp(1, "KnownIssue"), _minp(2, "ResourceExhausted", control=True),
                            _minp(3, "ResourceExhausted"), _minp(4, "ResourceExhausted"), _minp(0, "ResourceExhausted"),
                            _minp(1, "ResourceExhausted"), _minp(4, "ResourceExhausted"), _minp(4, "KnownIssue"),
                            _minp(2, "ResourceExhausted"), _minp(0, "SubmissionFailed"), _minp(3, "SubmissionFailed")]})
    return cs


def policy_cases(rng, quick):
    """the family: the restart policy as WRITTEN in a FlowIR document (restartHookOn missing / empty / every subset of the
    schema's reasons; maxRestarts missing / -1 / 0 / ...; restartHookFile missing / '' / named) goes through the real
    loader, and the restart decision for an exit with every exit reason is driven with the loaded policy"""
    import itertools
    subsets = [None, []] + [[r] for r in SCHEMA_REASONS]
    rest = [list(c) for n in range(2, len(SCHEMA_REASONS) + 1) for c in itertools.combinations(SCHEMA_REASONS, n)]
    subsets += rng.sample(rest, 6) if quick else rest
    cs = []
    for j, on in enumerate(subsets):
        basic = on is None or len(on) <= 1
        maxima = [None, 0, -1, 1] if basic else [rng.choice([None, 0, -1, 1, 3])]
        for mx in maxima:
            for hook_file in ([None, "", "custom.py"] if (basic and mx in (None, 0)) else [rng.choice([None, "", "custom.py"])]):
                cfg = _cfg(maxRestarts=mx, hookFile=hook_file, hookOn=on, disk="scripted",
                           backend="simulator" if (j + len(cs)) % 7 == 3 else "local", sim_restart=None)
                reasons = list(REASONS)
                rng.shuffle(reasons)
                fin = bool(len(cs) % 2)
                cs.append({"cfg": cfg, "fin": fin, "explicit": False,
                           "inps": [_inp(r, "yes") for r in (["ResourceExhausted"] if fin else []) + reasons]})
    return cs


def corpus_cases():
    cs = []
    # the Witness inputs (Witness/C12.lean)
    cs.append({"cfg": _cfg(hookOn=["SubmissionFailed"]), "fin": False, "explicit": False,
               "inps": [_inp("SubmissionFailed") for _ in range(6)]})
    cs.append({"cfg": _cfg(maxRestarts=0, hookOn=["ResourceExhausted"], repeating=True), "fin": False, "explicit": True,
               "inps": [_inp("ResourceExhausted")]})
    cs.append({"cfg": _cfg(hookOn=["KnownIssue"], repeating=True, disk="absent"), "fin": False, "explicit": True,
               "inps": [_inp("ResourceExhausted", "junk", stable=False)]})
    # cap reached without listing SubmissionFailed, reset by Success
    cs.append({"cfg": _cfg(hookOn=["KnownIssue"]), "fin": False, "explicit": False,
               "inps": [_inp("SubmissionFailed")] * 7 + [_inp("Success")] + [_inp("SubmissionFailed")] * 6})
    # every task is created fine and then REPORTS SubmissionFailed; the real controller finalises at the sixth
    cs.append({"cfg": _cfg(hookOn=["KnownIssue"]), "fin": True, "explicit": False,
               "inps": [_inp("SubmissionFailed") for _ in range(8)]})
    # created-then-failed and generator-raised failed submissions alternate, other failures in between
    cs.append({"cfg": _cfg(hookOn=["KnownIssue"], maxRestarts=-1), "fin": False, "explicit": False,
               "inps": [_inp("SubmissionFailed"), _inp("SubmissionFailed", launch="submitError:os"),
                        _inp("KnownIssue"), _inp("SubmissionFailed", launch="submitError:launch"),
                        _inp("SubmissionFailed"), _inp("UnknownIssue", launch="otherError"), _inp("SubmissionFailed"),
                        _inp("SubmissionFailed"), _inp("Success"), _inp("SubmissionFailed")]})
    # default maximum, hook always says possible
    cs.append({"cfg": _cfg(hookOn=["KnownIssue"]), "fin": False, "explicit": False, "inps": [_inp("KnownIssue")] * 6})
    # counters updated on refused restarts
    cs.append({"cfg": _cfg(maxRestarts=2, hookOn=["KnownIssue"]), "fin": False, "explicit": False,
               "inps": [_inp("KnownIssue", "ctx:RestartContextRestartNotPossible"), _inp("KnownIssue", "raises"),
                        _inp("KnownIssue"), _inp("SubmissionFailed")]})
    # named hook file without a maximum: unlimited
    cs.append({"cfg": _cfg(hookFile="custom.py", hookOn=["KnownIssue"]), "fin": True, "explicit": False,
               "inps": [_inp("KnownIssue")] * 12})
    # killed / cancelled, unstable system
    cs.append({"cfg": _cfg(hookOn=SCHEMA_REASONS, maxRestarts=-1), "fin": False, "explicit": False,
               "inps": [_inp("Killed", stable=False), _inp("Cancelled", stable=False), _inp("UnknownIssue", stable=False)]})
    # kill() at every point of the engine's life cycle before a launch: before run(), in the launch delay of the first
    # run(), in the launch delay of the run() of a restart (after 1 and after several restarts, every listed reason,
    # after re-submissions), with budgets left; bare _restartComponent (history goes on) and real post-mortem handling
    for fin in (False, True):
        for prev in SCHEMA_REASONS:
            if prev == "Success":
                continue
            cs.append({"cfg": _cfg(hookOn=[prev, "KnownIssue"], hookFile=["", None, "custom.py"][len(cs) % 3],
                                   maxRestarts=[None, -1, 5][len(cs) % 3]), "fin": fin, "explicit": False,
                       "inps": [_inp(prev), _inp("Killed", launch="kill:pre-launch"), _inp(prev), _inp("KnownIssue"),
                                _inp("Killed", launch="kill:pre-launch"), _inp("KnownIssue")]})
        cs.append({"cfg": _cfg(hookOn=["ResourceExhausted"], maxRestarts=-1), "fin": fin, "explicit": False,
                   "inps": [_inp("ResourceExhausted")] * 4 + [_inp("Killed", launch="kill:pre-launch", stable=False)] +
                           [_inp("ResourceExhausted")] * 2})
        cs.append({"cfg": _cfg(hookOn=["ResourceExhausted"]), "fin": fin, "explicit": False,
                   "inps": [_inp("Killed", launch="kill:before-run"), _inp("ResourceExhausted"),
                            _inp("Killed", launch="kill:pre-launch"), _inp("ResourceExhausted")]})
        cs.append({"cfg": _cfg(hookOn=["ResourceExhausted"], backend="simulator"), "fin": fin, "explicit": False,
                   "inps": [_inp("Killed", launch="kill:pre-launch"), _inp("ResourceExhausted"),
                            _inp("Killed", launch="kill:pre-launch"), _inp("SubmissionFailed", launch="submitError:os"),
                            _inp("Killed", launch="kill:pre-launch")]})
    # refusal gives the final state; later exits cannot restart
    cs.append({"cfg": _cfg(hookOn=["KnownIssue"], maxRestarts=1), "fin": True, "explicit": False,
               "inps": [_inp("KnownIssue"), _inp("KnownIssue"), _inp("KnownIssue"), _inp("SubmissionFailed")]})
    # simulator, SubmissionFailed listed
    cs.append({"cfg": _cfg(hookOn=["SubmissionFailed", "KnownIssue"], backend="simulator", maxRestarts=2), "fin": False,
               "explicit": False, "inps": [_inp("SubmissionFailed")] * 7 + [_inp("KnownIssue")] * 3})
    # fallback DLMESO hook with and without CONTROL, broken module
    cs.append({"cfg": _cfg(hookOn=["ResourceExhausted", "KnownIssue"], disk="absent"), "fin": False, "explicit": False,
               "inps": [_inp("ResourceExhausted", control=True), _inp("ResourceExhausted"), _inp("KnownIssue")]})
    cs.append({"cfg": _cfg(hookOn=["KnownIssue"], disk="broken:noattr"), "fin": False, "explicit": False,
               "inps": [_inp("KnownIssue")] * 5})
    # every refusing restart-hook outcome, first thing and after some restarts, default budget / named hook file
    # without a maximum (unlimited budget) / explicit maximum; real post-mortem handling and bare _restartComponent
    for hook in sorted(REFUSING_HOOKS):
        for variant in ((0, 1, 4) if hook == "raises" else (0,)):
            cs.append({"cfg": _cfg(hookOn=["ResourceExhausted"]), "fin": True, "explicit": False,
                       "inps": [_inp("ResourceExhausted", hook, variant=variant)] + [_inp("ResourceExhausted")] * 3})
        cs.append({"cfg": _cfg(hookFile="custom.py", hookOn=["KnownIssue", "ResourceExhausted"]), "fin": False,
                   "explicit": False,
                   "inps": [_inp("KnownIssue")] * 4 + [_inp("ResourceExhausted", hook, variant=3)] * 8 + [_inp("KnownIssue")]})
        cs.append({"cfg": _cfg(hookFile="custom.py", maxRestarts=11, hookOn=["SystemIssue"]), "fin": True,
                   "explicit": False, "log": "debug",
                   "inps": [_inp("SystemIssue")] * 10 + [_inp("SystemIssue", hook, variant=2), _inp("SystemIssue")]})
    return cs


# ----------------------------------------------------------------------------------------

def load_corpus_dir():
    import json
    from harness.common import VERIF
    d = os.path.join(VERIF, "corpus", "C12")
    out = []
    if os.path.isdir(d):
        for fn in sorted(os.listdir(d)):
            if fn.endswith(".json"):
                doc = json.load(open(os.path.join(d, fn)))
                out.append(doc.get("input", doc))
    return out


def tags_for(case, out):
    if "comps" in case:
        t = ["mode:" + ("postMortemCheck" if case["fin"] else "_restartComponent"), "several-components:%d" % len(case["comps"]),
             "hook-files:%d" % len(case["files"])]
        for ev in out.get("events", []):
            t.append("code:" + str(ev["code"]))
            if ev.get("hookCalls", 0) > 0:
                t.append("own-file-asked:" + str(own_answer(case, ev["comp"])))
        return t
    cfg = case["cfg"]
    if cfg["hookOn"] is None:
        wr = "missing"
    else:
        wr = "[]" if not cfg["hookOn"] else "%d-reasons" % len(cfg["hookOn"])
    t = ["mode:" + ("postMortemCheck" if case["fin"] else "_restartComponent"), "written-restartHookOn:" + wr,
         "engine:" + ("repeating" if cfg["repeating"] else "engine"), "backend:" + cfg["backend"],
         "disk:" + cfg["disk"], "hookFile:" + repr(cfg["hookFile"]), "maxRestarts:" + repr(cfg["maxRestarts"]),
         "len:%d" % (10 * (len(case["inps"]) // 10))]
    if "events" in out:
        for inp, ev in zip(case["inps"], out["events"]):
            t.append("code:" + str(ev["code"]))
            t.append("reason:" + inp["reason"])
            t.append("launch:" + ev["launch"] + ("/SubmissionFailed" if inp["reason"] == "SubmissionFailed" else ""))
            if ev["launch"].startswith("killed-"):
                t.append("kill:" + ev["launch"] + (":restart-pending" if ev["runs"] > 0 and ev["launch"] ==
                                                   "killed-before-launch" else ""))
            if ev.get("hookCalls", 0) > 0:
                t.append("hook-asked:" + (inp["hook"] if inp["hook"].startswith("ctx:") or inp["hook"] != "junk"
                                          else "junk"))
    if case.get("log"):
        t.append("ambient-log-level:" + case["log"])
    return t


def isolation_failures(case, out, root):
    """several components: every component, run ALONE in an experiment of its own (same hook files on disk) on its own
    exits, must give the same answers as inside the interleaved history"""
    bad = []
    if "comps" not in case or "events" not in out:
        return bad
    for k, comp in enumerate(case["comps"]):
        own = [dict(i, comp=0) for i in case["inps"] if i.get("comp", 0) == k]
        if not own:
            continue
        alone = dict(case, comps=[comp], inps=own)
        o = impl_run(alone, root)
        keys = ("code", "restarts", "resub", "runs", "shutdown", "started", "state", "hookCalls", "hookFiles")
        together = [{x: e[x] for x in keys} for e in out["events"] if e["comp"] == k]
        single = [{x: e[x] for x in keys} for e in o.get("events", [])]
        if together != single:
            pos = next((j for j, (x, y) in enumerate(zip(together, single)) if x != y), None)
            bad.append(("restart-decision-depends-on-other-components",
                        {"component": comp["name"], "exit_of_that_component": pos,
                         "with_the_others": together[pos] if pos is not None else together,
                         "alone": single[pos] if pos is not None else o}))
    return bad


def failures(case, out, root):
    return oracle(case, out) + isolation_failures(case, out, root)


def model_request(c, o):
    inps = [{"reason": "Killed" if la.startswith("killed-") else i["reason"], "hook": i.get("hook") or "junk",
             "control": bool(i["control"]), "runFails": bool(i["runFails"]), "stable": bool(i["stable"]),
             "launch": "none" if la.startswith("killed-") else la, "comp": i.get("comp", 0)}
            for i, la in zip(c["inps"], o["launches"])]
    if "comps" in c:
        return {"op": "mexec", "fin": bool(c["fin"]),
                "comps": [dict(model_cfg(cfg), file=own_file_name(cfg) or "") for _, cfg in comps_of(c)],
                "files": {n: (sp["answer"] if sp["disk"] == "fixed" else "junk") for n, sp in c["files"].items()},
                "inps": inps}
    return {"op": "exec", "old": False, "fin": bool(c["fin"]), "cfg": model_cfg(c["cfg"]), "inps": inps}


def kill_request(c, o):
    """the history as `RestartKill.kexec` gets it: where the harness delivered kill() to the engine instead of a launch"""
    la = o["launches"]
    inps = [dict(i, kill=l.startswith("killed-")) for i, l in zip(model_request(c, o)["inps"], la)]
    return {"op": "kexec", "fin": bool(c["fin"]), "cfg": model_cfg(c["cfg"]), "inps": inps,
            "firstRun": not c.get("noInitialRun") and la[0] != "killed-before-run"}


def check_cases(ctx, cases, root, n_corpus=0):
    outs = [impl_run(c, root) for c in cases]
    mouts = None
    if ctx.driver is not None:
        kidx = [k for k, (c, o) in enumerate(zip(cases, outs)) if "events" in o and "comps" not in c
                and not c["cfg"]["repeating"] and any("engineReason" in e for e in o["events"])]
        if kidx:
            keys = ("engineReason", "code", "restarts", "resub", "runs", "shutdown")
            for k, ans in zip(kidx, ctx.model([kill_request(cases[k], outs[k]) for k in kidx])):
                ctx.compare("kill() before a launch (before run(), in the launch delay of the first run() or of a restart): exit "
                            "reason the engine reports, code, counters per exit == RestartKill.kexec", cases[k],
                            [dict({x: e[x] for x in keys[1:]}, engineReason=e["reported"]) for e in ans["events"]],
                            [{x: e[x] for x in keys} for e in outs[k]["events"]])
        reqs = []
        idx = []
        for k, (c, o) in enumerate(zip(cases, outs)):
            if "events" in o:
                reqs.append(model_request(c, o))
                idx.append(k)
        answers = ctx.model(reqs)
        mouts = dict(zip(idx, answers))
    for k, (c, o) in enumerate(zip(cases, outs)):
        initiated = sum(1 for e in o.get("events", []) if e["code"] == INITIATED)
        refused = sum(1 for e in o.get("events", []) if e["code"] != INITIATED)
        ctx.case(c, nontrivial=(initiated >= 1 and refused >= 1), tags=tags_for(c, o))
        for what, detail in failures(c, o, root):
            ctx.fail(what, c, detail)
            by = ctx.extra.setdefault("oracle_failures_by_slug", {}).setdefault(
                "corpus" if k < n_corpus else "generated", {})
            by[what] = by.get(what, 0) + 1
        if mouts is not None and k in mouts:
            keys = ("code", "restarts", "resub", "runs", "shutdown") + (("comp",) if "comps" in c else ())
            ctx.compare("codes, Engine.restarts, resubmissionAttempts, #run(), isShutdown per exit == Restart.exec"
                        if "comps" not in c else
                        "several components: codes, Engine.restarts, resubmissionAttempts, #run(), isShutdown per exit == Restart.mexec",
                        c, [{x: e[x] for x in keys} for e in mouts[k]["events"]],
                        [{x: e[x] for x in keys} for e in o["events"]])
            mseen = mouts[k]["seen"] if "comps" in c else [mouts[k]["seen"]]
            ctx.compare("restart policy the runtime reads (restartHookOn, maxRestarts, restartHookFile) == Restart.load of the "
                        "policy written", c, mseen, o["seen"])
            if all(cfg["disk"] in ("scripted", "fixed", "absent") for _, cfg in comps_of(c)) and (
                    "comps" in c or c["cfg"]["disk"] == "scripted"):
                ctx.compare("the hook module's Restart() is called at this exit == Restart.stepAsksHook", c,
                            list(mouts[k]["asked"]), [e["hookCalls"] > 0 for e in o["events"]])


def order_suite():
    """cases whose names collide (one component name, hooks/restart.py / hooks/custom.py with different contents and
    roles, the same exit reasons) for `result-depends-on-earlier-cases`"""
    listed = ["KnownIssue", "ResourceExhausted"]
    hist = [_inp("KnownIssue"), _inp("ResourceExhausted", control=True), _inp("KnownIssue", "raises"),
            _inp("KnownIssue"), _inp("SubmissionFailed"), _inp("KnownIssue", "ctx:RestartContextRestartNotPossible"),
            _inp("KnownIssue")]
    suite = []
    for disk in ("scripted", "broken:noattr", "absent", "importerror", "broken:raises"):
        for hook_file in (None, "custom.py"):
            suite.append({"cfg": _cfg(hookOn=listed, disk=disk, hookFile=hook_file), "fin": False, "explicit": False,
                          "inps": hist})
    suite.append({"cfg": _cfg(hookOn=listed, hookFile=""), "fin": False, "explicit": False, "inps": hist})
    suite.append({"cfg": _cfg(hookOn=listed, maxRestarts=1), "fin": True, "explicit": False, "inps": hist})
    suite.append({"cfg": _cfg(hookOn=listed, backend="simulator"), "fin": False, "explicit": False, "inps": hist})
    suite.append({"cfg": _cfg(hookOn=["ResourceExhausted"], repeating=True), "fin": False, "explicit": True,
                  "inps": [_inp("ResourceExhausted"), _inp("ResourceExhausted")]})
    # several components per experiment; the same component and hook file names in different experiment instances with
    # swapped / different contents and roles
    mh = [_minp(0, "ResourceExhausted"), _minp(1, "ResourceExhausted"), _minp(1, "KnownIssue"), _minp(0, "KnownIssue"),
          _minp(1, "ResourceExhausted"), _minp(0, "SubmissionFailed"), _minp(0, "ResourceExhausted")]
    both = ["KnownIssue", "ResourceExhausted"]
    for fa, fb in ((_file("yes"), _file("ctx:RestartContextRestartNotPossible")),
                   (_file("raises", 2), _file("ctx:RestartContextRestartPossible")),
                   (_file("no"), _file("junk", 5))):
        files = {"allow.py": fa, "refuse.py": fb}
        suite.append({"comps": [_mcomp("first", files, hookFile="allow.py", hookOn=both),
                                _mcomp("second", files, hookFile="refuse.py", hookOn=both)],
                      "files": files, "fin": False, "explicit": False, "inps": mh})
    files = {"restart.py": _file("ctx:RestartContextHookFailed"), "custom.py": _file("yes")}
    suite.append({"comps": [_mcomp("comp", files, hookFile=None, hookOn=both, maxRestarts=2),
                            _mcomp("first", files, hookFile="custom.py", hookOn=both)],
                  "files": files, "fin": True, "explicit": False, "inps": mh})
    # an explicit empty list / a missing list, same names
    suite.append({"cfg": _cfg(hookOn=[]), "fin": False, "explicit": False, "inps": hist})
    suite.append({"cfg": _cfg(hookOn=None, maxRestarts=0), "fin": False, "explicit": False, "inps": hist})
    return suite


def _observed(out):
    return out.get("events", out)


def check_order_independence(ctx, root, suite, orders, seen):
    """family: process-level / class-level state shared between independent components.  Every case of the suite is
    run several times in the same process, in different orders and after unrelated cases; the implementation's
    answers must not depend on what ran before (`seen`: first answer of every case of the suite)."""
    for order in orders:
        for k in order:
            out = _observed(impl_run(suite[k], root))
            if k not in seen:
                seen[k] = out
            elif out != seen[k]:
                ctx.fail("result-depends-on-earlier-cases",
                         {"sequence": [suite[j] for j in order], "probe": order.index(k)},
                         {"first_answer": seen[k], "later_answer": out})


CHILD_MARK = "C12-CHILD-ANSWERS "


def spawn_child(order, hashseed=None):
    """a fresh interpreter that runs the cases `order` of the suite (nothing else ran before them in that process)"""
    import subprocess
    env = dict(os.environ)
    if hashseed is not None:
        env["PYTHONHASHSEED"] = str(hashseed)
    import json
    return subprocess.Popen([sys.executable, os.path.abspath(__file__), "--order-child", json.dumps(order)],
                            stdout=subprocess.PIPE, stderr=subprocess.DEVNULL, env=env, text=True)


def collect_child(proc):
    import json
    from harness import common
    try:
        out, _ = proc.communicate(timeout=300)
    except Exception as exc:  # noqa
        proc.kill()
        raise common.InfraError("C12 child process: %s" % exc)
    for line in out.splitlines():
        if line.startswith(CHILD_MARK):
            return {int(k): v for k, v in json.loads(line[len(CHILD_MARK):]).items()}
    raise common.InfraError("C12 child process gave no answers: %s" % out[-500:])


def _child_main(order_json):
    import json
    order = json.loads(order_json)
    suite = order_suite()
    root = tempfile.mkdtemp(prefix="c12-child-")
    cwd = os.getcwd()
    try:
        ans = {str(k): _observed(impl_run(suite[k], root)) for k in order}
    finally:
        os.chdir(cwd)
        shutil.rmtree(root, ignore_errors=True)
    sys.stdout.write("\n" + CHILD_MARK + json.dumps(ans) + "\n")
    sys.stdout.flush()


def compare_with_child(ctx, suite, order, answers, seen, slug, extra):
    import json
    for k in order:
        a, b = json.dumps(seen[k], sort_keys=True), json.dumps(answers[k], sort_keys=True)
        if a != b:
            ctx.fail(slug, dict({"sequence": [suite[j] for j in order], "probe": order.index(k)}, **extra),
                     {"answer_in_this_process": seen[k], "answer_in_fresh_process": answers[k]})


def replay_sequence(ctx, case, root):
    if case.get("fresh_process"):
        # the probe's answer in a fresh process that ran the sequence in the recorded order, against its answer in a
        # fresh process in which it runs first (same hash seed), resp. under the recorded other hash seed
        suite = order_suite()
        import json
        idx = [[json.dumps(c, sort_keys=True) for c in suite].index(json.dumps(c, sort_keys=True)) for c in case["sequence"]]
        pk = idx[case["probe"]]
        a = collect_child(spawn_child(idx, case.get("hashseed")))
        b = collect_child(spawn_child([pk] + [k for k in idx if k != pk]))
        ctx.case(case, nontrivial=False, tags=["order-independence"])
        if json.dumps(a[pk], sort_keys=True) != json.dumps(b[pk], sort_keys=True):
            ctx.fail("result-depends-on-hash-seed" if case.get("hashseed") is not None else
                     "result-depends-on-earlier-cases", case, {"answer": a[pk], "answer_when_run_first": b[pk]})
        return
    probe = case["sequence"][case["probe"]]
    first = _observed(impl_run(probe, root))
    for c in case["sequence"]:
        impl_run(c, root)
    again = _observed(impl_run(probe, root))
    ctx.case(case, nontrivial=False, tags=["order-independence"])
    if first != again:
        ctx.fail("result-depends-on-earlier-cases", case, {"first_answer": first, "later_answer": again})


def make_shrinker():
    from harness.common import shrink_list

    def shrinker(what, case):
        root = tempfile.mkdtemp(prefix="c12-shrink-")   # called from finish(), after run() removed its scratch dir
        cwd = os.getcwd()
        try:
            if "sequence" in case:
                return case

            def fails(inps):
                if not inps:
                    return False
                c = dict(case, inps=inps)
                return any(w == what for w, _ in failures(c, impl_run(c, root), root))
            inps = shrink_list(case["inps"], fails, max_steps=250)
            return dict(case, inps=inps) if fails(inps) else case
        finally:
            os.chdir(cwd)
            shutil.rmtree(root, ignore_errors=True)
    return shrinker


def run(ctx):
    ctx.rule = ("case = (component configuration, mode, history of <= 40 launches+task exits); configuration = maxRestarts in "
                "{unset,-1,0,1,2,3,4,7} x restartHookFile in {unset,'',custom.py} x restartHookOn (unset, [], random "
                "schema-valid subset, SubmissionFailed over-represented) x hook module on disk (absent, scripted, 3 broken "
                "kinds, ImportError) x backend (local, simulator with sim_restart variants) x engine kind; every step = "
                "(how the launch goes: Task object created / generator raises OSError / JobLaunchError / other exception, "
                "exit reason the task reports, hook answer out of 6 contexts/True/False/raising/IOError/12 junk values, CONTROL "
                "file, run() raising, system stable; in 3 of 5 histories of a plain Engine 8%/20%/50% of the launches are forestalled "
                "by the real Engine.kill() - before run() at the first step, otherwise inside the launch window of the first run() "
                "or of the run() made by the restart initiated at the previous exit; styles incl. faults inside the user's hook - raising / reporting failure / "
                "refusing - at any point of a history of listed exits); maxRestarts up to 11; 12% of the cases under an ambient log "
                "level debug/info/warning with the records really handled; the policy as WRITTEN goes through the real FlowIR loader "
                "in every case (restartHookOn missing / [] / every singleton / subsets (all 64 in thorough) x maxRestarts missing/0/-1/.. x "
                "restartHookFile missing/''/named, each followed by an exit with every exit reason) and the policy the runtime reads is "
                "compared with it; experiments with 2-5 components using 2-5 different hook files with fixed, different answers "
                "(allowing / not possible / not required / False / failed / raising / vanilla / broken modules; restart.py, '', a "
                "missing file) restarted in interleaved orders (random, permissive first, round-robin, blocks), each component "
                "also run alone on its own exits; a suite of 20 cases with colliding names (hooks/restart.py, hooks/custom.py, "
                "allow.py/refuse.py with different or swapped contents and roles, components first/second/comp) run first thing, "
                "again after all other cases (backwards, shuffled, forwards) and in two fresh interpreters (backwards; forwards under "
                "another hash seed) with identical answers required; mode = real Controller._restartComponent (history continues after "
                "refusals) or real Controller.postMortemCheck (refusal finalises). Non-trivial = the history contains at least "
                "one initiated and at least one refused restart; distinct by canonical JSON.")
    ctx.assumptions = [
        "Engine: the real Engine.run executes for the first launch and every launch made by Engine.restart, with a harness "
        "task generator (fake Task objects with scripted exit reasons, or raising) and a harness-owned start observable; "
        "what a created task does between launch and exit is not modelled (it has finished when wait() is called)",
        "when no launch is pending (refused restart in the _restartComponent mode, run() raised, after the final state) the "
        "next exit is injected through the real Engine._setExitReason; RepeatingEngine: through the ivars its real "
        "exitReason() reads, its restart thread is intercepted (counted, optionally raising)",
        "real thread interleavings of RxPY are replaced by synchronous schedulers; the launch delay (op.delay in engine.py) "
        "is not waited for",
        "kill() is delivered before a launch only (before run(), in the launch window of the first run() or of a restart); a "
        "kill() while the task runs is not driven (Terminate is delivered after wait() under the synchronous schedulers)",
        "run() raising is only injected in the _restartComponent mode: the engine of a failed launch cannot die by "
        "itself, so the asynchronous path of ComponentState.finish is not observable",
        "restartHookOn / maxRestarts restricted to what the FlowIR schema accepts (the loader rejects the rest, checked once per run)",
    ]
    ctx.trusted.append("C12: rx pools/interval, op.delay in engine.py, time.sleep in control.py, isSystemStable answer, "
                       "threading.Thread in engine.py replaced by harness stand-ins; task generator and Task objects are harness "
                       "fakes; migratable components, the optimizer and real backends not exercised")
    root = tempfile.mkdtemp(prefix="c12-")
    cwd = os.getcwd()
    ctx.shrinker = make_shrinker()
    try:
        rng = ctx.rng
        quick = ctx.tier == "quick"
        cases = corpus_cases() + multi_corpus() + load_corpus_dir()
        if os.environ.get("C12_NO_CORPUS"):        # switch only for self-tests of the generator
            cases = []
        n_corpus = len(cases)
        suite = order_suite()
        ks = list(range(len(suite)))
        first_answers = {}
        # two fresh interpreters run the suite meanwhile: backwards (whatever is cached by name is filled by a case of
        # another role there), and forwards under another hash seed
        other_seed = (int(os.environ.get("PYTHONHASHSEED", "0") or 0) + 1 + rng.randrange(1000)) % 4294967295
        children = [spawn_child(ks[::-1]), spawn_child(ks, other_seed)]
        check_order_independence(ctx, root, suite, [ks], first_answers)      # first thing in the process
        ncfg = 260 if quick else 2600
        for _ in range(ncfg):
            cfg = gen_cfg(rng)
            cases.append(gen_case(rng, cfg, False, 40))
            cases.append(gen_case(rng, cfg, True, 40))
            if rng.random() < 0.3:
                cases.append(gen_case(rng, cfg, False, 40))
        cases += policy_cases(rng, quick)
        for _ in range(40 if quick else 250):
            cases.append(gen_multi(rng, 30))
        check_cases(ctx, cases, root, n_corpus)
        check_schema(ctx, root)
        # ... and again after everything else, backwards and shuffled
        sh = list(ks)
        rng.shuffle(sh)
        check_order_independence(ctx, root, suite, [ks[::-1], sh, ks], first_answers)
        compare_with_child(ctx, suite, ks[::-1], collect_child(children[0]), first_answers,
                           "result-depends-on-earlier-cases", {"fresh_process": True})
        compare_with_child(ctx, suite, ks, collect_child(children[1]), first_answers,
                           "result-depends-on-hash-seed", {"fresh_process": True, "hashseed": other_seed})
        ctx.tag("order-independence-suite-runs", 6 * len(suite))
        ctx.tag("several-components-cases", sum(1 for c in cases if "comps" in c))
    finally:
        os.chdir(cwd)
        shutil.rmtree(root, ignore_errors=True)


def check_schema(ctx, root):
    """The schema domain assumed by `no_restart_after_kill`: Killed/Cancelled in restartHookOn, maxRestarts < -1 are rejected."""
    for bad in ({"hookOn": ["Killed"]}, {"hookOn": ["KnownIssue", "Cancelled"]}, {"maxRestarts": -2}):
        cfg = _cfg(**bad)
        case = {"cfg": cfg, "fin": False, "explicit": False, "inps": [_inp("Killed"), _inp("Cancelled")]}
        out = impl_run(case, root)
        ctx.case(case, nontrivial=False, tags=["schema-reject:" + str(out.get("error"))])
        if "error" not in out:
            # accepted: then the oracle decides on what the code does with it
            for what, detail in oracle(case, out):
                ctx.fail(what, case, detail)
            ctx.fail("schema-accepts-configuration-outside-the-assumed-domain", case, out) if any(
                e["code"] == INITIATED for e in out["events"]) else None


def replay(ctx, doc):
    ctx.shrinker = make_shrinker()
    case = doc.get("input") or doc["no_longer_checks"][-1]["input"]
    root = tempfile.mkdtemp(prefix="c12-")
    cwd = os.getcwd()
    try:
        if "sequence" in case:
            replay_sequence(ctx, case, root)
        else:
            check_cases(ctx, [case], root)
    finally:
        os.chdir(cwd)
        shutil.rmtree(root, ignore_errors=True)


if __name__ == "__main__":
    # child mode of the order-independence check (see spawn_child)
    _here = os.path.dirname(os.path.dirname(os.path.abspath(__file__)))
    _repo = os.environ.get("ST4SD_REPO", "/repo")
    for _p in (_here, _repo, os.path.join(_repo, "python")):
        sys.path.insert(0, _p)
    import warnings
    warnings.filterwarnings("ignore")
    if len(sys.argv) == 3 and sys.argv[1] == "--order-child":
        _child_main(sys.argv[2])
        sys.stdout.flush()
        os._exit(0)
