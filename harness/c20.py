"""C20 — Reported progress is a proper weighted fraction.

Implementation under test (real code, in-process):
  A. FlowIRConcrete(doc, 'default', {}).get_status()            -> loaded stage weights
  B. StatusMonitor(experiment).stageWeights + the real CheckStatus closure of StatusMonitor.run
     driven once with a fake controller                         -> weights used for reporting, total progress
Model: lean/St4sd/Model/Weights.lean via drv-c20.  Theorems: lean/St4sd/Props/C20.lean.
"""
from __future__ import annotations

import logging
import math
import os
import shutil
import tempfile
import threading
from fractions import Fraction

UNIT = 10 ** 9
TOL = 1000


def _imports():
    import experiment.model.frontends.flowir as F
    return F


def doc_for(ws):
    comps = [{'name': 'c%d' % i, 'stage': i, 'command': {'executable': 'ls'}} for i in range(len(ws))]
    st = {i: {'stage-weight': w} for i, w in enumerate(ws) if w is not None}
    return {'components': comps, 'status-report': st}


def to_py(spec):
    """spec: list of entries {"u": int} (weight = u/1e9), {"raw": "abc"|"nan"|"inf"}, {"missing": true}"""
    out = []
    for e in spec:
        if "u" in e:
            u = e["u"]
            s = "%s%d.%09d" % ("-" if u < 0 else "", abs(u) // UNIT, abs(u) % UNIT)
            v = float(s)
            out.append(s if e.get("as_str") else v)
        elif "raw" in e:
            out.append(e["raw"])
        else:
            out.append(None)
    return out


def units_of(spec):
    """exact units as the loader's float() sees them; None when some entry is not finite"""
    us = []
    for e in spec:
        if "u" in e:
            us.append(e["u"])
        elif "raw" in e:
            try:
                v = float(e["raw"])
            except ValueError:
                us.append(0)
                continue
            if math.isnan(v) or math.isinf(v):
                return None
            us.append(int(round(v * UNIT)))
        else:
            us.append(0)
    return us


def impl_loader(spec):
    F = _imports()
    try:
        c = F.FlowIRConcrete(doc_for(to_py(spec)), 'default', {})
        st = c.get_status()
        ws = [float(st[i]['stage-weight']) for i in range(len(spec))]
        return {"weights": [int(round(w * UNIT)) for w in ws], "floats": ws}
    except Exception as exc:  # noqa
        return {"error": type(exc).__name__}


# ----------------------------------------------------------------------------------------
# generators
# ----------------------------------------------------------------------------------------

def partition(rng, total, n):
    if n == 1:
        return [total]
    cuts = sorted(rng.randint(0, total) for _ in range(n - 1))
    parts = [b - a for a, b in zip([0] + cuts, cuts + [total])]
    return parts


def gen_spec(rng, n, kinds=None):
    kind = rng.choice(kinds or ["proper", "proper", "proper3", "near_in", "near_out", "negative", "trunc1000", "random",
                                "missing", "malformed", "gt1", "zeros", "strings"])
    decimals = rng.choice([1, 2, 3, 4, 5, 6, 9])
    scale = 10 ** decimals
    step = UNIT // scale
    if kind == "proper3":
        decimals, scale, step = 3, 1000, UNIT // 1000
    if kind == "proper6":
        decimals, scale, step = 6, 10 ** 6, UNIT // 10 ** 6
    if kind in ("proper", "proper3", "proper6", "strings"):
        us = [p * step for p in partition(rng, scale, n)]
    elif kind == "near_in":
        us = [p * step for p in partition(rng, scale, n)]
        d = rng.choice([-1, 1]) * rng.randint(1, TOL - 2)
        i = rng.randrange(n)
        if us[i] + d >= 0:
            us[i] += d
    elif kind == "near_out":
        us = [p * step for p in partition(rng, scale, n)]
        d = rng.choice([-1, 1]) * rng.choice([TOL + 2, 2 * TOL, 10 ** 5, 4 * 10 ** 5, 8 * 10 ** 5, 10 ** 6, 10 ** 7])
        i = rng.randrange(n)
        us[i] += d
    elif kind == "negative":
        us = [p * step for p in partition(rng, scale, n)]
        if n >= 2:
            i, j = rng.sample(range(n), 2)
            d = us[i] + rng.randint(1, scale) * step
            us[i] -= d
            us[j] += d
        else:
            us[0] = -us[0]
    elif kind == "trunc1000":
        # truncated thousandths add up to 1000 but the real sum exceeds one (0.5004, 0.5004 family)
        ms = partition(rng, 1000, n)
        us = [m * (UNIT // 1000) + rng.randint(0, 999) * 1000 for m in ms]
    elif kind == "gt1":
        us = [rng.randint(0, 3 * scale) * step for _ in range(n)]
    elif kind == "zeros":
        us = [0] * n
    else:
        us = [rng.randint(-scale // 4, scale) * step for _ in range(n)]
    spec = [{"u": u} for u in us]
    if kind == "strings":
        for e in spec:
            if rng.random() < 0.5:
                e["as_str"] = True
    if kind == "missing":
        for e in rng.sample(spec, rng.randint(1, n)):
            e.clear()
            e["missing"] = True
    if kind == "malformed":
        for e in rng.sample(spec, rng.randint(1, n)):
            e.clear()
            e["raw"] = rng.choice(["abc", "", "nan", "inf", "-inf", "1e-3", "0x10"])
    # keep away from the tolerance boundary (float rounding decides there)
    tot = sum(e.get("u", 0) for e in spec)
    if abs(abs(tot - UNIT) - TOL) <= 1:
        spec[0] = {"u": spec[0].get("u", 0) + 7}
    return kind, spec


# ----------------------------------------------------------------------------------------
# oracle (model independent restatement of the property)
# ----------------------------------------------------------------------------------------

def oracle_weights(spec, out):
    """returns None or a description of the failure"""
    if "error" in out:
        return "loader-raises-" + out["error"]
    ws = out["floats"]
    if any(not (w >= 0.0) for w in ws):
        return "negative-weight-loaded"
    if not abs(math.fsum(ws) - 1.0) < 1e-6 + 1e-12:
        return "loaded-weights-do-not-sum-to-one"
    us = units_of(spec)
    if us is not None and all(u >= 0 for u in us) and sum(us) == UNIT:
        if out["weights"] != us:
            return "proper-weights-not-kept"
    return None


def classify_old_algorithm(what, case, detail):
    return False


CLASSIFIERS = {}


# ----------------------------------------------------------------------------------------
# StatusMonitor part
# ----------------------------------------------------------------------------------------

CALL_POINTS = ["stage", "stageState", "lock_acquire", "get_stages_in_transit", "get_stages_finished",
               "lock_release", "get_stage_status"]
IDLE, TRANSIT, FINISHED = "idle", "transit", "finished"


class ScriptedLock:
    """Stands for Controller.comp_lock: while the monitor holds it no other thread changes the controller's
    component lists, i.e. scripted state changes that fall due while it is held are applied at the release."""

    def __init__(self, ctl):
        self.ctl = ctl
        self.depth = 0

    def acquire(self, blocking=True, timeout=-1):
        self.ctl._point("lock_acquire")      # the other threads may still run just before we get the lock
        self.depth += 1
        return True

    def release(self):
        self.depth -= 1
        if self.depth == 0:
            self.ctl._flush()
        self.ctl._point("lock_release")

    def __enter__(self):
        self.acquire()
        return self

    def __exit__(self, *a):
        self.release()
        return False


class ScriptedController:
    """A controller whose state (current stage; per stage: unknown / in transit / finished, progress numerator)
    changes at chosen call points of the status check, as the threads of the real Controller change it
    (finishedCheck adds the last component of a stage to comp_done -> the stage moves from the in-transit list to
    the finished list; later stages get their first active component; the current stage advances).

    Invariants of every state (those of experiment.runtime.control.Controller): a stage is in at most one of
    the two lists; unknown stage -> get_stage_status is None; finished stage -> every component done (progress 1)."""

    def __init__(self, exp, sc):
        self.exp = exp
        n = len(exp._stages)
        self.n = n
        self.scale = sc["scale"]
        self.cur = sc["current"]
        self.label = {k: IDLE for k in range(n)}
        self.p = {k: 0 for k in range(n)}
        for k in sc["finished"]:
            self.label[k] = FINISHED
            self.p[k] = self.scale
        for k in sc["transit"]:
            self.label[k] = TRANSIT
        for k, v in sc["progress"].items():
            k = int(k)
            if self.label[k] == IDLE:   # static scenarios of earlier versions: the current stage with a progress value
                self.label[k] = TRANSIT
            if self.label[k] == TRANSIT:
                self.p[k] = v
        self.script = {}
        for ev in sc.get("events", []):
            self.script.setdefault((ev["at"], ev["n"]), []).extend(ev["do"])
        self.counter = {}
        self.deferred = []
        self.comp_lock = ScriptedLock(self)
        self.snapshots = [self._snap()]
        self.fired = []
        self.reads = {"cur": [], "transit": [], "finished": [], "p": {}}

    # -- scripted state changes ------------------------------------------------------------------------
    def _snap(self):
        return [self.p[k] for k in range(self.n)]

    def _apply(self, ev):
        kind = ev[0]
        ok = False
        if kind == "prog":
            k, v = ev[1], ev[2]
            if self.label.get(k) == TRANSIT and self.p[k] < v <= self.scale:
                self.p[k] = v
                ok = True
        elif kind == "start":
            k = ev[1]
            if self.label.get(k) == IDLE:
                self.label[k] = TRANSIT
                ok = True
        elif kind == "finish":
            k = ev[1]
            if self.label.get(k) == TRANSIT:
                self.label[k] = FINISHED
                self.p[k] = self.scale
                ok = True
        elif kind == "advance":
            if self.cur + 1 < self.n:
                self.cur += 1
                ok = True
        if ok:
            self.fired.append(kind)
            self.snapshots.append(self._snap())

    def _flush(self):
        evs, self.deferred = self.deferred, []
        for ev in evs:
            self._apply(ev)

    def _point(self, name):
        i = self.counter.get(name, 0)
        self.counter[name] = i + 1
        evs = self.script.get((name, i), [])
        if self.comp_lock.depth > 0:
            self.deferred.extend(evs)
        else:
            for ev in evs:
                self._apply(ev)

    # -- the part of the Controller interface the status monitor uses ---------------------------------------
    def stage(self):
        self._point("stage")
        self.reads["cur"].append(self.cur)
        return self.exp._stages[self.cur]

    def stageState(self, stage=None):
        self._point("stageState")
        return "running"

    def get_stages_in_transit(self):
        self._point("get_stages_in_transit")
        r = sorted(k for k in range(self.n) if self.label[k] == TRANSIT)
        self.reads["transit"].append(r)
        return list(r)

    def get_stages_finished(self):
        self._point("get_stages_finished")
        r = sorted(k for k in range(self.n) if self.label[k] == FINISHED)
        self.reads["finished"].append(r)
        return list(r)

    def get_stage_status(self, idx):
        self._point("get_stage_status")
        if self.label.get(idx, IDLE) == IDLE:
            self.reads["p"][idx] = 0
            return None
        self.reads["p"][idx] = self.p[idx]
        return self.p[idx] / float(self.scale)

    def generate_status_report_for_nodes(self, *a, **k):
        return ""


def flowir_yaml(spec):
    import yaml
    d = doc_for(to_py(spec))
    return yaml.safe_dump(d)


def impl_monitor(spec, scenarios, workdir):
    """Builds a real Experiment + StatusMonitor; runs the real CheckStatus closure for each scenario."""
    import tests.utils as TU
    import experiment.runtime.output as O
    import experiment.runtime.monitor as M
    try:
        exp = TU.experiment_from_flowir(flowir_yaml(spec), workdir, checkExecutables=False)
    except Exception as exc:
        return {"error": type(exc).__name__}
    mon = O.StatusMonitor(exp, report_components=False)
    mon.log.setLevel(logging.CRITICAL)
    res = {"stageWeights": [int(round(float(w) * UNIT)) for w in mon.stageWeights],
           "floats": [float(w) for w in mon.stageWeights], "totals": [], "runs": []}
    captured = {}

    def fake_create(interval, action, cancelEvent=None, name=None, **kw):
        captured["action"] = action
        return lambda: None
    orig = M.CreateMonitor
    M.CreateMonitor = fake_create
    try:
        for sc in scenarios:
            ctl = ScriptedController(exp, sc)
            try:
                mon.run(ctl)
                captured["action"](False)
                res["totals"].append(float(exp.statusFile.totalProgress()))
            except Exception as exc:  # noqa
                res["totals"].append(None)
                res["runs"].append({"error": type(exc).__name__ + ": " + str(exc)[:200]})
                continue
            res["runs"].append({"snapshots": ctl.snapshots, "fired": ctl.fired, "reads": ctl.reads,
                                "calls": dict(ctl.counter), "lock_balanced": ctl.comp_lock.depth == 0})
    finally:
        M.CreateMonitor = orig
    return res


def gen_scenario(rng, n):
    """initial controller state + scripted state changes at call points of the check"""
    scale = 1000
    current = rng.randrange(n)
    label = {}
    for k in range(n):
        if k < current:
            label[k] = rng.choice([FINISHED, FINISHED, FINISHED, TRANSIT, IDLE])
        elif k == current:
            label[k] = rng.choice([TRANSIT, TRANSIT, TRANSIT, FINISHED, IDLE])
        else:
            label[k] = rng.choice([IDLE, IDLE, TRANSIT, TRANSIT, FINISHED])
    if n > 16:   # keep the number of per-stage progress reads moderate for long workflows
        for k in range(n):
            if label[k] == TRANSIT and k != current and rng.random() < 1.0 - 8.0 / n:
                label[k] = rng.choice([IDLE, FINISHED])
    progress = {}
    for k in range(n):
        if label[k] == TRANSIT:
            progress[str(k)] = rng.choice([0, scale, rng.randint(0, scale)])
    if rng.random() < 0.2:  # everything complete
        for k in range(n):
            if label[k] == IDLE or (k != current and rng.random() < 0.7):
                label[k] = FINISHED
                progress.pop(str(k), None)
            if label[k] == TRANSIT:
                progress[str(k)] = scale
    transit = [k for k in range(n) if label[k] == TRANSIT]
    finished = [k for k in range(n) if label[k] == FINISHED]
    events = []
    for _ in range(rng.choice([0, 1, 2, 2, 3, 4])):
        at = rng.choice(CALL_POINTS + ["get_stage_status", "get_stages_finished", "get_stages_in_transit"])
        nth = rng.randrange(0, 3) if at == "get_stage_status" else 0
        kind = rng.choice(["finish", "finish", "finish", "start", "prog", "advance"])
        if kind == "finish" and transit:
            do = ["finish", rng.choice(transit)]
        elif kind == "prog" and transit:
            do = ["prog", rng.choice(transit), rng.choice([scale, rng.randint(1, scale)])]
        elif kind == "start":
            do = ["start", rng.randrange(n)]
        else:
            do = ["advance"]
        events.append({"at": at, "n": nth, "do": [do]})
    return {"scale": scale, "current": current, "transit": transit, "finished": finished, "progress": progress,
            "events": events}


def snapshot_totals(run, floats, scale):
    """exact weighted progress of every state the controller went through during the check"""
    ws = [Fraction(w) for w in floats]
    return [sum((w * p for w, p in zip(ws, snap)), Fraction(0)) / scale for snap in run["snapshots"]]


def model_check_request(sc, run, ws):
    """what this check read from the controller (last answer of each call)"""
    rd = run["reads"]
    return {"op": "check", "scale": sc["scale"], "cur": rd["cur"][0], "transit": rd["transit"][-1],
            "finished": rd["finished"][-1], "ps": [rd["p"].get(k, 0) for k in range(len(ws))], "ws": ws}


# ----------------------------------------------------------------------------------------

def check_loader_cases(ctx, cases):
    reqs = []
    for kind, spec in cases:
        us = units_of(spec)
        if us is None:
            reqs.append({"op": "fallback", "n": len(spec)})
        else:
            reqs.append({"op": "normalize", "ws": us})
    mouts = ctx.model(reqs)
    for idx, (kind, spec) in enumerate(cases):
        out = impl_loader(spec)
        us = units_of(spec)
        nontrivial = len(spec) >= 2 and (us is None or any(u != 0 for u in us))
        ctx.case({"kind": kind, "spec": spec}, nontrivial=nontrivial,
                 tags=["kind:" + kind, "n>1000" if len(spec) > 1000 else "n<=1000",
                       "impl:" + ("error:" + out["error"] if "error" in out else "ok")])
        why = oracle_weights(spec, out)
        if why:
            ctx.fail(why, {"kind": kind, "spec": spec}, out)
        if mouts is not None:
            m = mouts[idx]
            ctx.tag("model:kept" if m.get("kept") else "model:fallback")
            ctx.compare("loader weights == Weights.normalize", {"kind": kind, "spec": spec},
                        {"weights": m["weights"]},
                        {"weights": out.get("weights")} if "error" not in out else {"error": out["error"]})


def check_monitor_cases(ctx, cases):
    tmp = tempfile.mkdtemp(prefix="c20-")
    cwd = os.getcwd()
    try:
        for kind, spec, scenarios in cases:
            out = impl_monitor(spec, scenarios, tmp)
            case = {"kind": kind, "spec": spec, "scenarios": scenarios}
            ctx.case(case, nontrivial=len(spec) >= 2, tags=["monitor:" + kind])
            if out.get("error") == "ExperimentInvalidConfigurationError":
                ctx.tag("monitor:package-rejected-as-invalid")  # proper rejection at load, nothing to report on
                continue
            if "error" in out:
                ctx.fail("monitor-raises-" + out["error"], case, out)
                continue
            lo_ = impl_loader(spec)
            slim = {"stageWeights": out["stageWeights"], "floats": out["floats"]}
            why = oracle_weights(spec, {"floats": out["floats"], "weights": out["stageWeights"]})
            if why:
                ctx.fail("monitor:" + why, dict(case, scenarios=[]), slim)
            if "error" not in lo_ and lo_["weights"] != out["stageWeights"]:
                # position by position: stageWeights[i] must be the loaded weight of stage i
                bad = [i for i, (a, b) in enumerate(zip(lo_["weights"], out["stageWeights"])) if a != b]
                ctx.fail("monitor-weights-differ-from-loaded-weights", dict(case, scenarios=[]),
                         {"positions": bad[:20], "loader": lo_["weights"], "monitor": out["stageWeights"]})
            for sc, total, rn in zip(scenarios, out["totals"], out["runs"]):
                case1 = dict(case, scenarios=[sc])   # every check is independent of the earlier ones
                if "error" in rn:
                    ctx.fail("status-check-raises-" + rn["error"].split(":")[0], case1, {"scenario": sc, "error": rn["error"]})
                    continue
                for f in set(rn["fired"]):
                    ctx.tag("controller-change:" + f)
                ctx.tag("controller-changes-during-check:%d" % min(len(rn["fired"]), 3))
                if not (-1e-12 <= total <= 1.0 + 1e-6 + 1e-9):
                    ctx.fail("total-progress-outside-unit-interval", case1, {"scenario": sc, "total": total})
                snaps = snapshot_totals(rn, out["floats"], sc["scale"])
                lo, hi = min(snaps), max(snaps)
                eps = Fraction(1, 10 ** 9)
                if not (lo - eps <= Fraction(total) <= hi + eps):
                    # the total is a weighted sum of per-stage progress values that the stages never had together:
                    # below / above the weighted progress of every state the controller went through
                    ctx.fail("total-progress-matches-no-controller-state", case1,
                             {"scenario": sc, "total": total, "lowest_state_total": float(lo),
                              "highest_state_total": float(hi), "reads": rn["reads"]})
                complete = all(p == sc["scale"] for p in rn["snapshots"][0])
                if complete:
                    ctx.tag("scenario:complete")
                    if abs(total - 1.0) > 1e-6 + 1e-9:
                        ctx.fail("total-progress-not-one-when-complete", case1, {"scenario": sc, "total": total})
            if ctx.driver is not None and "error" not in lo_:
                us = units_of(spec)
                mw = ctx.model([{"op": "normalize", "ws": us}] if us is not None else [{"op": "fallback", "n": len(spec)}])[0]
                mm = ctx.model([{"op": "monitor", "ws": mw["weights"]}])[0]
                ctx.compare("StatusMonitor.stageWeights == Weights.monitorWeights (position by position)", case,
                            {"kept": True, "weights": mm["weights"]},
                            {"kept": mm["kept"], "weights": out["stageWeights"]})
                pairs = []
                for sc, total, rn in zip(scenarios, out["totals"], out["runs"]):
                    if "error" in rn:
                        continue
                    rd = rn["reads"]
                    if not (len(rd["cur"]) >= 1 and len(rd["transit"]) == 1 and len(rd["finished"]) == 1):
                        ctx.tag("check-read-the-lists-not-exactly-once")
                        continue
                    pairs.append((sc, total, rn, model_check_request(sc, rn, mw["weights"])))
                mouts = ctx.model([p[3] for p in pairs]) if pairs else []
                for (sc, total, rn, rq), mo in zip(pairs, mouts):
                    ctx.tag("reads:partition" if mo["partition"] else "reads:not-a-partition")
                    exact = Fraction(mo["total"], sc["scale"] * UNIT)
                    ok = abs(Fraction(total) - exact) < Fraction(1, 10 ** 9)
                    ctx.compare("total progress == Weights.checkTotal(what the check read)/(scale*one) within 1e-9", case,
                                {"agree": True}, {"agree": ok, "impl_total": total, "model_total": float(exact),
                                                  "scenario": sc, "reads": rd} if not ok else {"agree": True})
    finally:
        os.chdir(cwd)
        shutil.rmtree(tmp, ignore_errors=True)


CORPUS = [
    ("corpus:0.5004x2", [{"u": 500400000}, {"u": 500400000}]),
    ("corpus:neg", [{"u": -500000000}, {"u": 1500000000}]),
    ("corpus:4dec", [{"u": 333300000}, {"u": 333300000}, {"u": 333400000}]),
    ("corpus:nan", [{"raw": "nan"}, {"u": 1000000000}]),
    ("corpus:single", [{"u": 1000000000}]),
    ("corpus:single-missing", [{"missing": True}]),
    ("corpus:thirds", [{"u": 333000000}, {"u": 333000000}, {"u": 334000000}]),
]


def _last_heavy(n):
    """n stages, 0.01 each, the last one carries the rest"""
    return [{"u": 10 * 10 ** 6}] * (n - 1) + [{"u": UNIT - (n - 1) * 10 * 10 ** 6}]


MONITOR_CORPUS = [
    ("corpus:12-stages-last-heavy", _last_heavy(12)),
    ("corpus:11-stages-increasing", [{"u": (k + 1) * 10 * 10 ** 6} for k in range(10)] + [{"u": 450 * 10 ** 6}]),
]

# (kind, spec, scenarios): interleavings kept as regression inputs
MONITOR_SCENARIO_CORPUS = [
    # a non-current stage completes between the reads of the check (at every call point in turn)
    ("corpus:stage-completes-during-check", [{"u": 100000000}, {"u": 800000000}, {"u": 100000000}],
     [{"scale": 1000, "current": 0, "transit": [0, 1], "finished": [], "progress": {"0": 1000, "1": 1000},
       "events": [{"at": at, "n": 0, "do": [["finish", 1]]}]} for at in CALL_POINTS]),
    # the current stage completes and the controller advances while the check runs
    ("corpus:current-stage-advances-during-check", [{"u": 300000000}, {"u": 300000000}, {"u": 400000000}],
     [{"scale": 1000, "current": 0, "transit": [0, 1], "finished": [], "progress": {"0": 900, "1": 500},
       "events": [{"at": at, "n": 0, "do": [["prog", 0, 1000], ["finish", 0], ["advance"], ["start", 2]]}]}
      for at in CALL_POINTS]),
    # the current stage is already in the finished list
    ("corpus:current-stage-finished", [{"u": 500000000}, {"u": 500000000}],
     [{"scale": 1000, "current": 0, "transit": [1], "finished": [0], "progress": {"1": 250}, "events": []},
      {"scale": 1000, "current": 1, "transit": [], "finished": [0, 1], "progress": {}, "events": []}]),
]


def run(ctx):
    ctx.rule = ("cases = stage-weight lists (1..64 stages quick, up to 1200 thorough) drawn from 13 classes "
                "(proper at 1-9 decimals, near the tolerance inside/outside, negative with sum one, truncated "
                "thousandths summing to 1000, >1, zeros, missing, malformed/non-finite, strings); non-trivial = "
                ">= 2 stages and not all zero; distinct by canonical JSON of the case. Monitor cases additionally "
                "build a real Experiment+StatusMonitor (1..13 stages of every class, and proper non-uniform weights "
                "for 10, 11, 12, 13, 21, 101 stages quick / 7..23, 99..102, 111, 201, 1001 thorough; stageWeights compared "
                "position by position with the loaded weights) and run the real CheckStatus closure against a scripted "
                "controller: random unknown/in-transit/finished labelling of all stages (current stage included) and "
                "0-4 state changes (a stage completes, a stage starts, progress grows, the current stage advances) "
                "fired at chosen call points of the check (stage, stageState, comp_lock acquire/release, the two list "
                "reads, the n-th get_stage_status); changes that fall due while comp_lock is held happen at its release.")
    ctx.assumptions = ["CPython float addition error on the generated sums (< 1e-12) is below one model unit (1e-9); "
                       "generated sums are kept >= 2 units away from the 1e-6 tolerance boundary",
                       "scripted controller supplies stage progress values; _getProgress (external status script) not run",
                       "controller states obey the invariants of control.Controller: a stage is in at most one of the "
                       "in-transit/finished lists, an unknown stage has no progress, a finished stage has progress 1, "
                       "progress never decreases; comp_lock excludes state changes while held"]
    ctx.trusted.append("C20: weights abstracted to integer units of 1e-9; float rounding trusted as stated in assumptions")
    rng = ctx.rng
    quick = ctx.tier == "quick"
    cases = list(CORPUS)
    ns = list(range(1, 65)) if quick else list(range(1, 130)) + [250, 333, 500, 999, 1000, 1001, 1199, 1200]
    reps = 12 if quick else 40
    for n in ns:
        for _ in range(reps if n <= 64 else 4):
            cases.append(gen_spec(rng, n))
    if quick:
        for n in (999, 1000, 1001, 1200):
            cases.append(gen_spec(rng, n))
    check_loader_cases(ctx, cases)
    mcases = []
    # stage counts on both sides of 10 and 100 (and 1000 thorough): an order by stage NAME differs from the order by
    # stage index from 11 stages on; weights proper and non-uniform so that a misplaced weight shows
    wide = [10, 11, 12, 13, 21, 101] if quick else list(range(7, 24)) + [99, 100, 101, 102, 111, 201, 1001]
    mspecs = list(MONITOR_CORPUS) + CORPUS[:3]
    mspecs += [gen_spec(rng, rng.randint(1, 13)) for _ in range(25 if quick else 150)]
    mspecs += [gen_spec(rng, n, kinds=["proper6", "proper3"] if n <= 1000 else ["proper6"]) for n in wide]
    for kind, spec in mspecs:
        n = len(spec)
        mcases.append((kind, spec, [gen_scenario(rng, n) for _ in range(4 if n <= 100 else 2)]))
    mcases += MONITOR_SCENARIO_CORPUS
    check_monitor_cases(ctx, mcases)


def replay(ctx, doc):
    case = doc.get("input") or doc["no_longer_checks"][-1]["input"]
    if "scenarios" in case:
        check_monitor_cases(ctx, [(case["kind"], case["spec"], case["scenarios"])])
    else:
        check_loader_cases(ctx, [(case["kind"], case["spec"])])
