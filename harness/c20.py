"""C20 — Reported progress is a proper weighted fraction.

Implementation under test (real code, in-process):
  A. FlowIRConcrete(doc, 'default', {}).get_status()            -> loaded stage weights
  B. StatusMonitor(experiment).stageWeights + the real CheckStatus closure of StatusMonitor.run
     driven once with a fake controller                         -> weights used for reporting, total progress
  C. a real Controller (deterministic runtime harness/detsim.py) on a generated package with DoWhile documents:
     Controller.get_stage_status / get_stages_in_transit / get_stages_finished / finishedCheck (components ending
     FINISHED, SHUTDOWN, FAILED; comp_done) / _fake_finish_with_state / _stopComponents /
     _instantiate_next_dowhile_iteration + the real CheckStatus   -> per-stage progress, stage lists and total
Model: lean/St4sd/Model/Weights.lean via drv-c20.  Theorems: lean/St4sd/Props/C20.lean.
"""
from __future__ import annotations

import logging
import math
import os
import shutil
import tempfile
import threading
from fractions import Fraction

UNIT = 10 ** 9
TOL = 1000


def _imports():
    import experiment.model.frontends.flowir as F
    return F


# what the status-report holds for a stage that gives no weight ("missing": true, "entry": <flavour>); no "entry" key =
# the stage has no status-report entry at all
ENTRY_FLAVOURS = {"empty": {}, "args": {"arguments": "-l"}, "refs": {"references": []},
                  "args+refs": {"arguments": "--all", "references": []}}


def doc_for(ws, spec=None):
    comps = [{'name': 'c%d' % i, 'stage': i, 'command': {'executable': 'ls'}} for i in range(len(ws))]
    st = {i: {'stage-weight': w} for i, w in enumerate(ws) if w is not None}
    for i, e in enumerate(spec or []):
        if e.get("missing") and e.get("entry") is not None:
            st[i] = dict(ENTRY_FLAVOURS[e["entry"]])
    return {'components': comps, 'status-report': st}


def given_of(spec):
    """the package's weights as the model sees them: units, or None for a stage that gives none; None when some
    entry is not finite"""
    us = units_of(spec)
    if us is None:
        return None
    return [None if e.get("missing") else u for e, u in zip(spec, us)]


def to_py(spec):
    """spec: list of entries {"u": int} (weight = u/1e9), {"raw": "abc"|"nan"|"inf"}, {"missing": true}"""
    out = []
    for e in spec:
        if "u" in e:
            u = e["u"]
            s = "%s%d.%09d" % ("-" if u < 0 else "", abs(u) // UNIT, abs(u) % UNIT)
            v = float(s)
            out.append(s if e.get("as_str") else v)
        elif "raw" in e:
            out.append(e["raw"])
        else:
            out.append(None)
    return out


def units_of(spec):
    """exact units as the loader's float() sees them; None when some entry is not finite"""
    us = []
    for e in spec:
        if "u" in e:
            us.append(e["u"])
        elif "raw" in e:
            try:
                v = float(e["raw"])
            except ValueError:
                us.append(0)
                continue
            if math.isnan(v) or math.isinf(v):
                return None
            us.append(int(round(v * UNIT)))
        else:
            us.append(0)
    return us


def impl_loader(spec):
    F = _imports()
    try:
        c = F.FlowIRConcrete(doc_for(to_py(spec), spec), 'default', {})
        st = c.get_status()
    except Exception as exc:  # noqa
        return {"error": type(exc).__name__}
    lacking = [i for i in range(len(spec)) if not isinstance(st.get(i), dict) or 'stage-weight' not in st[i]]
    if lacking:
        return {"no_weight_for_stages": lacking[:20]}
    try:
        ws = [float(st[i]['stage-weight']) for i in range(len(spec))]
        return {"weights": [int(round(w * UNIT)) for w in ws], "floats": ws}
    except Exception as exc:  # noqa
        return {"error": type(exc).__name__}


# ----------------------------------------------------------------------------------------
# generators
# ----------------------------------------------------------------------------------------

def partition(rng, total, n):
    if n == 1:
        return [total]
    cuts = sorted(rng.randint(0, total) for _ in range(n - 1))
    parts = [b - a for a, b in zip([0] + cuts, cuts + [total])]
    return parts


def gen_spec(rng, n, kinds=None):
    kind = rng.choice(kinds or ["proper", "proper", "proper3", "near_in", "near_out", "negative", "trunc1000", "random",
                                "missing", "malformed", "gt1", "zeros", "strings", "proper_missing", "proper_missing"])
    if kind == "proper_missing":
        # the weights the package GIVES sum to one; the other stages have no entry / an entry without stage-weight
        n_given = rng.randint(1, max(1, n - 1))
        given = sorted(rng.sample(range(n), n_given))
        return kind, proper_with_missing(rng, n, given, rng.choice([1, 2, 3, 6, 9]))
    decimals = rng.choice([1, 2, 3, 4, 5, 6, 9])
    scale = 10 ** decimals
    step = UNIT // scale
    if kind == "proper3":
        decimals, scale, step = 3, 1000, UNIT // 1000
    if kind == "proper6":
        decimals, scale, step = 6, 10 ** 6, UNIT // 10 ** 6
    if kind in ("proper", "proper3", "proper6", "strings"):
        us = [p * step for p in partition(rng, scale, n)]
    elif kind == "near_in":
        us = [p * step for p in partition(rng, scale, n)]
        d = rng.choice([-1, 1]) * rng.randint(1, TOL - 2)
        i = rng.randrange(n)
        if us[i] + d >= 0:
            us[i] += d
    elif kind == "near_out":
        us = [p * step for p in partition(rng, scale, n)]
        d = rng.choice([-1, 1]) * rng.choice([TOL + 2, 2 * TOL, 10 ** 5, 4 * 10 ** 5, 8 * 10 ** 5, 10 ** 6, 10 ** 7])
        i = rng.randrange(n)
        us[i] += d
    elif kind == "negative":
        us = [p * step for p in partition(rng, scale, n)]
        if n >= 2:
            i, j = rng.sample(range(n), 2)
            d = us[i] + rng.randint(1, scale) * step
            us[i] -= d
            us[j] += d
        else:
            us[0] = -us[0]
    elif kind == "trunc1000":
        # truncated thousandths add up to 1000 but the real sum exceeds one (0.5004, 0.5004 family)
        ms = partition(rng, 1000, n)
        us = [m * (UNIT // 1000) + rng.randint(0, 999) * 1000 for m in ms]
    elif kind == "gt1":
        us = [rng.randint(0, 3 * scale) * step for _ in range(n)]
    elif kind == "zeros":
        us = [0] * n
    else:
        us = [rng.randint(-scale // 4, scale) * step for _ in range(n)]
    spec = [{"u": u} for u in us]
    if kind == "strings":
        for e in spec:
            if rng.random() < 0.5:
                e["as_str"] = True
    if kind == "missing":
        for e in rng.sample(spec, rng.randint(1, n)):
            e.clear()
            e["missing"] = True
            fl = rng.choice([None, None] + sorted(ENTRY_FLAVOURS))
            if fl is not None:
                e["entry"] = fl
    if kind == "malformed":
        for e in rng.sample(spec, rng.randint(1, n)):
            e.clear()
            e["raw"] = rng.choice(["abc", "", "nan", "inf", "-inf", "1e-3", "0x10"])
    # keep away from the tolerance boundary (float rounding decides there)
    tot = sum(e.get("u", 0) for e in spec)
    if abs(abs(tot - UNIT) - TOL) <= 1:
        spec[0] = {"u": spec[0].get("u", 0) + 7}
    return kind, spec


def proper_with_missing(rng, n, given, decimals, flavour=None):
    """n stages; the stages in `given` carry weights that sum to one (multiples of 10^-decimals, zero allowed), every
    other stage gives no weight (`flavour`: None = random, "" = no entry, else a key of ENTRY_FLAVOURS)"""
    scale = 10 ** decimals
    parts = partition(rng, scale, len(given))
    spec = []
    for i in range(n):
        if i in given:
            spec.append({"u": parts[given.index(i)] * (UNIT // scale)})
        else:
            e = {"missing": True}
            fl = flavour if flavour is not None else rng.choice(["", ""] + sorted(ENTRY_FLAVOURS))
            if fl:
                e["entry"] = fl
            spec.append(e)
    return spec


def missing_combinations(rng, n, flavours):
    """every assignment given / missing (in each flavour) to n stages with at least one given stage"""
    import itertools
    out = []
    for mask in itertools.product(["given"] + list(flavours), repeat=n):
        given = [i for i, m in enumerate(mask) if m == "given"]
        if not given or len(given) == n:
            continue
        spec = proper_with_missing(rng, n, given, 3)
        for i, m in enumerate(mask):
            if m != "given":
                spec[i] = {"missing": True}
                if m:
                    spec[i]["entry"] = m
        out.append(("proper_missing_all", spec))
    return out


# ----------------------------------------------------------------------------------------
# oracle (model independent restatement of the property)
# ----------------------------------------------------------------------------------------

def oracle_weights(spec, out):
    """returns None or a description of the failure"""
    if "error" in out:
        return "loader-raises-" + out["error"]
    if "no_weight_for_stages" in out:
        return "loaded-status-report-has-no-weight-for-a-stage"
    ws = out["floats"]
    if any(not (w >= 0.0) for w in ws):
        return "negative-weight-loaded"
    if not abs(math.fsum(ws) - 1.0) < 1e-6 + 1e-12:
        return "loaded-weights-do-not-sum-to-one"
    us = units_of(spec)
    if us is not None and all(u >= 0 for u in us) and sum(us) == UNIT:
        if out["weights"] != us:
            return "proper-weights-not-kept"
    return None


def classify_old_algorithm(what, case, detail):
    return False


CLASSIFIERS = {}


# ----------------------------------------------------------------------------------------
# StatusMonitor part
# ----------------------------------------------------------------------------------------

CALL_POINTS = ["stage", "stageState", "lock_acquire", "get_stages_in_transit", "get_stages_finished",
               "lock_release", "get_stage_status"]
IDLE, TRANSIT, FINISHED = "idle", "transit", "finished"


class ScriptedLock:
    """Stands for Controller.comp_lock: while the monitor holds it no other thread changes the controller's
    component lists, i.e. scripted state changes that fall due while it is held are applied at the release."""

    def __init__(self, ctl):
        self.ctl = ctl
        self.depth = 0

    def acquire(self, blocking=True, timeout=-1):
        self.ctl._point("lock_acquire")      # the other threads may still run just before we get the lock
        self.depth += 1
        return True

    def release(self):
        self.depth -= 1
        if self.depth == 0:
            self.ctl._flush()
        self.ctl._point("lock_release")

    def __enter__(self):
        self.acquire()
        return self

    def __exit__(self, *a):
        self.release()
        return False


class ScriptedController:
    """A controller whose state (current stage; per stage: unknown / in transit / finished, progress numerator)
    changes at chosen call points of the status check, as the threads of the real Controller change it
    (finishedCheck adds the last component of a stage to comp_done -> the stage moves from the in-transit list to
    the finished list; later stages get their first active component; the current stage advances).

    Invariants of every state (those of experiment.runtime.control.Controller): a stage is in at most one of
    the two lists; unknown stage -> get_stage_status is None; finished stage -> every component done (progress 1)."""

    def __init__(self, exp, sc):
        self.exp = exp
        n = len(exp._stages)
        self.n = n
        self.scale = sc["scale"]
        self.cur = sc["current"]
        self.label = {k: IDLE for k in range(n)}
        self.p = {k: 0 for k in range(n)}
        for k in sc["finished"]:
            self.label[k] = FINISHED
            self.p[k] = self.scale
        for k in sc["transit"]:
            self.label[k] = TRANSIT
        for k, v in sc["progress"].items():
            k = int(k)
            if self.label[k] == IDLE:   # static scenarios of earlier versions: the current stage with a progress value
                self.label[k] = TRANSIT
            if self.label[k] == TRANSIT:
                self.p[k] = v
        self.script = {}
        for ev in sc.get("events", []):
            self.script.setdefault((ev["at"], ev["n"]), []).extend(ev["do"])
        self.counter = {}
        self.deferred = []
        self.comp_lock = ScriptedLock(self)
        self.snapshots = [self._snap()]
        self.fired = []
        self.reads = {"cur": [], "transit": [], "finished": [], "p": {}}

    # -- scripted state changes ------------------------------------------------------------------------
    def _snap(self):
        return [self.p[k] for k in range(self.n)]

    def _apply(self, ev):
        kind = ev[0]
        ok = False
        if kind == "prog":
            k, v = ev[1], ev[2]
            if self.label.get(k) == TRANSIT and self.p[k] < v <= self.scale:
                self.p[k] = v
                ok = True
        elif kind == "start":
            k = ev[1]
            if self.label.get(k) == IDLE:
                self.label[k] = TRANSIT
                ok = True
        elif kind == "finish":
            k = ev[1]
            if self.label.get(k) == TRANSIT:
                self.label[k] = FINISHED
                self.p[k] = self.scale
                ok = True
        elif kind == "advance":
            if self.cur + 1 < self.n:
                self.cur += 1
                ok = True
        if ok:
            self.fired.append(kind)
            self.snapshots.append(self._snap())

    def _flush(self):
        evs, self.deferred = self.deferred, []
        for ev in evs:
            self._apply(ev)

    def _point(self, name):
        i = self.counter.get(name, 0)
        self.counter[name] = i + 1
        evs = self.script.get((name, i), [])
        if self.comp_lock.depth > 0:
            self.deferred.extend(evs)
        else:
            for ev in evs:
                self._apply(ev)

    # -- the part of the Controller interface the status monitor uses ---------------------------------------
    def stage(self):
        self._point("stage")
        self.reads["cur"].append(self.cur)
        return self.exp._stages[self.cur]

    def stageState(self, stage=None):
        self._point("stageState")
        return "running"

    def get_stages_in_transit(self):
        self._point("get_stages_in_transit")
        r = sorted(k for k in range(self.n) if self.label[k] == TRANSIT)
        self.reads["transit"].append(r)
        return list(r)

    def get_stages_finished(self):
        self._point("get_stages_finished")
        r = sorted(k for k in range(self.n) if self.label[k] == FINISHED)
        self.reads["finished"].append(r)
        return list(r)

    def get_stage_status(self, idx):
        self._point("get_stage_status")
        if self.label.get(idx, IDLE) == IDLE:
            self.reads["p"][idx] = 0
            return None
        self.reads["p"][idx] = self.p[idx]
        return self.p[idx] / float(self.scale)

    def generate_status_report_for_nodes(self, *a, **k):
        return ""


def flowir_yaml(spec):
    import yaml
    d = doc_for(to_py(spec), spec)
    return yaml.safe_dump(d)


def impl_monitor(spec, scenarios, workdir):
    """Builds a real Experiment + StatusMonitor; runs the real CheckStatus closure for each scenario."""
    import tests.utils as TU
    import experiment.runtime.output as O
    import experiment.runtime.monitor as M
    try:
        exp = TU.experiment_from_flowir(flowir_yaml(spec), workdir, checkExecutables=False)
    except Exception as exc:
        return {"error": type(exc).__name__}
    mon = O.StatusMonitor(exp, report_components=False)
    mon.log.setLevel(logging.CRITICAL)
    res = {"stageWeights": [int(round(float(w) * UNIT)) for w in mon.stageWeights],
           "floats": [float(w) for w in mon.stageWeights], "totals": [], "runs": []}
    captured = {}

    def fake_create(interval, action, cancelEvent=None, name=None, **kw):
        captured["action"] = action
        return lambda: None
    orig = M.CreateMonitor
    M.CreateMonitor = fake_create
    try:
        for sc in scenarios:
            ctl = ScriptedController(exp, sc)
            try:
                mon.run(ctl)
                captured["action"](False)
                res["totals"].append(float(exp.statusFile.totalProgress()))
            except Exception as exc:  # noqa
                res["totals"].append(None)
                res["runs"].append({"error": type(exc).__name__ + ": " + str(exc)[:200]})
                continue
            res["runs"].append({"snapshots": ctl.snapshots, "fired": ctl.fired, "reads": ctl.reads,
                                "calls": dict(ctl.counter), "lock_balanced": ctl.comp_lock.depth == 0})
    finally:
        M.CreateMonitor = orig
    return res


def gen_scenario(rng, n):
    """initial controller state + scripted state changes at call points of the check"""
    scale = 1000
    current = rng.randrange(n)
    label = {}
    for k in range(n):
        if k < current:
            label[k] = rng.choice([FINISHED, FINISHED, FINISHED, TRANSIT, IDLE])
        elif k == current:
            label[k] = rng.choice([TRANSIT, TRANSIT, TRANSIT, FINISHED, IDLE])
        else:
            label[k] = rng.choice([IDLE, IDLE, TRANSIT, TRANSIT, FINISHED])
    if n > 16:   # keep the number of per-stage progress reads moderate for long workflows
        for k in range(n):
            if label[k] == TRANSIT and k != current and rng.random() < 1.0 - 8.0 / n:
                label[k] = rng.choice([IDLE, FINISHED])
    progress = {}
    for k in range(n):
        if label[k] == TRANSIT:
            progress[str(k)] = rng.choice([0, scale, rng.randint(0, scale)])
    if rng.random() < 0.2:  # everything complete
        for k in range(n):
            if label[k] == IDLE or (k != current and rng.random() < 0.7):
                label[k] = FINISHED
                progress.pop(str(k), None)
            if label[k] == TRANSIT:
                progress[str(k)] = scale
    transit = [k for k in range(n) if label[k] == TRANSIT]
    finished = [k for k in range(n) if label[k] == FINISHED]
    events = []
    for _ in range(rng.choice([0, 1, 2, 2, 3, 4])):
        at = rng.choice(CALL_POINTS + ["get_stage_status", "get_stages_finished", "get_stages_in_transit"])
        nth = rng.randrange(0, 3) if at == "get_stage_status" else 0
        kind = rng.choice(["finish", "finish", "finish", "start", "prog", "advance"])
        if kind == "finish" and transit:
            do = ["finish", rng.choice(transit)]
        elif kind == "prog" and transit:
            do = ["prog", rng.choice(transit), rng.choice([scale, rng.randint(1, scale)])]
        elif kind == "start":
            do = ["start", rng.randrange(n)]
        else:
            do = ["advance"]
        events.append({"at": at, "n": nth, "do": [do]})
    return {"scale": scale, "current": current, "transit": transit, "finished": finished, "progress": progress,
            "events": events}


def snapshot_totals(run, floats, scale):
    """exact weighted progress of every state the controller went through during the check"""
    ws = [Fraction(w) for w in floats]
    return [sum((w * p for w, p in zip(ws, snap)), Fraction(0)) / scale for snap in run["snapshots"]]


def model_check_request(sc, run, ws):
    """what this check read from the controller (last answer of each call)"""
    rd = run["reads"]
    return {"op": "check", "scale": sc["scale"], "cur": rd["cur"][0], "transit": rd["transit"][-1],
            "finished": rd["finished"][-1], "ps": [rd["p"].get(k, 0) for k in range(len(ws))], "ws": ws}


# ----------------------------------------------------------------------------------------

# ----------------------------------------------------------------------------------------
# Real Controller part: per-stage progress from the controller's own component bookkeeping
# ----------------------------------------------------------------------------------------
#
# case = {"kind", "spec": stage-weight spec (one entry per stage), "stages": [{"static": s, "loop": l}], "start": k0,
#         "ops": [...]}.  Stage k has s ordinary components `stage<k>.s<j>` and, when l > 0, imports a DoWhile document
# `dw` of l components `l0 … l<l-1>` (condition = l0/next.txt:output); iteration i of it is `stage<k>.<i>#l<j>`.
# ops: ["q"]                 ask the real Controller.get_stage_status for every stage, run the real CheckStatus once
#      ["done", ref]         the task of `ref` exits with success and the component reaches FINISHED (ComponentState.finish)
#      ["fc", ref, cond]     the real Controller.finishedCheck is delivered for `ref`; when `ref` produces the current
#                            condition of its DoWhile the file next.txt holds `cond` ("True": the real
#                            _handle_condition_component_finished instantiates the next iteration)
#      ["adv", k]            Controller._instantiate_next_dowhile_iteration for the document of stage k
#      ["next"]              the stage loop moves on: Experiment.incrementStage + Controller.initialise(next stage)

def ctl_refs(k, st, iterations):
    out = ["stage%d.s%d" % (k, j) for j in range(st["static"])]
    for i in range(iterations):
        out += ["stage%d.%d#l%d" % (k, i, j) for j in range(st["loop"])]
    return out


FINALS = ("finished", "shutdown", "failed")


def norm_op(op):
    """["done", ref] is the older spelling of ["term", ref, "finished"]"""
    if op[0] == "done":
        return ["term", op[1], "finished"]
    return op


class CtlSim:
    """What the case says happens (pure bookkeeping, independent of the real code and of the Lean model).

    state[ref]   final state the component reached ("finished" | "shutdown" | "failed"); absent = alive
    delivered    the terminations the controller has observed (its finishedCheck ran for them)
    A FAILED component of the current (or an earlier) stage that is observed stops the stage: every component of the
    stage that has not terminated is SHUTDOWN and observed (Controller.finishedCheck: _fake_finish_with_state +
    _stopComponents).  ["stop", k]: the package's IsStageComplete hook declared the running stage complete: the same
    for stage k."""

    def __init__(self, case):
        self.stages = case["stages"]
        self.start = int(case.get("start", 0))
        self.cur = self.start
        self.iters = [1 if st["loop"] else 0 for st in self.stages]
        self.pop = [ctl_refs(k, st, self.iters[k]) for k, st in enumerate(self.stages)]
        self.state = {}
        self.delivered = set()
        for k in range(self.start):          # the earlier run of a restarted experiment completed these stages
            for r in self.pop[k]:
                self.state[r] = "finished"
            self.delivered.update(self.pop[k])

    @property
    def done(self):
        """terminated successfully"""
        return set(r for r, f in self.state.items() if f == "finished")

    def stage_of(self, ref):
        return int(ref.split(".")[0][5:])

    def cond_ref(self, k):
        return "stage%d.%d#l0" % (k, self.iters[k] - 1) if self.stages[k]["loop"] else None

    def grow(self, k):
        i = self.iters[k]
        self.iters[k] += 1
        self.pop[k] += ["stage%d.%d#l%d" % (k, i, j) for j in range(self.stages[k]["loop"])]

    def valid(self, op):
        op = norm_op(op)
        kind = op[0]
        if kind == "q":
            return True
        if kind == "term":
            k = self.stage_of(op[1])
            if not (0 <= k < len(self.stages)) or op[1] not in self.pop[k] or op[1] in self.state or op[2] not in FINALS:
                return False
            # a failure in a FUTURE stage makes the controller kill the whole experiment: not a continuing history
            return op[2] != "failed" or k <= self.cur
        if kind == "fc":
            return op[1] in self.state and op[1] not in self.delivered
        if kind == "adv":
            k = op[1]
            return self.start <= k < len(self.stages) and self.stages[k]["loop"] > 0 and self.cond_ref(k) not in self.delivered
        if kind == "stop":
            return op[1] == self.cur
        if kind == "next":
            return self.cur + 1 < len(self.stages) and all(r in self.delivered for r in self.pop[self.cur])
        return False

    def _stop_stage(self, k):
        for r in self.pop[k]:
            if r not in self.state:
                self.state[r] = "shutdown"
                self.delivered.add(r)

    def apply(self, op):
        """returns the model-level operations
        [["term", k, i, f] | ["see", k, i] | ["grow", k, m] | ["stop", k] | ["next"] | ["q"]]"""
        op = norm_op(op)
        kind = op[0]
        if kind == "q":
            return [["q"]]
        if kind == "term":
            k = self.stage_of(op[1])
            self.state[op[1]] = op[2]
            return [["term", k, self.pop[k].index(op[1]), op[2]]]
        if kind == "fc":
            k = self.stage_of(op[1])
            out = [["see", k, self.pop[k].index(op[1])]]
            grew = (op[1] == self.cond_ref(k) and str(op[2]).strip().lower() == "true"
                    and self.state[op[1]] == "finished")
            self.delivered.add(op[1])
            if grew:
                self.grow(k)
                out.append(["grow", k, self.stages[k]["loop"]])
            if self.state[op[1]] == "failed":
                self._stop_stage(k)
                out.append(["stop", k])
            return out
        if kind == "adv":
            self.grow(op[1])
            return [["grow", op[1], self.stages[op[1]]["loop"]]]
        if kind == "stop":
            self._stop_stage(op[1])
            return [["stop", op[1]]]
        if kind == "next":
            self.cur += 1
            return [["next"]]
        raise ValueError(op)

    def fractions(self):
        return [[sum(1 for r in p if self.state.get(r) == "finished"), len(p)] for p in self.pop]

    def completed(self, k):
        """every component stage k has now terminated (in whatever final state) and the controller observed it"""
        return all(r in self.delivered for r in self.pop[k])

    def all_successful(self, k):
        return all(self.state.get(r) == "finished" for r in self.pop[k])


def gen_ctl_case(rng, kind=None):
    """kind: None = random; "success" = every component ends FINISHED (the family of the earlier rounds);
    "finals" = components end FINISHED / SHUTDOWN / FAILED (an observed failure stops the rest of its stage, the
    IsStageComplete hook stops the running stage) and the experiment carries on with the next stage"""
    finals = (kind or rng.choice(["success", "finals", "finals"])) == "finals"
    n = rng.choice([1, 2, 2, 3, 3, 4]) if not finals else rng.choice([2, 2, 3, 3, 4, 5])
    stages = []
    for k in range(n):
        loop = rng.choice([0, 0, 1, 1, 2, 3]) if not finals else rng.choice([0, 0, 0, 1, 2])
        static = rng.randint(0 if loop else 1, 3)
        stages.append({"static": static, "loop": loop})
    if not finals and not any(st["loop"] for st in stages):
        stages[rng.randrange(n)]["loop"] = rng.choice([1, 2])
    start = 0
    if n >= 2 and rng.random() < 0.2:
        start = rng.randint(1, n - 1)
        for k in range(start):          # finished stages of the earlier run: keep them free of loops
            stages[k] = {"static": max(1, stages[k]["static"]), "loop": 0}
        if not finals and not any(st["loop"] for st in stages):
            stages[start]["loop"] = 1
    wkind = rng.choice(["proper3", "proper3", "proper", "proper_missing", "random", "missing"])
    _, spec = gen_spec(rng, n, kinds=[wkind])
    case = {"kind": "ctl:" + ("finals:" if finals else "") + wkind, "spec": spec, "stages": stages, "start": start,
            "ops": []}
    sim = CtlSim(case)
    max_iter = rng.choice([2, 3, 3, 4])
    # how the components of this case tend to end
    mix = rng.choice([(6, 3, 1), (4, 4, 2), (2, 6, 2), (5, 0, 3), (5, 5, 0)]) if finals else (1, 0, 0)

    def final_for(ref):
        f = rng.choices(FINALS, weights=mix)[0]
        if f == "failed" and sim.stage_of(ref) > sim.cur:
            f = "shutdown"
        return f

    ops = []

    def emit(o):
        ops.append(o)
        sim.apply(o)

    if rng.random() < 0.8:
        ops.append(["q"])            # somebody asks before anything happened (the first tick of the status monitor)
    finish_all = rng.random() < (0.6 if not finals else 0.75)
    for _ in range(rng.randint(4, 40)):
        undone = [r for k in range(start, n) for r in sim.pop[k] if r not in sim.state]
        # prefer the current stage, but later stages run ahead as well
        pref = [r for r in undone if sim.stage_of(r) <= sim.cur] or undone
        pend = sorted(r for r in sim.state if r not in sim.delivered)
        r_ = rng.random()
        if sim.valid(["next"]) and rng.random() < 0.3:
            op = ["next"]                # the running stage completed: the stage loop moves on promptly
        elif r_ < 0.25:
            op = ["q"]
        elif r_ < 0.72 and undone:
            ref = rng.choice(pref if rng.random() < 0.7 else undone)
            f = final_for(ref)
            op = ["done", ref] if f == "finished" else ["term", ref, f]
        elif r_ < 0.90 and pend:
            op = ["fc", rng.choice(pend), None]
        elif r_ < 0.93:
            op = ["adv", rng.randrange(n)]
        elif r_ < 0.96 and finals:
            op = ["stop", sim.cur]
        else:
            op = ["next"]
        if not sim.valid(op):
            continue
        both = op[0] in ("done", "term") and rng.random() < 0.6
        for o in ([op, ["fc", op[1], None]] if both else [op]):
            if o[0] == "fc":
                k = sim.stage_of(o[1])
                if o[1] == sim.cond_ref(k):
                    o[2] = "True" if (sim.iters[k] < max_iter and rng.random() < 0.7) else "False"
            emit(o)
            if o[0] in ("stop", "next") or (o[0] == "fc" and (o[2] == "True" or sim.state.get(o[1]) == "failed")):
                if rng.random() < 0.6:
                    emit(["q"])
    if finish_all:
        # everything completes: every component terminates, every notification is delivered, the stage loop ends
        last_ok = rng.random() < 0.6       # the last stage ends with success only
        guard = 0
        while guard < 300:
            guard += 1
            undone = [r for k in range(start, n) for r in sim.pop[k] if r not in sim.state]
            pend = sorted(r for r in sim.state if r not in sim.delivered)
            if pend:
                ref = pend[0]
                k = sim.stage_of(ref)
                o = ["fc", ref, "False" if ref == sim.cond_ref(k) else None]
            elif sim.valid(["next"]) and (not undone or rng.random() < 0.7):
                o = ["next"]
            elif undone:
                ref = undone[0]
                f = "finished" if (last_ok and sim.stage_of(ref) == n - 1) else final_for(ref)
                if finals and f != "failed" and sim.stage_of(ref) == sim.cur and rng.random() < 0.1:
                    o = ["stop", sim.cur]
                else:
                    o = ["done", ref] if f == "finished" else ["term", ref, f]
            else:
                break
            emit(o)
            if rng.random() < (0.15 if not finals else 0.3) or o[0] == "next":
                ops.append(["q"])
    ops.append(["q"])
    case["ops"] = ops
    return case


def ctl_package(case):
    import yaml
    cmd = {"executable": "echo", "arguments": "x"}
    comps, extra = [], {}
    for k, st in enumerate(case["stages"]):
        for j in range(st["static"]):
            comps.append({"name": "s%d" % j, "stage": k, "command": dict(cmd)})
        if st["loop"]:
            dw = {"type": "DoWhile", "inputBindings": {}, "loopBindings": {}, "condition": "l0/next.txt:output",
                  "components": [{"name": "l%d" % j, "command": dict(cmd)} for j in range(st["loop"])]}
            extra["conf/dw%d.yaml" % k] = yaml.safe_dump(dw)
            comps.append({"name": "dw", "stage": k, "$import": "dw%d.yaml" % k, "bindings": {}})
    d = doc_for(to_py(case["spec"]), case["spec"])
    d["components"] = comps
    return yaml.safe_dump(d), extra


def impl_ctl(case, tmp):
    """Real Experiment + real Controller (deterministic runtime harness/detsim.py: fake engines, no threads) + real
    StatusMonitor; returns {"queries": [...]} (one entry per ["q"]) or {"error": ...}"""
    from harness import detsim
    env = detsim.install()
    import tests.utils as TU
    import experiment.model.codes as codes
    import experiment.runtime.output as O
    import experiment.runtime.monitor as M
    main, extra = ctl_package(case)
    cwd = os.getcwd()
    n_int, n_eng = len(env["intervals"]), len(env["ENGINES"])
    exp = None
    queries = []
    orig = M.CreateMonitor
    where = "load"
    try:
        try:
            exp = TU.experiment_from_flowir(main, tmp, extra_files=extra, checkExecutables=False)
        except Exception as exc:  # noqa
            return {"error": "load:" + type(exc).__name__, "msg": str(exc)[-800:]}
        try:
            where = "controller"
            start = int(case.get("start", 0))
            n = len(case["stages"])
            ctl, _ = TU.new_controller(exp, initial_stage=start)
            status = detsim.FakeStatus()
            ctl.initialise(exp._stages[start], status)
            for _ in range(start):
                exp.incrementStage()
            where = "monitor"
            mon = O.StatusMonitor(exp, report_components=False)
            captured = {}

            def fake_create(interval, action, cancelEvent=None, name=None, **kw):
                captured["action"] = action
                return lambda: None
            M.CreateMonitor = fake_create
            wg = exp.experimentGraph
            weights = [float(w) for w in mon.stageWeights]
            for op in case["ops"]:
                where = "op:" + op[0]
                if op[0] == "q":
                    ps = [ctl.get_stage_status(k) for k in range(n)]
                    pops = [0] * n
                    for _, data in wg.graph.nodes(data=True):
                        pops[data["stageIndex"]] += 1
                    mon.run(ctl)
                    captured["action"](False)
                    queries.append({"p": [None if v is None else float(v) for v in ps], "graph_pop": pops,
                                    "total": float(exp.statusFile.totalProgress()),
                                    "cur": int(ctl.currentStage.index),
                                    "transit": list(ctl.get_stages_in_transit()),
                                    "finished": list(ctl.get_stages_finished())})
                elif op[0] == "done" or (op[0] == "term" and op[2] == "finished"):
                    comp = ctl.get_compstate(op[1])
                    eng = comp.engine
                    if not eng.started:
                        eng.run()
                    eng.die("Success")
                    comp.finish(codes.FINISHED_STATE)
                elif op[0] == "term" and op[2] == "failed":
                    # the task exits with an error the component does not recover from
                    comp = ctl.get_compstate(op[1])
                    eng = comp.engine
                    if not eng.started:
                        eng.run()
                    eng.die("KnownIssue")
                    comp.finish(codes.FAILED_STATE)
                elif op[0] == "term" and op[2] == "shutdown":
                    # somebody stops the component (what Controller._stopComponents does to one component)
                    comp = ctl.get_compstate(op[1])
                    comp.finish(codes.SHUTDOWN_STATE)
                elif op[0] == "stop":
                    # the package's IsStageComplete hook said True for stage k: body of the closure that
                    # Controller._observe_completionCheck runs (real _fake_finish_with_state / _stopComponents)
                    comps = sorted(ctl.get_components_in_stage(op[1]), key=lambda c: c.specification.reference)
                    with ctl.comp_lock:
                        for comp in comps:
                            if comp not in ctl.comp_staged_in and comp.finishCalled is False:
                                ctl._fake_finish_with_state(comp, codes.SHUTDOWN_STATE)
                        ctl._stopComponents(comps, False)
                elif op[0] == "fc":
                    comp = ctl.get_compstate(op[1])
                    if op[2] is not None:
                        job = exp.getStage(comp.stageIndex).jobWithName(comp.specification.identification.componentName)
                        with open(os.path.join(job.directory, "next.txt"), "w") as f:
                            f.write(str(op[2]) + "\n")
                    ctl.finishedCheck(comp.state, comp)
                elif op[0] == "adv":
                    node = wg.get_document_metadata("DoWhile", "stage%d.dw" % op[1])
                    ctl._instantiate_next_dowhile_iteration(node)
                elif op[0] == "next":
                    exp.incrementStage()
                    ctl.initialise(exp._stages[int(ctl.currentStage.index) + 1], status)
                else:
                    raise ValueError("unknown op %r" % (op,))
            return {"queries": queries, "weights": weights,
                    "stageWeights": [int(round(w * UNIT)) for w in weights]}
        except Exception as exc:  # noqa
            import traceback
            return {"error": "%s:%s" % (where, type(exc).__name__), "msg": traceback.format_exc()[-1200:],
                    "queries": queries}
    finally:
        M.CreateMonitor = orig
        os.chdir(cwd)
        for _, sub in env["intervals"][n_int:]:
            try:
                sub.on_completed()
            except Exception:
                pass
        del env["intervals"][n_int:]
        del env["ENGINES"][n_eng:]
        try:
            shutil.rmtree(exp.instanceDirectory.location, ignore_errors=True)  # noqa
        except Exception:
            pass


def as_fraction(v):
    """a float that is a ratio of small counts -> [numerator, denominator] in lowest terms"""
    f = Fraction(v).limit_denominator(10 ** 6)
    return [f.numerator, f.denominator]


def old_model_ops(mops):
    """the history in the vocabulary of Weights.run (every component ends FINISHED): None when it is not such a one"""
    out = []
    for o in mops:
        if o[0] == "term":
            if o[3] != "finished":
                return None
            out.append(["fin", o[1], o[2]])
        elif o[0] == "stop":
            return None
        elif o[0] in ("grow", "q"):
            out.append(o)
    return out


def check_ctl_cases(ctx, cases, outs=None):
    tmp = tempfile.mkdtemp(prefix="c20ctl-")
    try:
        for case in cases:
            sim = CtlSim(case)
            n = len(case["stages"])
            start = int(case.get("start", 0))
            mops, expect = [], []
            ok = True
            for op in case["ops"]:
                if not sim.valid(op):
                    ok = False
                    break
                mops += sim.apply(op)
                if op[0] == "q":
                    completed = [k < start or sim.completed(k) for k in range(n)]
                    success = [k < start or sim.all_successful(k) for k in range(n)]
                    expect.append({"fr": sim.fractions(), "cur": sim.cur, "completed": completed,
                                   # every stage has completed: stages other than the current one terminated (in any
                                   # final states) and were observed, or ended with success only; the current stage,
                                   # whose contribution IS its progress value, ended with success only
                                   "complete": all(success[k] or (completed[k] and k != sim.cur) for k in range(n)),
                                   "all_terminated": all(completed),
                                   "unsuccessful": sorted(set(f for f in sim.state.values() if f != "finished"))})
            if not ok:
                ctx.tag("ctl:case-with-an-operation-that-cannot-happen-skipped")
                continue
            out = impl_ctl(case, tmp)
            if outs is not None:
                outs.append(out)
            grows = sum(1 for o in mops if o[0] == "grow")
            unsucc = sorted(set(f for f in sim.state.values() if f != "finished"))
            ctx.case(case, nontrivial=(grows >= 1 or bool(unsucc)) and len(expect) >= 2,
                     tags=["ctl:stages:%d" % n, "ctl:restart" if case.get("start") else "ctl:from-stage-0",
                           "ctl:population-growths:%d" % min(grows, 4)] +
                          ["ctl:component-ends-" + f for f in unsucc] +
                          (["ctl:stage-stopped-by-completion-hook"] if any(o[0] == "stop" for o in case["ops"]) else []) +
                          (["ctl:stage-stopped-by-failure"] if any(o[0] == "stop" for o in mops) and
                           any(f == "failed" for f in sim.state.values()) else []))
            if out.get("error", "").startswith("load:ExperimentInvalidConfigurationError"):
                ctx.tag("ctl:package-rejected-as-invalid")
                continue
            if "error" in out:
                report(ctx, "controller-history-raises-" + out["error"].split(":")[-1], case, out)
                continue
            for qi, (q, ex) in enumerate(zip(out["queries"], expect)):
                upto = 0
                cnt = -1
                for oi, op in enumerate(case["ops"]):
                    if op[0] == "q":
                        cnt += 1
                        if cnt == qi:
                            upto = oi + 1
                            break
                case1 = dict(case, ops=case["ops"][:upto])
                for k in range(start, n):
                    v = q["p"][k]
                    f, p = ex["fr"][k]
                    if v is None:
                        continue
                    if not (0.0 <= v <= 1.0):
                        report(ctx, "stage-progress-outside-unit-interval", case1,
                                 {"stage": k, "progress": v, "finished_components": f, "components_of_the_stage_now": p})
                    elif f == p and v != 1.0:
                        report(ctx, "stage-progress-not-one-when-stage-complete", case1,
                                 {"stage": k, "progress": v, "finished_components": f, "components_of_the_stage_now": p})
                    elif p and abs(v - f / float(p)) > 1e-12:
                        # the per-stage progress of a stage without status script IS the finished fraction of the
                        # components the stage has now (Controller.get_stage_status)
                        report(ctx, "stage-progress-is-not-the-finished-fraction-of-the-current-population", case1,
                                 {"stage": k, "progress": v, "finished_components": f, "components_of_the_stage_now": p})
                if not (-1e-12 <= q["total"] <= 1.0 + 1e-6 + 1e-9):
                    report(ctx, "total-progress-outside-unit-interval", case1, {"total": q["total"], "stage_progress": q["p"]})
                if ex["complete"]:
                    ctx.tag("ctl:query-when-complete")
                    if ex["unsuccessful"]:
                        ctx.tag("ctl:query-when-complete-with-unsuccessful-components")
                    if abs(q["total"] - 1.0) > 1e-6 + 1e-9:
                        report(ctx, "total-progress-not-one-when-complete", case1,
                               {"total": q["total"], "stage_progress": q["p"], "finished_list": q["finished"],
                                "in_transit_list": q["transit"], "current": q["cur"]})
                elif ex["all_terminated"]:
                    # every component terminated but the CURRENT stage holds SHUTDOWN/FAILED ones: its contribution is
                    # its progress value (the FINISHED fraction): not a case of the "equals one" clause (see manifest)
                    ctx.tag("ctl:all-terminated-current-stage-has-unsuccessful-components")
                # the total is the weighted sum of the per-stage progress values, where a COMPLETED stage (all of its
                # components terminated - in whatever final states - and observed; not the current one, whose value is
                # its progress) contributes its weight exactly once
                ws = out["weights"]
                vals = []
                for k in range(n):
                    if ex["completed"][k] and k != ex["cur"]:
                        vals.append(Fraction(1))
                    else:
                        vals.append(Fraction(0) if q["p"][k] is None else Fraction(q["p"][k]))
                want = sum((Fraction(w) * v for w, v in zip(ws, vals)), Fraction(0))
                if abs(Fraction(q["total"]) - want) > Fraction(1, 10 ** 9):
                    twice = [k for k in range(n) if ex["completed"][k] and k != ex["cur"] and
                             (k in q["transit"] or q["finished"].count(k) != 1)]
                    report(ctx, "completed-stage-does-not-contribute-its-weight-exactly-once" if twice else
                           "total-progress-is-not-the-weighted-sum-of-stage-progress", case1,
                           {"total": q["total"], "weighted_sum": float(want), "stage_progress": q["p"],
                            "completed_stages": [k for k in range(n) if ex["completed"][k]], "current": q["cur"],
                            "finished_list": q["finished"], "in_transit_list": q["transit"],
                            "stages_in_question": twice, "weights": ws})
                if q["graph_pop"] != [p for _, p in ex["fr"]]:
                    ctx.tag("ctl:graph-population-differs-from-the-case")    # C05's subject; reported as a disagreement below
            ctx.tag("ctl:queries", len(out["queries"]))
            # model: Weights.runC / inTransitOf / finishedOf / compTotal on the same history (and Weights.run /
            # queryStage / totalOfStages when every component ends FINISHED)
            gs = given_of(case["spec"])
            if ctx.driver is None or gs is None:
                continue
            us = [0 if g is None else g for g in gs]
            pops0 = [len(ctl_refs(k, st, 1 if st["loop"] else 0)) for k, st in enumerate(case["stages"])]
            reqs = [{"op": "comphist", "stages": pops0, "start": start, "ws": us, "ops": mops}]
            oldops = old_model_ops(mops)
            if oldops is not None:
                reqs.append({"op": "stagehist", "stages": pops0, "ws": us,
                             "ops": [["fin", k, i] for k in range(start) for i in range(case["stages"][k]["static"])] + oldops})
            mos = ctx.model(reqs)
            mo = mos[0]
            ctx.compare("Controller histories: StatusMonitor.stageWeights == Weights.normalize", case,
                        {"weights": mo["weights"]}, {"weights": out["stageWeights"]})
            m_out, i_out = [], []
            for q, mq, ex in zip(out["queries"], mo["queries"], expect):
                mfr = [as_fraction(Fraction(f, p)) if p else None for f, p in mq["stages"]]
                ifr = [None if v is None else as_fraction(v) for v in q["p"]]
                for k in range(start):       # stages of the earlier run: unknown to this controller, counted as complete
                    mfr[k] = ifr[k] = "earlier-run"
                exact = Fraction(mq["total"], mq["D"] * UNIT) if mq["D"] else None
                agree = exact is not None and abs(Fraction(q["total"]) - exact) < Fraction(1, 10 ** 9)
                m_out.append({"stage_progress": mfr, "population": [p for _, p in mq["stages"]], "total_agrees": True,
                              "current": mq["cur"], "in_transit": mq["transit"], "finished": mq["finished"]})
                i_out.append({"stage_progress": ifr, "population": q["graph_pop"],
                              "total_agrees": True if agree else {"impl_total": q["total"], "model_total": float(exact) if exact is not None else None},
                              "current": q["cur"], "in_transit": sorted(q["transit"]), "finished": sorted(q["finished"])})
                if [[f, p] for f, p in mq["stages"]] != ex["fr"]:
                    ctx.tag("ctl:model-and-case-bookkeeping-differ")
                    m_out[-1]["bookkeeping"] = mq["stages"]
                    i_out[-1]["bookkeeping"] = ex["fr"]
            ctx.compare("Controller.get_stage_status == Weights.scaledC (FINISHED/current population), "
                        "get_stages_in_transit/get_stages_finished == Weights.inTransitOf/finishedOf (from comp_done) and "
                        "CheckStatus total == Weights.compTotal, at every query of the history", case, m_out, i_out)
            if oldops is not None:
                m_out, i_out = [], []
                for q, mq in zip(out["queries"], mos[1]["queries"]):
                    exact = Fraction(mq["total"], mq["D"] * UNIT) if mq["D"] else None
                    agree = exact is not None and abs(Fraction(q["total"]) - exact) < Fraction(1, 10 ** 9)
                    mfr = [as_fraction(Fraction(f, p)) if p else None for f, p in mq["stages"]]
                    ifr = [None if v is None else as_fraction(v) for v in q["p"]]
                    for k in range(start):
                        mfr[k] = ifr[k] = "earlier-run"
                    m_out.append({"stage_progress": mfr, "total_agrees": True})
                    i_out.append({"stage_progress": ifr, "total_agrees": True if agree else
                                  {"impl_total": q["total"], "model_total": float(exact) if exact is not None else None}})
                ctx.compare("Controller.get_stage_status == Weights.queryStage (finished/current population) and "
                            "CheckStatus total == Weights.totalOfStages, at every query of the history", case, m_out, i_out)
    finally:
        shutil.rmtree(tmp, ignore_errors=True)


# a DoWhile stage that is asked for its progress before and after each of two extra iterations
CTL_CORPUS = [
    {"kind": "ctl:corpus:dowhile-two-extra-iterations", "start": 0,
     "spec": [{"u": 250000000}, {"u": 750000000}],
     "stages": [{"static": 1, "loop": 0}, {"static": 0, "loop": 1}],
     "ops": [["q"], ["done", "stage0.s0"], ["fc", "stage0.s0", None], ["q"], ["next"], ["q"],
             ["done", "stage1.0#l0"], ["q"], ["fc", "stage1.0#l0", "True"], ["q"],
             ["done", "stage1.1#l0"], ["fc", "stage1.1#l0", "True"], ["q"],
             ["done", "stage1.2#l0"], ["fc", "stage1.2#l0", "False"], ["q"]]},
    {"kind": "ctl:corpus:restart-at-loop-stage", "start": 1,
     "spec": [{"u": 100000000}, {"u": 600000000}, {"u": 300000000}],
     "stages": [{"static": 2, "loop": 0}, {"static": 1, "loop": 2}, {"static": 1, "loop": 0}],
     "ops": [["q"], ["done", "stage1.0#l0"], ["fc", "stage1.0#l0", "True"], ["q"], ["adv", 1], ["q"],
             ["done", "stage2.s0"], ["q"], ["done", "stage1.s0"], ["done", "stage1.0#l1"], ["q"]]},
]


CTL_CORPUS += [
    # stage 0 completes with one FINISHED and one SHUTDOWN component; the experiment goes on and completes
    {"kind": "ctl:corpus:stage-completes-with-a-stopped-component", "start": 0,
     "spec": [{"u": 200000000}, {"u": 300000000}, {"u": 500000000}],
     "stages": [{"static": 2, "loop": 0}, {"static": 1, "loop": 0}, {"static": 1, "loop": 0}],
     "ops": [["q"], ["done", "stage0.s0"], ["fc", "stage0.s0", None], ["term", "stage0.s1", "shutdown"], ["q"],
             ["fc", "stage0.s1", None], ["q"], ["next"], ["q"], ["done", "stage1.s0"], ["fc", "stage1.s0", None],
             ["next"], ["q"], ["done", "stage2.s0"], ["q"], ["fc", "stage2.s0", None], ["q"]]},
    # continue-on-error: a component of stage 0 fails, the controller stops its stage mates; stage 1 is stopped by
    # the completion hook after its DoWhile ran one extra iteration; the last stage ends with success
    {"kind": "ctl:corpus:failure-and-completion-hook", "start": 0,
     "spec": [{"u": 100000000}, {"u": 600000000}, {"u": 300000000}],
     "stages": [{"static": 3, "loop": 0}, {"static": 1, "loop": 1}, {"static": 2, "loop": 0}],
     "ops": [["done", "stage0.s0"], ["term", "stage0.s1", "failed"], ["q"], ["fc", "stage0.s1", None], ["q"],
             ["fc", "stage0.s0", None], ["q"], ["next"], ["q"], ["done", "stage1.0#l0"], ["fc", "stage1.0#l0", "True"],
             ["q"], ["done", "stage2.s0"], ["stop", 1], ["q"], ["next"], ["q"], ["fc", "stage2.s0", None],
             ["done", "stage2.s1"], ["fc", "stage2.s1", None], ["q"]]},
    # restart at stage 1; the current stage ends FAILED + SHUTDOWN, the last stage with success
    {"kind": "ctl:corpus:restart-then-failure", "start": 1,
     "spec": [{"u": 250000000}, {"u": 250000000}, {"u": 500000000}],
     "stages": [{"static": 2, "loop": 0}, {"static": 2, "loop": 0}, {"static": 1, "loop": 0}],
     "ops": [["q"], ["term", "stage1.s0", "failed"], ["fc", "stage1.s0", None], ["q"], ["next"], ["q"],
             ["done", "stage2.s0"], ["fc", "stage2.s0", None], ["q"]]},
]


_REPORTED = {}


def report(ctx, what, case, detail=None):
    """ctx.fail, at most 12 times per slug (the list of failures kept by the framework is bounded: a defect that breaks
    hundreds of loader cases must not crowd out a different failure of the monitor / controller part)"""
    _REPORTED[what] = _REPORTED.get(what, 0) + 1
    if _REPORTED[what] <= 12:
        ctx.fail(what, case, detail)
    else:
        ctx.tag("further-failures-not-listed:" + what)


def missing_tags(spec):
    us = units_of(spec)
    tags = []
    miss = [e for e in spec if e.get("missing")]
    if miss and len(miss) < len(spec) and us is not None and all(u >= 0 for u in us) and sum(us) == UNIT:
        tags.append("given-weights-sum-to-one-with-missing-stages")
        for e in miss:
            tags.append("missing-stage:" + (("entry-with-" + e["entry"]) if e.get("entry") else "no-entry"))
    return tags


def check_loader_cases(ctx, cases):
    reqs = []
    for kind, spec in cases:
        gs = given_of(spec)
        if gs is None:
            reqs.append({"op": "fallback", "n": len(spec)})
        else:
            reqs.append({"op": "load", "gs": gs})
    mouts = ctx.model(reqs)
    for idx, (kind, spec) in enumerate(cases):
        out = impl_loader(spec)
        us = units_of(spec)
        nontrivial = len(spec) >= 2 and (us is None or any(u != 0 for u in us))
        ctx.case({"kind": kind, "spec": spec}, nontrivial=nontrivial,
                 tags=["kind:" + kind, "n>1000" if len(spec) > 1000 else "n<=1000",
                       "impl:" + ("error:" + out["error"] if "error" in out else "ok")] + missing_tags(spec))
        why = oracle_weights(spec, out)
        if why:
            report(ctx, why, {"kind": kind, "spec": spec}, out)
        if mouts is not None:
            m = mouts[idx]
            ctx.tag("model:kept" if m.get("kept") else "model:fallback")
            ctx.compare("loader weights == Weights.normalize", {"kind": kind, "spec": spec},
                        {"weights": m["weights"]},
                        {"weights": out["weights"]} if "weights" in out else
                        {k: v for k, v in out.items() if k in ("error", "no_weight_for_stages")})


def check_monitor_cases(ctx, cases):
    tmp = tempfile.mkdtemp(prefix="c20-")
    cwd = os.getcwd()
    try:
        for kind, spec, scenarios in cases:
            out = impl_monitor(spec, scenarios, tmp)
            case = {"kind": kind, "spec": spec, "scenarios": scenarios}
            ctx.case(case, nontrivial=len(spec) >= 2, tags=["monitor:" + kind] + ["monitor:" + t for t in missing_tags(spec)])
            if out.get("error") == "ExperimentInvalidConfigurationError":
                ctx.tag("monitor:package-rejected-as-invalid")  # proper rejection at load, nothing to report on
                continue
            if "error" in out:
                report(ctx, "monitor-raises-" + out["error"], case, out)
                continue
            lo_ = impl_loader(spec)
            slim = {"stageWeights": out["stageWeights"], "floats": out["floats"]}
            why = oracle_weights(spec, {"floats": out["floats"], "weights": out["stageWeights"]})
            if why:
                report(ctx, "monitor:" + why, dict(case, scenarios=[]), slim)
            if "weights" in lo_ and lo_["weights"] != out["stageWeights"]:
                # position by position: stageWeights[i] must be the loaded weight of stage i
                bad = [i for i, (a, b) in enumerate(zip(lo_["weights"], out["stageWeights"])) if a != b]
                report(ctx, "monitor-weights-differ-from-loaded-weights", dict(case, scenarios=[]),
                         {"positions": bad[:20], "loader": lo_["weights"], "monitor": out["stageWeights"]})
            for sc, total, rn in zip(scenarios, out["totals"], out["runs"]):
                case1 = dict(case, scenarios=[sc])   # every check is independent of the earlier ones
                if "error" in rn:
                    report(ctx, "status-check-raises-" + rn["error"].split(":")[0], case1, {"scenario": sc, "error": rn["error"]})
                    continue
                for f in set(rn["fired"]):
                    ctx.tag("controller-change:" + f)
                ctx.tag("controller-changes-during-check:%d" % min(len(rn["fired"]), 3))
                if not (-1e-12 <= total <= 1.0 + 1e-6 + 1e-9):
                    report(ctx, "total-progress-outside-unit-interval", case1, {"scenario": sc, "total": total})
                snaps = snapshot_totals(rn, out["floats"], sc["scale"])
                lo, hi = min(snaps), max(snaps)
                eps = Fraction(1, 10 ** 9)
                if not (lo - eps <= Fraction(total) <= hi + eps):
                    # the total is a weighted sum of per-stage progress values that the stages never had together:
                    # below / above the weighted progress of every state the controller went through
                    report(ctx, "total-progress-matches-no-controller-state", case1,
                             {"scenario": sc, "total": total, "lowest_state_total": float(lo),
                              "highest_state_total": float(hi), "reads": rn["reads"]})
                complete = all(p == sc["scale"] for p in rn["snapshots"][0])
                if complete:
                    ctx.tag("scenario:complete")
                    if abs(total - 1.0) > 1e-6 + 1e-9:
                        report(ctx, "total-progress-not-one-when-complete", case1, {"scenario": sc, "total": total})
            if ctx.driver is not None and "weights" in lo_:
                gs = given_of(spec)
                if gs is not None:
                    # the loader's report (default weights stored) as StatusMonitor reads it
                    mw = ctx.model([{"op": "load", "gs": gs}])[0]
                    mm = {"kept": mw["monitor"] is not None, "weights": mw["monitor"] or []}
                else:
                    mw = ctx.model([{"op": "fallback", "n": len(spec)}])[0]
                    mm = ctx.model([{"op": "monitor", "ws": mw["weights"]}])[0]
                ctx.compare("StatusMonitor.stageWeights == Weights.monitorFromReport(loadReport) (position by position)", case,
                            {"kept": True, "weights": mm["weights"]},
                            {"kept": mm["kept"], "weights": out["stageWeights"]})
                pairs = []
                for sc, total, rn in zip(scenarios, out["totals"], out["runs"]):
                    if "error" in rn:
                        continue
                    rd = rn["reads"]
                    if not (len(rd["cur"]) >= 1 and len(rd["transit"]) == 1 and len(rd["finished"]) == 1):
                        ctx.tag("check-read-the-lists-not-exactly-once")
                        continue
                    pairs.append((sc, total, rn, model_check_request(sc, rn, mw["weights"])))
                mouts = ctx.model([p[3] for p in pairs]) if pairs else []
                for (sc, total, rn, rq), mo in zip(pairs, mouts):
                    ctx.tag("reads:partition" if mo["partition"] else "reads:not-a-partition")
                    exact = Fraction(mo["total"], sc["scale"] * UNIT)
                    ok = abs(Fraction(total) - exact) < Fraction(1, 10 ** 9)
                    ctx.compare("total progress == Weights.checkTotal(what the check read)/(scale*one) within 1e-9", case,
                                {"agree": True}, {"agree": ok, "impl_total": total, "model_total": float(exact),
                                                  "scenario": sc, "reads": rd} if not ok else {"agree": True})
    finally:
        os.chdir(cwd)
        shutil.rmtree(tmp, ignore_errors=True)


CORPUS = [
    ("corpus:0.5004x2", [{"u": 500400000}, {"u": 500400000}]),
    ("corpus:neg", [{"u": -500000000}, {"u": 1500000000}]),
    ("corpus:4dec", [{"u": 333300000}, {"u": 333300000}, {"u": 333400000}]),
    ("corpus:nan", [{"raw": "nan"}, {"u": 1000000000}]),
    ("corpus:single", [{"u": 1000000000}]),
    ("corpus:single-missing", [{"missing": True}]),
    ("corpus:thirds", [{"u": 333000000}, {"u": 333000000}, {"u": 334000000}]),
]


def _last_heavy(n):
    """n stages, 0.01 each, the last one carries the rest"""
    return [{"u": 10 * 10 ** 6}] * (n - 1) + [{"u": UNIT - (n - 1) * 10 * 10 ** 6}]


MONITOR_CORPUS = [
    ("corpus:12-stages-last-heavy", _last_heavy(12)),
    ("corpus:11-stages-increasing", [{"u": (k + 1) * 10 * 10 ** 6} for k in range(10)] + [{"u": 450 * 10 ** 6}]),
]

# (kind, spec, scenarios): interleavings kept as regression inputs
MONITOR_SCENARIO_CORPUS = [
    # a non-current stage completes between the reads of the check (at every call point in turn)
    ("corpus:stage-completes-during-check", [{"u": 100000000}, {"u": 800000000}, {"u": 100000000}],
     [{"scale": 1000, "current": 0, "transit": [0, 1], "finished": [], "progress": {"0": 1000, "1": 1000},
       "events": [{"at": at, "n": 0, "do": [["finish", 1]]}]} for at in CALL_POINTS]),
    # the current stage completes and the controller advances while the check runs
    ("corpus:current-stage-advances-during-check", [{"u": 300000000}, {"u": 300000000}, {"u": 400000000}],
     [{"scale": 1000, "current": 0, "transit": [0, 1], "finished": [], "progress": {"0": 900, "1": 500},
       "events": [{"at": at, "n": 0, "do": [["prog", 0, 1000], ["finish", 0], ["advance"], ["start", 2]]}]}
      for at in CALL_POINTS]),
    # the current stage is already in the finished list
    ("corpus:current-stage-finished", [{"u": 500000000}, {"u": 500000000}],
     [{"scale": 1000, "current": 0, "transit": [1], "finished": [0], "progress": {"1": 250}, "events": []},
      {"scale": 1000, "current": 1, "transit": [], "finished": [0, 1], "progress": {}, "events": []}]),
]


def run(ctx):
    ctx.rule = ("cases = stage-weight lists (1..64 stages quick, up to 1200 thorough) drawn from 13 classes "
                "(proper at 1-9 decimals, near the tolerance inside/outside, negative with sum one, truncated "
                "thousandths summing to 1000, >1, zeros, missing, malformed/non-finite, strings); non-trivial = "
                ">= 2 stages and not all zero; distinct by canonical JSON of the case. Monitor cases additionally "
                "build a real Experiment+StatusMonitor (1..13 stages of every class, and proper non-uniform weights "
                "for 10, 11, 12, 13, 21, 101 stages quick / 7..23, 99..102, 111, 201, 1001 thorough; stageWeights compared "
                "position by position with the loaded weights) and run the real CheckStatus closure against a scripted "
                "controller: random unknown/in-transit/finished labelling of all stages (current stage included) and "
                "0-4 state changes (a stage completes, a stage starts, progress grows, the current stage advances) "
                "fired at chosen call points of the check (stage, stageState, comp_lock acquire/release, the two list "
                "reads, the n-th get_stage_status); changes that fall due while comp_lock is held happen at its release. "
                "Missing stages: every assignment given / no entry / entry with other keys only to 2-4 stages (5 thorough) "
                "and every given/missing assignment to 5-8 stages where the GIVEN weights sum to one (loader), the same for "
                "2-4 stages plus random 5-13 stage ones with a real StatusMonitor. Controller histories: generated packages "
                "of 1-4 stages (0-3 ordinary components and an optional DoWhile document of 1-3 components per stage, "
                "given/missing/improper stage weights, optionally restarted at a later stage) loaded into a real "
                "Experiment + real Controller (harness/detsim.py: fake engines, no threads) + real StatusMonitor, driven by "
                "4-40 operations: a task exits and its component reaches FINISHED; the real finishedCheck is delivered "
                "(the DoWhile condition file says True/False: the real _handle_condition_component_finished / "
                "_instantiate_next_dowhile_iteration add the next iteration to the stage); the next iteration is "
                "instantiated directly; the stage loop moves on (Controller.initialise); query = the real "
                "Controller.get_stage_status of every stage + one real CheckStatus (real get_stages_in_transit / "
                "get_stages_finished) -> total progress; queries before and after every growth of a stage; "
                "non-trivial = (the population of a stage grows at least once or a component ends SHUTDOWN/FAILED) and "
                "there are >= 2 queries. Final states: in the 'finals' histories (2-5 stages, with and without DoWhile) "
                "components end FINISHED / SHUTDOWN (ComponentState.finish, what _stopComponents does) / FAILED (task exits "
                "with KnownIssue) in five mixes; the real finishedCheck is delivered for them in any order (a delivered "
                "FAILED component of the current or an earlier stage makes the real controller fake-finish and stop its "
                "stage mates: continue-on-error style continuation), the body of the IsStageComplete closure of "
                "_observe_completionCheck (real _fake_finish_with_state + _stopComponents) stops the running stage, "
                "the stage loop moves on, queries after every stop / stage step; oracle: a stage all of whose components "
                "terminated and were observed, other than the current one, contributes its weight exactly once "
                "(total == sum of weight x progress over the other stages + those weights), total in [0,1+1e-6], total == 1 "
                "once every stage completed (non-current stages in any final states, current stage with success only). "
                "12 (60 thorough) histories are run again at the end in another order and must give identical answers.")
    ctx.assumptions = ["CPython float addition error on the generated sums (< 1e-12) is below one model unit (1e-9); "
                       "generated sums are kept >= 2 units away from the 1e-6 tolerance boundary",
                       "scripted-controller part: a scripted controller supplies stage progress values; Controller-history "
                       "part: the real Controller computes them, component tasks are fake engines (harness/detsim.py) whose "
                       "exits the harness decides, one thread; _getProgress (external status script) not run in either part",
                       "controller states obey the invariants of control.Controller: a stage is in at most one of the "
                       "in-transit/finished lists, an unknown stage has no progress, a finished stage has progress 1, "
                       "progress never decreases; comp_lock excludes state changes while held"]
    ctx.trusted.append("C20: weights abstracted to integer units of 1e-9; float rounding trusted as stated in assumptions")
    _REPORTED.clear()
    from harness import detsim
    detsim.install()          # before experiment.runtime is imported: fake engines, no threads (real Controller part)
    rng = ctx.rng
    quick = ctx.tier == "quick"
    cases = list(CORPUS)
    # every given/missing assignment (missing = no entry | entry with other keys only) where the given weights sum to one
    flav = ["", "empty", "args", "refs"]
    for n in ((2, 3, 4) if quick else (2, 3, 4, 5)):
        cases += missing_combinations(rng, n, flav if n <= 4 else ["", "args+refs"])
    for n in ((5, 6, 7, 8) if quick else (6, 7, 8, 9, 10)):
        cases += [c for c in missing_combinations(rng, n, [""])][:: (1 if n <= 6 else 5)]
    ns = list(range(1, 65)) if quick else list(range(1, 130)) + [250, 333, 500, 999, 1000, 1001, 1199, 1200]
    reps = 12 if quick else 40
    for n in ns:
        for _ in range(reps if n <= 64 else 4):
            cases.append(gen_spec(rng, n))
    if quick:
        for n in (999, 1000, 1001, 1200):
            cases.append(gen_spec(rng, n))
    check_loader_cases(ctx, cases)
    mcases = []
    # stage counts on both sides of 10 and 100 (and 1000 thorough): an order by stage NAME differs from the order by
    # stage index from 11 stages on; weights proper and non-uniform so that a misplaced weight shows
    wide = [10, 11, 12, 13, 21, 101] if quick else list(range(7, 24)) + [99, 100, 101, 102, 111, 201, 1001]
    mspecs = list(MONITOR_CORPUS) + CORPUS[:3]
    mspecs += [gen_spec(rng, rng.randint(1, 13)) for _ in range(25 if quick else 150)]
    mspecs += [gen_spec(rng, n, kinds=["proper6", "proper3"] if n <= 1000 else ["proper6"]) for n in wide]
    for kind, spec in mspecs:
        n = len(spec)
        mcases.append((kind, spec, [gen_scenario(rng, n) for _ in range(4 if n <= 100 else 2)]))
    # given weights sum to one, other stages give none: every assignment up to 3 stages (each flavour of "missing"),
    # every given/missing assignment for 4 (and 5 thorough) stages, random ones beyond
    mmiss = []
    for n in (2, 3):
        mmiss += missing_combinations(rng, n, ["", "empty", "args"] if quick else flav)
    for n in ((4,) if quick else (4, 5)):
        mmiss += missing_combinations(rng, n, [rng.choice(flav)])
    mmiss += [gen_spec(rng, rng.randint(5, 13), kinds=["proper_missing"]) for _ in range(6 if quick else 40)]
    for kind, spec in mmiss:
        mcases.append((kind, spec, [gen_scenario(rng, len(spec)) for _ in range(2)]))
    mcases += MONITOR_SCENARIO_CORPUS
    check_monitor_cases(ctx, mcases)
    ccases = list(CTL_CORPUS) + [gen_ctl_case(rng, "success") for _ in range(40 if quick else 300)]
    ccases += [gen_ctl_case(rng, "finals") for _ in range(60 if quick else 500)]
    outs = []
    check_ctl_cases(ctx, ccases, outs)
    # the same histories again, later in this process, in another order, after unrelated ones (same component names in
    # other roles): the controller's answers must not depend on what ran before
    again = [i for i in range(len(ccases)) if len(outs) == len(ccases)]
    rng.shuffle(again)
    tmp = tempfile.mkdtemp(prefix="c20again-")
    try:
        for i in again[: (12 if quick else 60)]:
            second = impl_ctl(ccases[i], tmp)
            ctx.tag("ctl:history-run-again-later")
            if second.get("queries") != outs[i].get("queries") or second.get("error") != outs[i].get("error"):
                report(ctx, "result-depends-on-earlier-cases", ccases[i],
                       {"first": outs[i].get("queries"), "again": second.get("queries"),
                        "errors": [outs[i].get("error"), second.get("error")]})
    finally:
        shutil.rmtree(tmp, ignore_errors=True)


def replay(ctx, doc):
    from harness import detsim
    detsim.install()
    case = doc.get("input") or doc["no_longer_checks"][-1]["input"]
    if "ops" in case and "stages" in case:
        check_ctl_cases(ctx, [case])
    elif "scenarios" in case:
        check_monitor_cases(ctx, [(case["kind"], case["spec"], case["scenarios"])])
    else:
        check_loader_cases(ctx, [(case["kind"], case["spec"])])
