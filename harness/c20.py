"""C20 — Reported progress is a proper weighted fraction.

Implementation under test (real code, in-process):
  A. FlowIRConcrete(doc, 'default', {}).get_status()            -> loaded stage weights
  B. StatusMonitor(experiment).stageWeights + the real CheckStatus closure of StatusMonitor.run
     driven once with a fake controller                         -> weights used for reporting, total progress
Model: lean/St4sd/Model/Weights.lean via drv-c20.  Theorems: lean/St4sd/Props/C20.lean.
"""
from __future__ import annotations

import math
import os
import shutil
import tempfile
import threading
from fractions import Fraction

UNIT = 10 ** 9
TOL = 1000


def _imports():
    import experiment.model.frontends.flowir as F
    return F


def doc_for(ws):
    comps = [{'name': 'c%d' % i, 'stage': i, 'command': {'executable': 'ls'}} for i in range(len(ws))]
    st = {i: {'stage-weight': w} for i, w in enumerate(ws) if w is not None}
    return {'components': comps, 'status-report': st}


def to_py(spec):
    """spec: list of entries {"u": int} (weight = u/1e9), {"raw": "abc"|"nan"|"inf"}, {"missing": true}"""
    out = []
    for e in spec:
        if "u" in e:
            u = e["u"]
            s = "%s%d.%09d" % ("-" if u < 0 else "", abs(u) // UNIT, abs(u) % UNIT)
            v = float(s)
            out.append(s if e.get("as_str") else v)
        elif "raw" in e:
            out.append(e["raw"])
        else:
            out.append(None)
    return out


def units_of(spec):
    """exact units as the loader's float() sees them; None when some entry is not finite"""
    us = []
    for e in spec:
        if "u" in e:
            us.append(e["u"])
        elif "raw" in e:
            try:
                v = float(e["raw"])
            except ValueError:
                us.append(0)
                continue
            if math.isnan(v) or math.isinf(v):
                return None
            us.append(int(round(v * UNIT)))
        else:
            us.append(0)
    return us


def impl_loader(spec):
    F = _imports()
    try:
        c = F.FlowIRConcrete(doc_for(to_py(spec)), 'default', {})
        st = c.get_status()
        ws = [float(st[i]['stage-weight']) for i in range(len(spec))]
        return {"weights": [int(round(w * UNIT)) for w in ws], "floats": ws}
    except Exception as exc:  # noqa
        return {"error": type(exc).__name__}


# ----------------------------------------------------------------------------------------
# generators
# ----------------------------------------------------------------------------------------

def partition(rng, total, n):
    if n == 1:
        return [total]
    cuts = sorted(rng.randint(0, total) for _ in range(n - 1))
    parts = [b - a for a, b in zip([0] + cuts, cuts + [total])]
    return parts


def gen_spec(rng, n):
    kind = rng.choice(["proper", "proper", "proper3", "near_in", "near_out", "negative", "trunc1000", "random",
                       "missing", "malformed", "gt1", "zeros", "strings"])
    decimals = rng.choice([1, 2, 3, 4, 5, 6, 9])
    scale = 10 ** decimals
    step = UNIT // scale
    if kind == "proper3":
        decimals, scale, step = 3, 1000, UNIT // 1000
    if kind in ("proper", "proper3", "strings"):
        us = [p * step for p in partition(rng, scale, n)]
    elif kind == "near_in":
        us = [p * step for p in partition(rng, scale, n)]
        d = rng.choice([-1, 1]) * rng.randint(1, TOL - 2)
        i = rng.randrange(n)
        if us[i] + d >= 0:
            us[i] += d
    elif kind == "near_out":
        us = [p * step for p in partition(rng, scale, n)]
        d = rng.choice([-1, 1]) * rng.choice([TOL + 2, 2 * TOL, 10 ** 5, 4 * 10 ** 5, 8 * 10 ** 5, 10 ** 6, 10 ** 7])
        i = rng.randrange(n)
        us[i] += d
    elif kind == "negative":
        us = [p * step for p in partition(rng, scale, n)]
        if n >= 2:
            i, j = rng.sample(range(n), 2)
            d = us[i] + rng.randint(1, scale) * step
            us[i] -= d
            us[j] += d
        else:
            us[0] = -us[0]
    elif kind == "trunc1000":
        # truncated thousandths add up to 1000 but the real sum exceeds one (0.5004, 0.5004 family)
        ms = partition(rng, 1000, n)
        us = [m * (UNIT // 1000) + rng.randint(0, 999) * 1000 for m in ms]
    elif kind == "gt1":
        us = [rng.randint(0, 3 * scale) * step for _ in range(n)]
    elif kind == "zeros":
        us = [0] * n
    else:
        us = [rng.randint(-scale // 4, scale) * step for _ in range(n)]
    spec = [{"u": u} for u in us]
    if kind == "strings":
        for e in spec:
            if rng.random() < 0.5:
                e["as_str"] = True
    if kind == "missing":
        for e in rng.sample(spec, rng.randint(1, n)):
            e.clear()
            e["missing"] = True
    if kind == "malformed":
        for e in rng.sample(spec, rng.randint(1, n)):
            e.clear()
            e["raw"] = rng.choice(["abc", "", "nan", "inf", "-inf", "1e-3", "0x10"])
    # keep away from the tolerance boundary (float rounding decides there)
    tot = sum(e.get("u", 0) for e in spec)
    if abs(abs(tot - UNIT) - TOL) <= 1:
        spec[0] = {"u": spec[0].get("u", 0) + 7}
    return kind, spec


# ----------------------------------------------------------------------------------------
# oracle (model independent restatement of the property)
# ----------------------------------------------------------------------------------------

def oracle_weights(spec, out):
    """returns None or a description of the failure"""
    if "error" in out:
        return "loader-raises-" + out["error"]
    ws = out["floats"]
    if any(not (w >= 0.0) for w in ws):
        return "negative-weight-loaded"
    if not abs(math.fsum(ws) - 1.0) < 1e-6 + 1e-12:
        return "loaded-weights-do-not-sum-to-one"
    us = units_of(spec)
    if us is not None and all(u >= 0 for u in us) and sum(us) == UNIT:
        if out["weights"] != us:
            return "proper-weights-not-kept"
    return None


def classify_old_algorithm(what, case, detail):
    return False


CLASSIFIERS = {}


# ----------------------------------------------------------------------------------------
# StatusMonitor part
# ----------------------------------------------------------------------------------------

class _FakeStage:
    def __init__(self, stage):
        self._s = stage

    def __getattr__(self, k):
        return getattr(self._s, k)


class FakeController:
    def __init__(self, exp, current, transit, finished, progress):
        self.exp = exp
        self.current = current
        self.transit = transit
        self.finished = finished
        self.progress = progress
        self.comp_lock = threading.RLock()

    def stage(self):
        return self.exp._stages[self.current]

    def stageState(self, stage):
        return "running"

    def get_stages_in_transit(self):
        return list(self.transit)

    def get_stages_finished(self):
        return list(self.finished)

    def get_stage_status(self, idx):
        return self.progress[idx]

    def generate_status_report_for_nodes(self, *a, **k):
        return ""


def flowir_yaml(spec):
    import yaml
    d = doc_for(to_py(spec))
    return yaml.safe_dump(d)


def impl_monitor(spec, scenarios, workdir):
    """Builds a real Experiment + StatusMonitor; runs the real CheckStatus closure for each scenario."""
    import tests.utils as TU
    import experiment.runtime.output as O
    import experiment.runtime.monitor as M
    try:
        exp = TU.experiment_from_flowir(flowir_yaml(spec), workdir, checkExecutables=False)
    except Exception as exc:
        return {"error": type(exc).__name__}
    mon = O.StatusMonitor(exp, report_components=False)
    res = {"stageWeights": [int(round(float(w) * UNIT)) for w in mon.stageWeights],
           "floats": [float(w) for w in mon.stageWeights], "totals": []}
    captured = {}

    def fake_create(interval, action, cancelEvent=None, name=None, **kw):
        captured["action"] = action
        return lambda: None
    orig = M.CreateMonitor
    M.CreateMonitor = fake_create
    try:
        for sc in scenarios:
            ctl = FakeController(exp, sc["current"], sc["transit"], sc["finished"],
                                 {int(k): v / sc["scale"] for k, v in sc["progress"].items()})
            mon.run(ctl)
            captured["action"](False)
            res["totals"].append(float(exp.statusFile.totalProgress()))
    finally:
        M.CreateMonitor = orig
    return res


def gen_scenario(rng, n):
    scale = 1000
    order = list(range(n))
    current = rng.randrange(n)
    others = [i for i in order if i != current]
    finished = [i for i in others if rng.random() < 0.5]
    rest = [i for i in others if i not in finished]
    transit = [i for i in rest if rng.random() < 0.5]
    progress = {}
    for i in [current] + transit:
        progress[str(i)] = rng.choice([0, scale, rng.randint(0, scale)])
    if rng.random() < 0.25:  # everything complete
        finished = others
        transit = []
        progress = {str(current): scale}
    return {"scale": scale, "current": current, "transit": transit, "finished": finished, "progress": progress}


def model_progress_request(sc, ws):
    ps = []
    wsel = []
    for i, w in enumerate(ws):
        if str(i) in sc["progress"]:
            ps.append(sc["progress"][str(i)])
            wsel.append(w)
        elif i in sc["finished"]:
            ps.append(sc["scale"])
            wsel.append(w)
    return {"op": "progress", "ps": ps, "ws": wsel}


# ----------------------------------------------------------------------------------------

def check_loader_cases(ctx, cases):
    reqs = []
    for kind, spec in cases:
        us = units_of(spec)
        if us is None:
            reqs.append({"op": "fallback", "n": len(spec)})
        else:
            reqs.append({"op": "normalize", "ws": us})
    mouts = ctx.model(reqs)
    for idx, (kind, spec) in enumerate(cases):
        out = impl_loader(spec)
        us = units_of(spec)
        nontrivial = len(spec) >= 2 and (us is None or any(u != 0 for u in us))
        ctx.case({"kind": kind, "spec": spec}, nontrivial=nontrivial,
                 tags=["kind:" + kind, "n>1000" if len(spec) > 1000 else "n<=1000",
                       "impl:" + ("error:" + out["error"] if "error" in out else "ok")])
        why = oracle_weights(spec, out)
        if why:
            ctx.fail(why, {"kind": kind, "spec": spec}, out)
        if mouts is not None:
            m = mouts[idx]
            ctx.tag("model:kept" if m.get("kept") else "model:fallback")
            ctx.compare("loader weights == Weights.normalize", {"kind": kind, "spec": spec},
                        {"weights": m["weights"]},
                        {"weights": out.get("weights")} if "error" not in out else {"error": out["error"]})


def check_monitor_cases(ctx, cases):
    tmp = tempfile.mkdtemp(prefix="c20-")
    cwd = os.getcwd()
    try:
        for kind, spec, scenarios in cases:
            out = impl_monitor(spec, scenarios, tmp)
            case = {"kind": kind, "spec": spec, "scenarios": scenarios}
            ctx.case(case, nontrivial=len(spec) >= 2, tags=["monitor:" + kind])
            if out.get("error") == "ExperimentInvalidConfigurationError":
                ctx.tag("monitor:package-rejected-as-invalid")  # proper rejection at load, nothing to report on
                continue
            if "error" in out:
                ctx.fail("monitor-raises-" + out["error"], case, out)
                continue
            lo = impl_loader(spec)
            why = oracle_weights(spec, {"floats": out["floats"], "weights": out["stageWeights"]})
            if why:
                ctx.fail("monitor:" + why, case, out)
            if "error" not in lo and lo["weights"] != out["stageWeights"]:
                ctx.fail("monitor-weights-differ-from-loaded-weights", case, {"loader": lo, "monitor": out})
            for sc, total in zip(scenarios, out["totals"]):
                if not (-1e-12 <= total <= 1.0 + 1e-6 + 1e-9):
                    ctx.fail("total-progress-outside-unit-interval", case, {"scenario": sc, "total": total})
                complete = (len(sc["finished"]) + len(sc["progress"]) == len(spec)
                            and all(v == sc["scale"] for v in sc["progress"].values()))
                if complete:
                    ctx.tag("scenario:complete")
                    if abs(total - 1.0) > 1e-6 + 1e-9:
                        ctx.fail("total-progress-not-one-when-complete", case, {"scenario": sc, "total": total})
            if ctx.driver is not None and "error" not in lo:
                us = units_of(spec)
                mw = ctx.model([{"op": "normalize", "ws": us}] if us is not None else [{"op": "fallback", "n": len(spec)}])[0]
                ctx.compare("StatusMonitor.stageWeights == Weights.normalize", case,
                            {"weights": mw["weights"], "monitor_keeps": mw.get("monitor_keeps", True)},
                            {"weights": out["stageWeights"], "monitor_keeps": True})
                reqs = [model_progress_request(sc, mw["weights"]) for sc in scenarios]
                for sc, total, mo in zip(scenarios, out["totals"], ctx.model(reqs)):
                    exact = Fraction(mo["total"], sc["scale"] * UNIT)
                    ok = abs(Fraction(total) - exact) < Fraction(1, 10 ** 9)
                    ctx.compare("total progress == Weights.progress/(scale*one) within 1e-9", case,
                                {"agree": True}, {"agree": ok, "impl_total": total, "model_total": float(exact),
                                                  "scenario": sc} if not ok else {"agree": True})
    finally:
        os.chdir(cwd)
        shutil.rmtree(tmp, ignore_errors=True)


CORPUS = [
    ("corpus:0.5004x2", [{"u": 500400000}, {"u": 500400000}]),
    ("corpus:neg", [{"u": -500000000}, {"u": 1500000000}]),
    ("corpus:4dec", [{"u": 333300000}, {"u": 333300000}, {"u": 333400000}]),
    ("corpus:nan", [{"raw": "nan"}, {"u": 1000000000}]),
    ("corpus:single", [{"u": 1000000000}]),
    ("corpus:single-missing", [{"missing": True}]),
    ("corpus:thirds", [{"u": 333000000}, {"u": 333000000}, {"u": 334000000}]),
]


def run(ctx):
    ctx.rule = ("cases = stage-weight lists (1..64 stages quick, up to 1200 thorough) drawn from 13 classes "
                "(proper at 1-9 decimals, near the tolerance inside/outside, negative with sum one, truncated "
                "thousandths summing to 1000, >1, zeros, missing, malformed/non-finite, strings); non-trivial = "
                ">= 2 stages and not all zero; distinct by canonical JSON of the case. Monitor cases additionally "
                "build a real Experiment+StatusMonitor and run the real CheckStatus closure on random "
                "finished/in-transit/in-progress masks.")
    ctx.assumptions = ["CPython float addition error on the generated sums (< 1e-12) is below one model unit (1e-9); "
                       "generated sums are kept >= 2 units away from the 1e-6 tolerance boundary",
                       "fake controller supplies stage progress values; _getProgress (external status script) not run"]
    ctx.trusted.append("C20: weights abstracted to integer units of 1e-9; float rounding trusted as stated in assumptions")
    rng = ctx.rng
    quick = ctx.tier == "quick"
    cases = list(CORPUS)
    ns = list(range(1, 65)) if quick else list(range(1, 130)) + [250, 333, 500, 999, 1000, 1001, 1199, 1200]
    reps = 12 if quick else 40
    for n in ns:
        for _ in range(reps if n <= 64 else 4):
            cases.append(gen_spec(rng, n))
    if quick:
        for n in (999, 1000, 1001, 1200):
            cases.append(gen_spec(rng, n))
    check_loader_cases(ctx, cases)
    mcases = []
    for kind, spec in CORPUS[:3] + [gen_spec(rng, rng.randint(1, 6)) for _ in range(25 if quick else 150)]:
        n = len(spec)
        mcases.append((kind, spec, [gen_scenario(rng, n) for _ in range(4)]))
    check_monitor_cases(ctx, mcases)


def replay(ctx, doc):
    case = doc.get("input") or doc["no_longer_checks"][-1]["input"]
    if "scenarios" in case:
        check_monitor_cases(ctx, [(case["kind"], case["spec"], case["scenarios"])])
    else:
        check_loader_cases(ctx, [(case["kind"], case["spec"])])
