"""C07 — An instance reloaded from its own files is the same experiment.

Implementation under test (real code, in-process): a generated package (platforms, variable layers, blueprints,
component overrides, user variable files, replication/aggregation, optionally a DoWhile document) is turned into a
real `Experiment` (ExperimentPackage.packageFromLocation + Experiment.experimentFromPackage); the loop is advanced
0-3 iterations through the real `WorkflowGraph.instantiate_dowhile_next_iteration`; optionally options are patched
through `WorkflowGraph.setOptionForNode`; `store_unreplicated_flowir_to_disk`; then
`Experiment.experimentFromInstance(instance_dir, platform)` one or more times.

Oracle (model independent): same nodes, same `configurationForNode` of every node, same data references, same
edges before and after the reload; the parsed content of conf/flowir_instance.yaml does not change by load+store.
Model: lean/St4sd/Model/Instance.lean through drv-c07 (`flatten` = FlowIRConcrete.instance(fill_in_all=False,
is_primitive=True)); compared with the parsed stored file for the in-memory `_unreplicated.raw()` of the real
experiment, and with `configurationForNode` of the non-replicated nodes.
"""
from __future__ import annotations

import json
import os
import re
import shutil
import tempfile

VARPAT = re.compile(r"%\(([^()%]+)\)s")
FUEL = 40


# ----------------------------------------------------------------------------------------
# generator
# ----------------------------------------------------------------------------------------

VNAMES = ["v0", "v1", "v2", "v3", "v4", "v5", "v6", "v7"]


def _value(rng, idx, visible, allow_int=True):
    """a variable value for the name VNAMES[idx]: only references names of higher index (acyclic by construction)"""
    cands = [n for n in visible if VNAMES.index(n) > idx]
    kind = rng.random()
    if allow_int and kind < 0.2:
        return rng.randint(0, 99)
    parts = [rng.choice(["a", "b", "x-", "q_", "7"])]
    for _ in range(rng.choice([0, 0, 1, 1, 2])):
        if cands:
            parts.append("%%(%s)s" % rng.choice(cands))
            parts.append(rng.choice(["", "-", ".", "z"]))
    return "".join(parts)


def gen_case(rng, tier="quick"):
    extra = rng.sample(["hpc", "cloud"], rng.choice([0, 1, 1, 2]))
    plats = ["default"] + extra
    platform = rng.choice(plats + extra)  # bias towards a non-default platform
    nstages = rng.randint(1, 3)
    with_loop = rng.random() < 0.45
    if with_loop and nstages < 3:
        nstages = 3
    # names defined in the default global layer are visible everywhere
    gnames = sorted(rng.sample(VNAMES, rng.randint(2, 5)), key=VNAMES.index)
    variables = {}
    for p in plats:
        lay = {"global": {}, "stages": {}}
        names = gnames if p == "default" else rng.sample(gnames, rng.randint(0, len(gnames))) + \
            rng.sample([n for n in VNAMES if n not in gnames], rng.choice([0, 0, 1]))
        for n in names:
            lay["global"][n] = _value(rng, VNAMES.index(n), gnames)
        variables[p] = lay
    # stage scopes: default stage defines some names, platform stage layers re-define a subset
    for s in range(nstages):
        dnames = rng.sample(VNAMES, rng.randint(0, 3))
        vis = sorted(set(gnames) | set(dnames), key=VNAMES.index)
        if dnames:
            variables["default"]["stages"][s] = {n: _value(rng, VNAMES.index(n), vis) for n in dnames}
        for p in extra:
            pn = rng.sample(vis, rng.choice([0, 0, 1, 2]) if vis else 0)
            if pn:
                variables[p]["stages"][s] = {n: _value(rng, VNAMES.index(n), vis) for n in pn}
    blueprint = {}
    for p in plats:
        if rng.random() < 0.6:
            bp = {}
            if rng.random() < 0.7:
                g = {"command": {"environment": "none"}}
                if rng.random() < 0.4:
                    g["workflowAttributes"] = {"maxRestarts": rng.randint(0, 4)}
                if rng.random() < 0.3:
                    g["command"]["arguments"] = "bp-%s %%(%s)s" % (p, rng.choice(gnames))
                bp["global"] = g
            if rng.random() < 0.4:
                s = rng.randrange(nstages)
                bp["stages"] = {s: {"command": {"executable": rng.choice(["echo", "ls"])}}}
                if rng.random() < 0.5:
                    bp["stages"][s]["workflowAttributes"] = {"maxRestarts": rng.randint(0, 4)}
            if bp:
                blueprint[p] = bp
    comps = []

    def visible_for(stage):
        vis = set(gnames)
        vis |= set(variables["default"]["stages"].get(stage, {}))
        return sorted(vis, key=VNAMES.index)

    def mk(name, stage, refs=(), replicate=None, aggregate=False):
        vis = visible_for(stage)
        c = {"name": name, "stage": stage, "command": {"executable": "echo"}}
        own = rng.sample(VNAMES, rng.choice([0, 0, 1, 2]))
        if own:
            allvis = sorted(set(vis) | set(own), key=VNAMES.index)
            c["variables"] = {n: _value(rng, VNAMES.index(n), allvis) for n in own}
        else:
            allvis = vis
        args = [rng.choice(["-n", "run", "x"])]
        for _ in range(rng.choice([0, 1, 2])):
            if allvis:
                args.append("%%(%s)s" % rng.choice(allvis))
        if replicate:
            args.append("%(replica)s")
        for r in refs:
            args.append(r)
        c["command"]["arguments"] = " ".join(args)
        if refs:
            c["references"] = list(refs)
        wa = {}
        if replicate:
            wa["replicate"] = replicate
        if aggregate:
            wa["aggregate"] = True
        if rng.random() < 0.3:
            wa["maxRestarts"] = rng.randint(0, 5)
        if wa:
            c["workflowAttributes"] = wa
        if extra and rng.random() < 0.45:
            ov = {}
            for p in rng.sample(extra, rng.randint(1, len(extra))):
                o = {}
                if rng.random() < 0.6:
                    on = rng.sample(allvis + own, min(len(allvis + own), rng.choice([1, 1, 2]))) if (allvis or own) else []
                    if on:
                        o["variables"] = {n: _value(rng, VNAMES.index(n), allvis) for n in set(on)}
                if rng.random() < 0.5:
                    o["command"] = {"executable": rng.choice(["ls", "cat"])}
                if rng.random() < 0.3:
                    o["workflowAttributes"] = {"maxRestarts": rng.randint(6, 9)}
                if o:
                    ov[p] = o
            if ov:
                c["override"] = ov
        return c

    comps.append(mk("src", 0))
    rep = rng.choice([None, None, 2, 3])
    if rep:
        comps.append(mk("gen", 0, refs=["src:ref"], replicate=rep))
        if nstages > 1 and rng.random() < 0.7:
            comps.append(mk("agg", 1, refs=["stage0.gen:ref"], aggregate=True))
        elif rng.random() < 0.5:
            comps.append(mk("follow", 0, refs=["gen:ref"]))
    for i in range(rng.randint(0, 2)):
        st = rng.randrange(nstages)
        comps.append(mk("c%d" % i, st, refs=["stage0.src:output"] if rng.random() < 0.5 else ()))
    dowhile = None
    iterations = 0
    if with_loop:
        lrep = rng.choice([None, 2])
        dowhile = {
            "type": "DoWhile",
            "inputBindings": {"number": {"type": "output"}},
            "loopBindings": {"number": "stop:output"},
            "condition": "stop:output",
            "components": [
                {"name": "add", "command": {"executable": "echo",
                                            "arguments": "number:output %%(loopIteration)s %%(%s)s" % rng.choice(gnames)},
                 "references": ["number:output"]},
                {"name": "stop", "command": {"executable": "echo", "arguments": "add:output"},
                 "references": ["add:output"]},
            ],
        }
        if lrep:
            dowhile["components"][0]["workflowAttributes"] = {"replicate": lrep}
            dowhile["components"][1]["workflowAttributes"] = {"aggregate": True}
        if rng.random() < 0.5:
            dowhile["components"][0]["variables"] = {rng.choice(VNAMES): "loopvar"}
        comps.append({"name": "loop", "stage": 1, "$import": "dowhile.yaml",
                      "bindings": {"number": "stage0.src:output"}})
        comps.append({"name": "report", "stage": 2, "command": {"executable": "echo", "arguments": "stage1.add:output"},
                      "references": ["stage1.add:output"]})
        iterations = rng.choice([0, 1, 2, 3]) if tier == "quick" else rng.choice([0, 1, 2, 3, 3, 5])
    rng.shuffle(comps)
    uservars = []
    for _ in range(rng.choice([0, 0, 1, 1, 2])):
        uv = {}
        if rng.random() < 0.8:
            uv["global"] = {n: _value(rng, VNAMES.index(n), gnames) for n in rng.sample(VNAMES, rng.randint(1, 2))}
            if rng.random() < 0.5:
                uv["global"]["userOnly"] = rng.choice(["u1", 5, "u-%%(%s)s" % gnames[-1]])
        if rng.random() < 0.4:
            s = rng.randrange(nstages)
            uv["stages"] = {s: {n: _value(rng, VNAMES.index(n), gnames, allow_int=False)
                                for n in rng.sample(VNAMES, 1)}}
        if uv:
            uservars.append(uv)
    main = {"platforms": plats, "variables": variables, "components": comps}
    if blueprint:
        main["blueprint"] = blueprint
    patches = []
    if rng.random() < (0.15 if tier == "quick" else 0.04):
        plain = [c for c in comps if "$import" not in c and not c.get("workflowAttributes", {}).get("replicate")
                 and c["name"] not in ("follow", "report")]
        tgt = rng.choice(plain)
        node = "stage%d.%s" % (tgt["stage"], tgt["name"])
        if rng.random() < 0.5:
            patches.append({"node": node, "key": "#workflowAttributes.maxRestarts", "value": rng.randint(10, 20)})
        else:
            patches.append({"node": node, "key": rng.choice(["patched", "v0"]), "value": "pv%d" % rng.randint(0, 9)})
    return {"main": main, "dowhile": dowhile, "platform": platform, "uservars": uservars,
            "iterations": iterations, "patches": patches, "cycles": rng.choice([1, 1, 2, 3]),
            "reload_platform": "same" if platform == "default" or rng.random() < 0.8 else "same"}


# ----------------------------------------------------------------------------------------
# real code driver
# ----------------------------------------------------------------------------------------

def _quiet():
    import logging
    logging.disable(logging.CRITICAL)


def canon_conf(x, inst):
    if isinstance(x, dict):
        return {str(k): canon_conf(v, inst) for k, v in x.items()}
    if isinstance(x, (list, tuple)):
        return [canon_conf(v, inst) for v in x]
    if isinstance(x, str):
        return x.replace(inst, "$I")
    if isinstance(x, float):
        return "float:%r" % x
    return x


def snapshot(exp, inst, rebuilt_edges=False):
    g = exp.experimentGraph
    nodes = {}
    for n, d in g.graph.nodes(data=True):
        spec = d["componentSpecification"]
        try:
            conf = canon_conf(g.configurationForNode(n), inst)
            # the spelling of a reference (relative `src:ref` vs absolute `stage0.src:ref`) is not part of the
            # property: the running experiment loses the absolute spelling when an iteration re-replicates
            if isinstance(conf.get("references"), list):
                conf["references"] = sorted(r if re.match(r"stage\d+\.", r) else "stage%s.%s" % (conf.get("stage", 0), r)
                                            for r in conf["references"])
        except Exception as exc:  # noqa
            conf = {"error": type(exc).__name__}
        try:
            refs = sorted(str(r.stringRepresentation).replace(inst, "$I") for r in spec.dataReferences)
        except Exception as exc:  # noqa
            refs = ["error:" + type(exc).__name__]
        nodes[n] = {"conf": conf, "refs": refs}
    gr = g.graph
    live = sorted([a, b] for a, b in gr.edges())
    edges = live
    if rebuilt_edges:
        ng = g._createCompleteGraph(inherit_graph=g)
        edges = sorted([a, b] for a, b in ng.edges())
    return {"nodes": nodes, "edges": edges, "live_edges": live}


def canon_flowir(doc):
    """parsed flowir_instance.yaml with the (set-ordered) component list sorted"""
    d = json.loads(json.dumps(doc, sort_keys=True, default=str))
    comps = d.get("components") or []
    d["components"] = sorted(comps, key=lambda c: (c.get("stage", 0), c.get("name", "")))
    return d


def flat_paths(d, prefix=""):
    out = {}
    for k, v in d.items():
        p = prefix + str(k)
        if isinstance(v, dict):
            if v:
                out.update(flat_paths(v, p + "."))
        else:
            out[p] = v
    return out


def diff_paths(a, b):
    fa, fb = flat_paths(a), flat_paths(b)
    return sorted(k for k in set(fa) | set(fb) if json.dumps(fa.get(k, "<absent>"), sort_keys=True, default=str)
                  != json.dumps(fb.get(k, "<absent>"), sort_keys=True, default=str))


def run_impl(case, tmp):
    """returns dict(status, before, afters[], stored[], unrep_raw, error)"""
    _quiet()
    import yaml
    import experiment.model.data as D
    import experiment.model.storage as S
    out = {"status": "ok"}
    pkg = os.path.join(tmp, "p.package")
    os.makedirs(os.path.join(pkg, "conf"))
    with open(os.path.join(pkg, "conf", "flowir_package.yaml"), "w") as fh:
        yaml.safe_dump(case["main"], fh)
    if case["dowhile"]:
        with open(os.path.join(pkg, "conf", "dowhile.yaml"), "w") as fh:
            yaml.safe_dump(case["dowhile"], fh)
    vfiles = []
    for i, uv in enumerate(case["uservars"]):
        p = os.path.join(tmp, "uv%d.yaml" % i)
        with open(p, "w") as fh:
            yaml.safe_dump(uv, fh)
        vfiles.append(p)
    platform = case["platform"]
    cwd = os.getcwd()
    try:
        try:
            ep = S.ExperimentPackage.packageFromLocation(pkg, platform=platform)
            exp = D.Experiment.experimentFromPackage(ep, location=tmp, variable_files=vfiles or None, platform=platform)
            exp.validateExperiment(checkExecutables=False)
        except Exception as exc:  # noqa
            out["status"] = "package-rejected"
            out["error"] = "%s: %s" % (type(exc).__name__, str(exc)[:300])
            return out
        inst = exp.instanceDirectory.location
        g = exp.experimentGraph
        if case["iterations"]:
            FlowIR = __import__("experiment.model.frontends.flowir", fromlist=["FlowIR"]).FlowIR
            dw = list(g._documents[FlowIR.LabelDoWhile].values())[0]["document"]
            for i in range(1, case["iterations"] + 1):
                g.instantiate_dowhile_next_iteration(dw, i, True)
        for p in case["patches"]:
            g.setOptionForNode(p["node"], p["key"], p["value"])
        exp.configuration.store_unreplicated_flowir_to_disk()
        out["unrep_raw"] = exp.configuration._unreplicated.raw()
        out["before"] = snapshot(exp, inst, rebuilt_edges=case["iterations"] > 0)
        fpath = os.path.join(inst, "conf", "flowir_instance.yaml")
        out["stored"] = [open(fpath, "rb").read()]
        out["afters"] = []
        for _ in range(case["cycles"]):
            try:
                exp2 = D.Experiment.experimentFromInstance(inst, platform=platform)
                exp2.validateExperiment(checkExecutables=False)
            except Exception as exc:  # noqa
                out["status"] = "reload-raises"
                out["error"] = "%s: %s" % (type(exc).__name__, str(exc)[:300])
                return out
            # the reload itself re-stores (updateInstanceConfiguration=True); store explicitly as well
            exp2.configuration.store_unreplicated_flowir_to_disk()
            out["afters"].append(snapshot(exp2, inst))
            out["stored"].append(open(fpath, "rb").read())
        return out
    finally:
        os.chdir(cwd)


# ----------------------------------------------------------------------------------------
# translation raw FlowIR dict <-> model description
# ----------------------------------------------------------------------------------------

class Names:
    def __init__(self):
        self.ids = {"default": 0}
        self.rev = ["default"]

    def id(self, s):
        s = str(s)
        if s not in self.ids:
            self.ids[s] = len(self.rev)
            self.rev.append(s)
        return self.ids[s]


def tmpl_of(names, s):
    out = []
    pos = 0
    for m in VARPAT.finditer(s):
        out.extend(ord(c) for c in s[pos:m.start()])
        out.append(-(names.id(m.group(1)) + 1))
        pos = m.end()
    out.extend(ord(c) for c in s[pos:])
    return out


def var_text(v):
    return v if isinstance(v, str) else repr(v)


def opt_text(v):
    return v if isinstance(v, str) else "\x01" + json.dumps(v, sort_keys=True, default=str)


def dict_of(names, d, text):
    return [[names.id(k), tmpl_of(names, text(v))] for k, v in (d or {}).items()]


def layer_of(names, lay, is_bp):
    lay = lay or {}
    if is_bp:
        glob = dict_of(names, flat_paths(_strip_vars(lay.get("global") or {})), opt_text)
        stages = [[int(s), dict_of(names, flat_paths(_strip_vars(d or {})), opt_text)]
                  for s, d in (lay.get("stages") or {}).items()]
    else:
        glob = dict_of(names, lay.get("global") or {}, var_text)
        stages = [[int(s), dict_of(names, d or {}, var_text)] for s, d in (lay.get("stages") or {}).items()]
    return {"glob": glob, "stages": stages}


def _strip_vars(d):
    return {k: v for k, v in d.items() if k not in ("variables", "override", "stage", "name")}


def comp_of(names, c):
    is_doc = "$import" in c
    ovr = []
    for p, o in (c.get("override") or {}).items():
        o = o or {}
        ovr.append({"plat": names.id(p), "opts": dict_of(names, flat_paths(_strip_vars(o)), opt_text),
                    "vars": dict_of(names, o.get("variables") or {}, var_text)})
    return {"stage": int(c.get("stage", 0)), "name": names.id(c["name"]), "isDoc": is_doc,
            "opts": dict_of(names, flat_paths(_strip_vars(c)), opt_text),
            "vars": dict_of(names, c.get("variables") or {}, var_text), "ovr": ovr}


def doc_of(names, raw):
    variables = raw.get("variables") or {}
    bps = raw.get("blueprint") or {}
    return {"vars": [[names.id(p), layer_of(names, lay, False)] for p, lay in variables.items()],
            "bps": [[names.id(p), layer_of(names, lay, True)] for p, lay in bps.items()],
            "comps": [comp_of(names, c) for c in raw.get("components") or []]}


def text_of(names, t):
    return "".join(chr(c) if c >= 0 else "%%(%s)s" % names.rev[-c - 1] for c in t)


def dec_dict(names, d):
    return {names.rev[k]: text_of(names, t) for k, t in d}


def dec_layer(names, lay):
    st = {}
    for s, d in lay["stages"]:
        st.setdefault(str(s), dec_dict(names, d))  # first entry wins (as `find?` in the model)
    return {"glob": dec_dict(names, lay["glob"]), "stages": st}


def dec_doc(names, doc):
    """canonical, order-free view of a model description"""
    out = {"vars": {}, "bps": {}, "comps": {}}
    for key in ("vars", "bps"):
        for p, lay in doc[key]:
            out[key].setdefault(names.rev[p], dec_layer(names, lay))
    for c in doc["comps"]:
        cid = "stage%d.%s" % (c["stage"], names.rev[c["name"]])
        out["comps"][cid] = {"isDoc": c["isDoc"], "opts": dec_dict(names, c["opts"]), "vars": dec_dict(names, c["vars"]),
                             "ovr": {names.rev[o["plat"]]: {"opts": dec_dict(names, o["opts"]),
                                                            "vars": dec_dict(names, o["vars"])} for o in c["ovr"]}}
    return out


def dec_resolved(names, rs):
    return {"stage%d.%s" % (r["stage"], names.rev[r["name"]]): {"opts": dec_dict(names, r["opts"]),
                                                               "vars": dec_dict(names, r["vars"])} for r in rs}


# ----------------------------------------------------------------------------------------
# one case
# ----------------------------------------------------------------------------------------

def patched_paths(case):
    """node -> configuration paths that a lost patch of that node explains: the patched option path, or the
    patched variable and (only if the component's own command line interpolates that variable) command.arguments"""
    out = {}
    comps = {"stage%d.%s" % (c.get("stage", 0), c["name"]): c for c in case["main"]["components"]}
    for p in case["patches"]:
        out.setdefault(p["node"], set())
        if p["key"].startswith("#"):
            out[p["node"]].add(p["key"][1:])
        else:
            out[p["node"]].add("variables." + p["key"])
            args = ((comps.get(p["node"]) or {}).get("command") or {}).get("arguments") or ""
            if "%%(%s)s" % p["key"] in str(args):
                out[p["node"]].add("command.arguments")
    return out


def classify_patch_lost(what, case, detail):
    """known finding C07-setoption-patch-lost: the case applied a setOptionForNode patch before storing and
    every configuration path that differs after the reload is the patched path of the patched node (for a
    variable patch: that variable, or the command line that may interpolate it)."""
    if what != "configuration-differs-after-reload" or not case.get("patches"):
        return False
    pp = patched_paths(case)
    diffs = (detail or {}).get("diffs") or {}
    if not diffs:
        return False
    for node, paths in diffs.items():
        if node not in pp:
            return False
        if not set(paths) <= pp[node]:
            return False
    return True


CLASSIFIERS = {"c07_setoption_patch_before_store": classify_patch_lost}


def check_case(ctx, case, tmp_root):
    import yaml
    tmp = tempfile.mkdtemp(prefix="case-", dir=tmp_root)
    try:
        out = run_impl(case, tmp)
    finally:
        shutil.rmtree(tmp, ignore_errors=True)
    comps = case["main"]["components"]
    tags = ["platform:" + ("default" if case["platform"] == "default" else "non-default"),
            "iterations:%d" % case["iterations"], "cycles:%d" % case["cycles"],
            "uservar-files:%d" % len(case["uservars"]), "impl:" + out["status"],
            "loop" if case["dowhile"] else "no-loop",
            "patched" if case["patches"] else "unpatched",
            "replication" if any((c.get("workflowAttributes") or {}).get("replicate") for c in comps) else "no-replication",
            "override" if any("override" in c for c in comps) else "no-override"]
    nontrivial = out["status"] == "ok" and len(comps) >= 2
    ctx.case(case, nontrivial=nontrivial, tags=tags)
    if out["status"] == "package-rejected":
        return  # the generated package is not a valid experiment: nothing to reload
    if out["status"] == "reload-raises":
        ctx.fail("reload-raises", case, {"error": out["error"]})
        return
    before = out["before"]
    # ---- oracle ------------------------------------------------------------------------
    for i, after in enumerate(out["afters"]):
        if sorted(after["nodes"]) != sorted(before["nodes"]):
            ctx.fail("component-set-differs-after-reload", case,
                     {"cycle": i + 1, "only_before": sorted(set(before["nodes"]) - set(after["nodes"])),
                      "only_after": sorted(set(after["nodes"]) - set(before["nodes"]))})
            continue
        diffs = {}
        rdiffs = {}
        for n in before["nodes"]:
            if before["nodes"][n]["conf"] != after["nodes"][n]["conf"]:
                diffs[n] = diff_paths(before["nodes"][n]["conf"], after["nodes"][n]["conf"])
            if before["nodes"][n]["refs"] != after["nodes"][n]["refs"]:
                rdiffs[n] = [before["nodes"][n]["refs"], after["nodes"][n]["refs"]]
        if diffs and classify_patch_lost("configuration-differs-after-reload", case, {"diffs": diffs}) \
                and ctx.extra.get("patch_lost_recorded", 0) >= 60:
            # keep the failure list (capped at 200 by the context) free for anything else
            ctx.tag("patch-lost-seen-again-not-recorded")
        elif diffs:
            if classify_patch_lost("configuration-differs-after-reload", case, {"diffs": diffs}):
                ctx.extra["patch_lost_recorded"] = ctx.extra.get("patch_lost_recorded", 0) + 1
            n0 = sorted(diffs)[0]
            ctx.fail("configuration-differs-after-reload", case,
                     {"cycle": i + 1, "diffs": diffs,
                      "example": {"node": n0, "paths": {p: [flat_paths(before["nodes"][n0]["conf"]).get(p, "<absent>"),
                                                            flat_paths(after["nodes"][n0]["conf"]).get(p, "<absent>")]
                                                        for p in diffs[n0][:6]}}})
        if rdiffs:
            ctx.fail("data-references-differ-after-reload", case, {"cycle": i + 1, "diffs": rdiffs})
        if before["edges"] != after["edges"]:
            ctx.fail("dataflow-edges-differ-after-reload", case,
                     {"cycle": i + 1, "only_before": [e for e in before["edges"] if e not in after["edges"]][:10],
                      "only_after": [e for e in after["edges"] if e not in before["edges"]][:10]})
        if before["live_edges"] != before["edges"]:
            ctx.tag("live-graph-keeps-edges-of-earlier-iterations")
    parsed = [canon_flowir(yaml.safe_load(b)) for b in out["stored"]]
    for i in range(1, len(parsed)):
        if parsed[i] != parsed[0]:
            ctx.fail("stored-description-changed-by-load-and-store", case,
                     {"cycle": i, "paths": diff_paths({"d": parsed[0]}, {"d": parsed[i]})[:12]})
            break
        ctx.tag("stored-bytes-identical" if out["stored"][i] == out["stored"][0] else "stored-bytes-differ-only-in-order")
    # user variables: the last file that defines a name wins and is visible (through the stage scope) everywhere
    if case["uservars"] and out["afters"] and not case["patches"]:
        final = {}
        for uv in case["uservars"]:
            final.update(uv.get("global") or {})
        after = out["afters"][-1]
        for n, nd in after["nodes"].items():
            vs = (nd["conf"] or {}).get("variables") or {}
            st = nd["conf"].get("stage")
            own = {}
            for c in comps:
                if "stage%s.%s" % (c.get("stage", 0), c["name"]) == n or n.split(".", 1)[1].rstrip("0123456789") == c["name"]:
                    own = dict(c.get("variables") or {})
                    for o in (c.get("override") or {}).values():
                        own.update((o or {}).get("variables") or {})
            stage_user = {}
            for uv in case["uservars"]:
                stage_user.update((uv.get("stages") or {}).get(st) or {})
            for k, v in final.items():
                if k in own or k in stage_user or "#" in n:
                    continue
                if isinstance(v, str) and "%(" in v:
                    continue
                if k not in vs or str(vs[k]) != str(v):
                    ctx.fail("user-variable-lost-after-reload", case, {"node": n, "variable": k, "expected": v,
                                                                         "got": vs.get(k, "<absent>")})
    # loop instances
    if case["iterations"] and out["afters"]:
        want = {n for n in before["nodes"] if "#" in n}
        got = {n for n in out["afters"][-1]["nodes"] if "#" in n}
        ctx.tag("loop-instances:%d" % len(want))
        if want != got:
            ctx.fail("loop-instances-differ-after-reload", case, {"before": sorted(want), "after": sorted(got)})
    # ---- model ---------------------------------------------------------------------------
    if ctx.driver is None:
        return
    names = Names()
    doc = doc_of(names, out["unrep_raw"])
    mpatches = []
    for p in case["patches"]:
        st, nm = p["node"].split(".", 1)
        isvar = not p["key"].startswith("#")
        mpatches.append({"stage": int(st[5:]), "name": names.id(nm), "isVar": isvar,
                         "key": names.id(p["key"] if isvar else p["key"][1:]),
                         "value": tmpl_of(names, var_text(p["value"]) if isvar else opt_text(p["value"]))})
    stored_docs = [doc_of(names, yaml.safe_load(b)) for b in out["stored"]]
    req = {"op": "cycle", "N": FUEL, "P": names.id(case["platform"]), "doc": doc, "patches": mpatches}
    m = ctx.model([req])[0]
    ctx.tag("model:resolves" if m["resolves"] else "model:not-resolved")
    light = case
    ctx.compare("stored flowir_instance.yaml == Instance.flatten(_unreplicated)", light,
                dec_doc(names, m["stored"]), dec_doc(names, stored_docs[0]))
    ctx.compare("model: store(reload(store E)) == store E", light,
                dec_doc(names, m["stored_again"]), dec_doc(names, m["stored"]))
    if not case["patches"]:
        ctx.compare("model: runningConfig(reload E) == runningConfig E", light,
                    dec_resolved(names, m["after"]), dec_resolved(names, m["before"]))
    # configurationForNode of the nodes that are not replicas vs Instance.resolveComp (variables, and the options
    # that carry no data reference)
    mres = dec_resolved(names, m["before"])
    impl_view, model_view = {}, {}
    for cid, r in mres.items():
        nd = before["nodes"].get(cid)
        if nd is None or "error" in nd["conf"]:
            continue
        conf = nd["conf"]
        impl_vars = {k: var_text(v) for k, v in (conf.get("variables") or {}).items()}
        fp = flat_paths({k: v for k, v in conf.items() if k not in ("variables", "name", "stage")})
        mo, io = {}, {}
        for path, val in r["opts"].items():
            if path.startswith("references") or ":" in val or path.startswith("override"):
                continue
            mo[path] = val
            io[path] = opt_text(fp[path]) if path in fp else "<absent>"
        model_view[cid] = {"vars": r["vars"], "opts": mo}
        impl_view[cid] = {"vars": impl_vars, "opts": io}
    if not case["patches"]:
        ctx.compare("configurationForNode (non-replica nodes) == Instance.resolveComp", light, model_view, impl_view)


CORPUS = [
    # DESIGN section 8 #14: maxRestarts patched 2 -> 7 and a new variable, both gone after store + reload
    {"main": {"platforms": ["default"],
              "variables": {"default": {"global": {"v1": "g"}, "stages": {}}},
              "components": [{"name": "src", "stage": 0, "command": {"executable": "echo", "arguments": "x %(v1)s"},
                              "workflowAttributes": {"maxRestarts": 2}}]},
     "dowhile": None, "platform": "default", "uservars": [], "iterations": 0,
     "patches": [{"node": "stage0.src", "key": "#workflowAttributes.maxRestarts", "value": 7},
                 {"node": "stage0.src", "key": "patched", "value": "pv"}],
     "cycles": 1, "reload_platform": "same"},
]


def run(ctx):
    ctx.rule = ("case = generated package (1-3 platforms, global/stage variable layers per platform with acyclic "
                "%(ref)s values, blueprints, component variables and per-platform overrides, replicate/aggregate, "
                "0-2 user variable files, optional DoWhile document advanced 0-3 (thorough: up to 5) iterations, "
                "optional setOptionForNode patch) + selected platform + 1-3 store/load cycles; non-trivial = the real "
                "Experiment loads and has >= 2 components; distinct by canonical JSON of the case")
    ctx.assumptions = [
        "variable values at global/stage scope reference only variables visible at that scope (otherwise "
        "instance() keeps the whole value raw instead of resolving it partially: not modelled); no array accesses",
        "edges of the running experiment are taken from _createCompleteGraph(inherit_graph) when loop iterations "
        "were instantiated (the live graph keeps edges of earlier iterations by design)",
        "reference strings in `references` are compared in absolute spelling (stageN.name:method)",
        "component order in conf/flowir_instance.yaml comes from a Python set: stored descriptions are compared "
        "after parsing, with the component list sorted by (stage, name)",
    ]
    ctx.trusted.append("C07: PyYAML dump/load is the identity on the generated values (str, int, bool, list, dict); "
                       "FlowIR.apply_replicate is a function of the flattened description (not modelled)")
    ctx.classifiers = CLASSIFIERS
    quick = ctx.tier == "quick"
    n = 150 if quick else 1000
    root = tempfile.mkdtemp(prefix="c07-")
    try:
        for case in CORPUS:
            check_case(ctx, case, root)
        cdir = os.path.join(os.path.dirname(os.path.dirname(os.path.abspath(__file__))), "corpus", "C07")
        if os.path.isdir(cdir):
            for fn in sorted(os.listdir(cdir)):
                if fn.endswith(".json"):
                    check_case(ctx, fix_keys(json.load(open(os.path.join(cdir, fn)))), root)
        for _ in range(n):
            check_case(ctx, gen_case(ctx.rng, ctx.tier), root)
    finally:
        shutil.rmtree(root, ignore_errors=True)


def fix_keys(x, under_stages=False):
    """JSON turned the integer stage keys of a case into strings: undo"""
    if isinstance(x, dict):
        return {(int(k) if under_stages and isinstance(k, str) and k.isdigit() else k): fix_keys(v, k == "stages")
                for k, v in x.items()}
    if isinstance(x, list):
        return [fix_keys(v) for v in x]
    return x


def replay(ctx, doc):
    ctx.classifiers = CLASSIFIERS
    case = fix_keys(doc.get("input") or doc["no_longer_checks"][-1]["input"])
    if "main" not in case:
        raise ValueError("replay of a correspondence disagreement needs the generating case; rerun with the seed")
    root = tempfile.mkdtemp(prefix="c07-")
    try:
        check_case(ctx, case, root)
    finally:
        shutil.rmtree(root, ignore_errors=True)
