"""C07 — An instance reloaded from its own files is the same experiment.

Implementation under test (real code, in-process): a generated package (platforms, variable layers, blueprints,
named environments per platform, component overrides, list-valued options in every layer with explicitly empty
lists over non-empty inherited ones, user variable files, replication/aggregation, optionally a DoWhile document; laid out as a package directory or as a FlowIR file + manifest whose entries are copied, linked
and nested; data/ and input/ files; application dependencies per platform; references of components into all of
these folders; in about half of the multi-stage packages one or two component NAMES are used in two or three stages with
different roles - a component is identified by (stage, name) - the later namesake consuming the earlier one, neighbours
referencing the namesake of their own stage by its bare name, also the names the iterations of the loop carry) is turned into a real `Experiment` (ExperimentPackage.packageFromLocation +
Experiment.experimentFromPackage); the loop is advanced 0-3 iterations through the real
`WorkflowGraph.instantiate_dowhile_next_iteration`; optionally options are patched through
`WorkflowGraph.setOptionForNode`; then a HISTORY of loads and further iterations on the instance directory: every load is
`Experiment.experimentFromInstance(instance_dir, platform)`, `Experiment.experimentFromInstance(instance_dir)` (no
platform named: what ewrap/etest/ememo/einspect do; both re-store), `Experiment(dir, platform, is_instance=True,
updateInstanceConfiguration=False)` (read-only: what `elaunch --restart` on the same platform does) or the same read-only
load without a platform (the database front-end); after a load the object obtained by it may instantiate the next
iterations of the loop the way the controller does (`instantiate_dowhile_next_iteration(dw, k, True)`) before the
directory is loaded again.  The first cases of a run are driven a second time at the end, in reverse order
(`result-depends-on-earlier-cases`: no state may leak from one load of the process to another).

For histories with iterations a never-reloaded CONTROL experiment (same package, user variables, inputs; every
iteration instantiated by the object that created the instance) is driven next to the subject.

Oracle (model independent): after every iteration instantiated by a LOADED object: same nodes, configurations,
environments, data references, edges and variable views as the control after the same iteration; after every load the
user-variable views (`configuration.get_user_variables()`, `get_global_variables()` with / without the user variables)
of the loaded object are those of the object that drove the instance before it; same nodes, same `configurationForNode` of every node, same environment of every
node, same data references (text, method, producer or path, location), same edges after every load as the experiment
object that drove the instance before it (the creator, or the loaded object that instantiated the last iteration);
the parsed content of conf/flowir_instance.yaml is not changed by any load (+ store); after the creation and after
every step the description on disk lists, by (stage, name), exactly the components of the description held by the
object that wrote it last or was loaded from it.
Model: lean/St4sd/Model/Instance.lean through drv-c07 (`flatten` = FlowIRConcrete.instance(fill_in_all=False,
is_primitive=True); op `session` = `Instance.step`: iterations, loads naming the platform or not and updating the files or
not, explicit stores) compared with the parsed stored file after every step and with `configurationForNode` of the
non-replicated nodes after every load;
lean/St4sd/Model/InstanceDir.lean (op `dir`: manifest deployment, folders implied by the directory listing,
reading of references) compared with the real listing, `top_level_folders`, `Manifest.fromDirectory` and
`FlowIR.expand_potential_component_reference`.
"""
from __future__ import annotations

import json
import os
import re
import shutil
import tempfile

VARPAT = re.compile(r"%\(([^()%]+)\)s")
FUEL = 40


# ----------------------------------------------------------------------------------------
# generator
# ----------------------------------------------------------------------------------------

VNAMES = ["v0", "v1", "v2", "v3", "v4", "v5", "v6", "v7"]


def _value(rng, idx, visible, allow_int=True):
    """a variable value for the name VNAMES[idx]: only references names of higher index (acyclic by construction)"""
    cands = [n for n in visible if VNAMES.index(n) > idx]
    kind = rng.random()
    if allow_int and kind < 0.2:
        return rng.randint(0, 99)
    parts = [rng.choice(["a", "b", "x-", "q_", "7"])]
    for _ in range(rng.choice([0, 0, 1, 1, 2])):
        if cands:
            parts.append("%%(%s)s" % rng.choice(cands))
            parts.append(rng.choice(["", "-", ".", "z"]))
    return "".join(parts)


def gen_case(rng, tier="quick"):
    extra = rng.sample(["hpc", "cloud"], rng.choice([0, 1, 1, 2]))
    plats = ["default"] + extra
    platform = rng.choice(plats + extra)  # bias towards a non-default platform
    nstages = rng.randint(1, 3)
    with_loop = rng.random() < 0.45
    if with_loop and nstages < 3:
        nstages = 3
    # names defined in the default global layer are visible everywhere
    gnames = sorted(rng.sample(VNAMES, rng.randint(2, 5)), key=VNAMES.index)
    variables = {}
    for p in plats:
        lay = {"global": {}, "stages": {}}
        names = gnames if p == "default" else rng.sample(gnames, rng.randint(0, len(gnames))) + \
            rng.sample([n for n in VNAMES if n not in gnames], rng.choice([0, 0, 1]))
        for n in names:
            lay["global"][n] = _value(rng, VNAMES.index(n), gnames)
        variables[p] = lay
    # stage scopes: default stage defines some names, platform stage layers re-define a subset
    for s in range(nstages):
        dnames = rng.sample(VNAMES, rng.randint(0, 3))
        vis = sorted(set(gnames) | set(dnames), key=VNAMES.index)
        if dnames:
            variables["default"]["stages"][s] = {n: _value(rng, VNAMES.index(n), vis) for n in dnames}
        for p in extra:
            pn = rng.sample(vis, rng.choice([0, 0, 1, 2]) if vis else 0)
            if pn:
                variables[p]["stages"][s] = {n: _value(rng, VNAMES.index(n), vis) for n in pn}
    blueprint = {}
    for p in plats:
        if rng.random() < 0.6:
            bp = {}
            if rng.random() < 0.7:
                g = {"command": {"environment": "none"}}
                if rng.random() < 0.4:
                    g["workflowAttributes"] = {"maxRestarts": rng.randint(0, 4)}
                if rng.random() < 0.3:
                    g["command"]["arguments"] = "bp-%s %%(%s)s" % (p, rng.choice(gnames))
                bp["global"] = g
            if rng.random() < 0.4:
                s = rng.randrange(nstages)
                bp["stages"] = {s: {"command": {"executable": rng.choice(["echo", "ls"])}}}
                if rng.random() < 0.5:
                    bp["stages"][s]["workflowAttributes"] = {"maxRestarts": rng.randint(0, 4)}
            if bp:
                blueprint[p] = bp
    comps = []

    def visible_for(stage):
        vis = set(gnames)
        vis |= set(variables["default"]["stages"].get(stage, {}))
        return sorted(vis, key=VNAMES.index)

    def mk(name, stage, refs=(), replicate=None, aggregate=False):
        vis = visible_for(stage)
        c = {"name": name, "stage": stage, "command": {"executable": "echo"}}
        own = rng.sample(VNAMES, rng.choice([0, 0, 1, 2]))
        if own:
            allvis = sorted(set(vis) | set(own), key=VNAMES.index)
            c["variables"] = {n: _value(rng, VNAMES.index(n), allvis) for n in own}
        else:
            allvis = vis
        args = [rng.choice(["-n", "run", "x"])]
        for _ in range(rng.choice([0, 1, 2])):
            if allvis:
                args.append("%%(%s)s" % rng.choice(allvis))
        if replicate:
            args.append("%(replica)s")
        for r in refs:
            args.append(r)
        c["command"]["arguments"] = " ".join(args)
        if refs:
            c["references"] = list(refs)
        wa = {}
        if replicate:
            wa["replicate"] = replicate
        if aggregate:
            wa["aggregate"] = True
        if rng.random() < 0.3:
            wa["maxRestarts"] = rng.randint(0, 5)
        if wa:
            c["workflowAttributes"] = wa
        if extra and rng.random() < 0.45:
            ov = {}
            for p in rng.sample(extra, rng.randint(1, len(extra))):
                o = {}
                if rng.random() < 0.6:
                    on = rng.sample(allvis + own, min(len(allvis + own), rng.choice([1, 1, 2]))) if (allvis or own) else []
                    if on:
                        o["variables"] = {n: _value(rng, VNAMES.index(n), allvis) for n in sorted(set(on), key=VNAMES.index)}
                if rng.random() < 0.5:
                    o["command"] = {"executable": rng.choice(["ls", "cat"])}
                if rng.random() < 0.3:
                    o["workflowAttributes"] = {"maxRestarts": rng.randint(6, 9)}
                if o:
                    ov[p] = o
            if ov:
                c["override"] = ov
        return c

    comps.append(mk("src", 0))
    rep = rng.choice([None, None, 2, 3])
    if rep:
        comps.append(mk("gen", 0, refs=["src:ref"], replicate=rep))
        if nstages > 1 and rng.random() < 0.7:
            comps.append(mk("agg", 1, refs=["stage0.gen:ref"], aggregate=True))
        elif rng.random() < 0.5:
            comps.append(mk("follow", 0, refs=["gen:ref"]))
    for i in range(rng.randint(0, 2)):
        st = rng.randrange(nstages)
        comps.append(mk("c%d" % i, st, refs=["stage0.src:output"] if rng.random() < 0.5 else ()))
    # the same component NAME in two (or three) stages: a component is identified by (stage, name) - stage0.src and
    # stage1.src are different components with different roles (what migrated components of consecutive stages are
    # required to look like, and what multi-stage packages do: stage0.simulate / stage1.simulate); the later namesake
    # may consume the earlier one, and a neighbour may reference the namesake of its own stage by its bare name
    if nstages > 1 and rng.random() < 0.55:
        pool = list(comps)
        for k in range(rng.choice([1, 1, 2])):
            if with_loop and rng.random() < 0.2:
                nm, ostage = rng.choice(["add", "stop"]), 1     # the names the iterations of the loop carry (`<k>#add`)
            else:
                orig = rng.choice(pool)
                nm, ostage = orig["name"], orig["stage"]
            taken = {c["stage"] for c in comps if c["name"] == nm} | ({1} if nm in ("add", "stop") else set())
            free = [s for s in range(nstages) if s not in taken]
            if not free:
                continue
            st = rng.choice(free)
            refs = []
            if st > ostage and nm not in ("add", "stop") and rng.random() < 0.6:
                refs.append("stage%d.%s:%s" % (ostage, nm, rng.choice(["ref", "output"])))
            comps.append(mk(nm, st, refs=refs))
            if rng.random() < 0.5:
                comps.append(mk("use" + "ab"[k], st, refs=["%s:%s" % (nm, rng.choice(["ref", "output"]))]))
    dowhile = None
    iterations = 0
    if with_loop:
        lrep = rng.choice([None, 2])
        dowhile = {
            "type": "DoWhile",
            "inputBindings": {"number": {"type": "output"}},
            "loopBindings": {"number": "stop:output"},
            "condition": "stop:output",
            "components": [
                {"name": "add", "command": {"executable": "echo",
                                            "arguments": "number:output %%(loopIteration)s %%(%s)s" % rng.choice(gnames)},
                 "references": ["number:output"]},
                {"name": "stop", "command": {"executable": "echo", "arguments": "add:output"},
                 "references": ["add:output"]},
            ],
        }
        if lrep:
            dowhile["components"][0]["workflowAttributes"] = {"replicate": lrep}
            dowhile["components"][1]["workflowAttributes"] = {"aggregate": True}
        if rng.random() < 0.5:
            dowhile["components"][0]["variables"] = {rng.choice(VNAMES): "loopvar"}
        comps.append({"name": "loop", "stage": 1, "$import": "dowhile.yaml",
                      "bindings": {"number": "stage0.src:output"}})
        comps.append({"name": "report", "stage": 2, "command": {"executable": "echo", "arguments": "stage1.add:output"},
                      "references": ["stage1.add:output"]})
        iterations = rng.choice([0, 1, 1, 2, 3]) if tier == "quick" else rng.choice([0, 1, 1, 2, 3, 3, 5])
    rng.shuffle(comps)
    uservars = []
    for _ in range(rng.choice([0, 0, 1, 1, 2])):
        uv = {}
        if rng.random() < 0.8:
            uv["global"] = {n: _value(rng, VNAMES.index(n), gnames) for n in rng.sample(VNAMES, rng.randint(1, 2))}
            if rng.random() < 0.5:
                uv["global"]["userOnly"] = rng.choice(["u1", 5, "u-%%(%s)s" % gnames[-1]])
        if rng.random() < 0.4:
            s = rng.randrange(nstages)
            uv["stages"] = {s: {n: _value(rng, VNAMES.index(n), gnames, allow_int=False)
                                for n in rng.sample(VNAMES, 1)}}
        if uv:
            uservars.append(uv)
    main = {"platforms": plats, "variables": variables, "components": comps}
    if blueprint:
        main["blueprint"] = blueprint
    patches = []
    if rng.random() < (0.15 if tier == "quick" else 0.04):
        # nodes that exist under the name of their component: not replicated, directly or by consuming a replicated one
        repl = {(c["stage"], c["name"]) for c in comps if c.get("workflowAttributes", {}).get("replicate")}
        grew = True
        while grew:
            grew = False
            for c in comps:
                if "$import" in c or (c["stage"], c["name"]) in repl or c.get("workflowAttributes", {}).get("aggregate"):
                    continue
                for r in c.get("references") or []:
                    m = re.match(r"(?:stage(\d+)\.)?([^:/]+):", r)
                    if m and (int(m.group(1)) if m.group(1) else c["stage"], m.group(2)) in repl:
                        repl.add((c["stage"], c["name"]))
                        grew = True
                        break
        plain = [c for c in comps if "$import" not in c and (c["stage"], c["name"]) not in repl
                 and c["name"] not in ("follow", "report")]
        tgt = rng.choice(plain)
        node = "stage%d.%s" % (tgt["stage"], tgt["name"])
        if rng.random() < 0.5:
            patches.append({"node": node, "key": "#workflowAttributes.maxRestarts", "value": rng.randint(10, 20)})
        else:
            patches.append({"node": node, "key": rng.choice(["patched", "v0"]), "value": "pv%d" % rng.randint(0, 9)})
    case = {"main": main, "dowhile": dowhile, "platform": platform, "uservars": uservars,
            "iterations": iterations, "patches": patches}
    add_environments(rng, case)
    add_storage(rng, case)
    add_list_options(rng, case)
    add_inherited_settings(rng, case)
    # the history after the creation: loads (how each names the platform and whether it may update the instance files,
    # see case_steps) and, for packages with a loop, further iterations instantiated by the object loaded last
    cycles = rng.choice([1, 1, 2, 3])
    style = rng.random()
    if style < 0.22:
        hows = ["same"] * cycles
    elif style < 0.47:
        hows = ["none"] * cycles
    elif style < 0.65:
        hows = ["restart"] * cycles
    else:
        hows = [rng.choice(["same", "none", "restart", "restart", "inspect"]) for _ in range(cycles)]
    budget = (3 if tier == "quick" else 5) - iterations
    history = []
    for how in hows:
        history.append({"op": "load", "how": how})
        # the controller of a restart keeps looping; the platform-less loads are the (read-only or not) tools
        if dowhile and budget > 0 and (how in NAMING or platform == "default") and rng.random() < 0.6:
            k = min(budget, rng.choice([1, 1, 2]))
            history += [{"op": "iterate"}] * k
            budget -= k
    if history[-1]["op"] == "iterate":
        history.append({"op": "load", "how": rng.choice(["same", "restart", "restart", "none", "inspect"])})
    hows = [st["how"] for st in history if st["op"] == "load"]
    case["cycles"] = len(hows)
    case["reloads"] = hows
    case["history"] = history
    # the creating experiment stores when it is created and after every iteration; the harness stores once more
    # explicitly after a patch (the known finding needs it) and otherwise only sometimes
    case["explicit_store"] = bool(patches) or rng.random() < 0.4
    return case


REASONS = ["KnownIssue", "SystemIssue", "SubmissionFailed", "UnknownIssue", "ResourceExhausted", "Success"]
# list-valued options: a list is replaced as a whole by the narrower layer (override_object), so an explicitly EMPTY
# list is a value of its own - it switches off what the built-in default ([ResourceExhausted] for restartHookOn), a
# blueprint or the component itself (under a platform override) would otherwise give
LIST_OPTIONS = [("workflowAttributes", "restartHookOn"), ("workflowAttributes", "restartHookOn"),
                ("workflowAttributes", "shutdownOn"), ("executors", "pre"), ("executors", "post")]


def _list_value(rng, opt, empty):
    if rng.random() < empty:
        return []
    if opt[0] == "executors":
        return [{"name": "lsf-dm-in" if opt[1] == "pre" else "lsf-dm-out", "payload": rng.choice(["-s a", "-d b/c"])}]
    return rng.sample(REASONS, rng.choice([1, 1, 2]))


# scalar options with a FALSY explicit value over a truthy inherited one (a narrower layer that says `false` / `0`
# is a value, not an absence): (section path, truthy values, falsy value)
FALSY_OPTIONS = [(("command", "resolvePath"), [True], False),
                 (("workflowAttributes", "maxRestarts"), [1, 3], 0),
                 (("workflowAttributes", "memoization", "disable", "strong"), [True], False),
                 (("workflowAttributes", "memoization", "disable", "fuzzy"), [True], False)]


def _set_path(d, path, v):
    for k in path[:-1]:
        d = d.setdefault(k, {})
    d[path[-1]] = v


def add_falsy_options(rng, case):
    """blueprints give a truthy value, components / overrides explicitly the falsy one (or the other way round)"""
    if rng.random() < 0.6:
        return
    main = case["main"]
    path, truthy, falsy = rng.choice(FALSY_OPTIONS)
    g = main.setdefault("blueprint", {}).setdefault("default", {}).setdefault("global", {})
    _set_path(g, path, rng.choice(truthy) if rng.random() < 0.8 else falsy)
    extra = [p for p in main["platforms"] if p != "default"]
    for c in plain_components(case):
        if rng.random() < 0.5:
            _set_path(c, path, falsy if rng.random() < 0.7 else rng.choice(truthy))
        if extra and rng.random() < 0.2:
            _set_path(c.setdefault("override", {}).setdefault(rng.choice(extra), {}), path,
                      falsy if rng.random() < 0.6 else rng.choice(truthy))


def add_list_options(rng, case):
    """list-valued options in every layer: blueprints (global / stage, per platform) mostly non-empty, components,
    per-platform overrides and DoWhile components mostly EMPTY (explicit `[]` over the inherited / built-in list)"""
    add_falsy_options(rng, case)
    if rng.random() < 0.4:
        return
    main = case["main"]
    opts = rng.sample(LIST_OPTIONS, rng.choice([1, 2, 3]))
    nstages = 1 + max(int(c.get("stage", 0)) for c in main["components"])
    for p in main["platforms"]:
        if rng.random() < (0.7 if p == "default" else 0.35):
            g = main.setdefault("blueprint", {}).setdefault(p, {}).setdefault("global", {})
            for o in opts:
                if rng.random() < 0.7:
                    g.setdefault(o[0], {})[o[1]] = _list_value(rng, o, 0.1)
        if rng.random() < 0.3:
            st = main.setdefault("blueprint", {}).setdefault(p, {}).setdefault("stages", {}).setdefault(
                rng.randrange(nstages), {})
            o = rng.choice(opts)
            st.setdefault(o[0], {})[o[1]] = _list_value(rng, o, 0.6)
    comps = plain_components(case) + list((case.get("dowhile") or {}).get("components") or [])
    extra = [p for p in main["platforms"] if p != "default"]
    for c in comps:
        if rng.random() < 0.5:
            for o in rng.sample(opts, rng.choice([1, len(opts)])):
                c.setdefault(o[0], {})[o[1]] = _list_value(rng, o, 0.65)
        if extra and "$import" not in c and c in plain_components(case) and rng.random() < 0.3:
            o = rng.choice(opts)
            ov = c.setdefault("override", {}).setdefault(rng.choice(extra), {})
            ov.setdefault(o[0], {})[o[1]] = _list_value(rng, o, 0.6)


# settings that components INHERIT from blueprints (literal values: the stored description keeps blueprints interpolated
# in the global / stage scope): (path, values).  Floats stay floats, ints ints (no type conversion in the model).
INHERITED = [(("command", "environment"), None),
             (("resourceRequest", "numberThreads"), [2, 4]),
             (("resourceRequest", "numberProcesses"), [2, 3]),
             (("resourceManager", "config", "walltime"), [45.0, 90.5]),
             (("resourceManager", "lsf", "queue"), ["batch", "short"]),
             (("resourceManager", "kubernetes", "namespace"), ["ns-a", "ns-b"]),
             (("workflowAttributes", "maxRestarts"), [1, 2, 6]),
             (("workflowAttributes", "memoization", "disable", "strong"), [True]),
             (("command", "expandArguments"), ["none", "double-quote"])]


def add_inherited_settings(rng, case):
    """blueprints (default / selected and other platforms; global / the stage of the loop or another stage) that give
    components - the ones of a DoWhile document above all, which set next to nothing themselves - non-default settings:
    environment, resource request, resource manager options, workflow attributes"""
    main = case["main"]
    loop = bool(case.get("dowhile"))
    if rng.random() >= (0.8 if loop else 0.3):
        return
    nstages = 1 + max(int(c.get("stage", 0)) for c in main["components"])
    stage = 1 if loop else rng.randrange(nstages)
    envs = main.get("environments")
    if not envs:
        envs = main["environments"] = {"default": {"loopenv": {"DEFAULTS": "PATH", "OMP_NUM_THREADS": "2"}}}
        for p in main["platforms"]:
            if p != "default" and rng.random() < 0.5:
                envs[p] = {"loopenv": {"DEFAULTS": "PATH", "OMP_NUM_THREADS": "8-%s" % p}}
    env_names = sorted(envs.get("default") or {})
    layers = [("default", "global"), ("default", "stage")]
    for p in main["platforms"]:
        if p != "default":
            layers += [(p, "global"), (p, "stage")]
    picked = rng.sample(INHERITED, rng.randint(2, 5))
    used = False
    for p, scope in layers:
        if rng.random() < (0.35 if p not in ("default", case["platform"]) else 0.7):
            bp = main.setdefault("blueprint", {}).setdefault(p, {})
            d = bp.setdefault("global", {}) if scope == "global" else bp.setdefault("stages", {}).setdefault(stage, {})
            for path, values in rng.sample(picked, rng.randint(1, len(picked))):
                _set_path(d, path, rng.choice(values if values is not None else env_names))
                used = True
    if used:
        case["inherited"] = sorted(".".join(pth) for pth, _v in picked)


FOLDER_NAMES = ["refdata", "shared", "tables", "lib-x", "Nest"]
FILE_NAMES = ["params.txt", "a.dat", "notes.md"]
APP_NAMES = ["Solver", "tools"]


def plain_components(case):
    return [c for c in case["main"]["components"] if "$import" not in c]


def add_environments(rng, case):
    """named environments per platform (folded into `default` by instance()); components select them"""
    if rng.random() < 0.5:
        return
    main = case["main"]
    plats = main["platforms"]
    gnames = sorted(main["variables"]["default"]["global"], key=VNAMES.index)
    envs = {}
    names = rng.sample(["enva", "envb"], rng.choice([1, 2]))
    for p in plats:
        for en in names:
            if p != "default" and rng.random() < 0.4:
                continue
            e = {"DEFAULTS": "PATH"}
            for k in rng.sample(["FOO", "BAR", "OMP_NUM_THREADS"], rng.choice([1, 2])):
                e[k] = rng.choice(["1", "x-%s" % p, "%%(%s)s/y" % rng.choice(gnames), "$FOO:z"])
            envs.setdefault(p, {})[en] = e
    for en in names:
        envs.setdefault("default", {}).setdefault(en, {"DEFAULTS": "PATH", "BASE": "b"})
    main["environments"] = envs
    for c in plain_components(case):
        if rng.random() < 0.6:
            c["command"]["environment"] = rng.choice(names)


def add_storage(rng, case):
    """what lives in the instance directory besides conf/: package layout (a directory, or a FlowIR file with a
    manifest), top-level folders that are copied or linked (nested manifest keys too), the special folders data/ and
    input/, application dependencies (links created by name) - and references of components into all of them"""
    case["layout"] = "dir"
    case["folders"] = []
    case["appdeps"] = []
    case["inputs"] = []
    case["datafiles"] = []
    if rng.random() < 0.4:
        return
    main = case["main"]
    case["layout"] = rng.choice(["dir", "file", "file"])
    pool = []  # reference strings to things that are not components
    used = rng.sample(FOLDER_NAMES, rng.choice([1, 1, 2, 3]))
    for i, t in enumerate(used):
        files = rng.sample(FILE_NAMES, rng.choice([1, 2]))
        method = rng.choice(["copy", "link", "link"])
        case["folders"].append({"target": t, "method": method, "files": files})
        for f in files:
            pool.append("%s/%s:%s" % (t, f, rng.choice(["ref", "copy", "link"])))
        pool.append("%s:ref" % t)
        if method == "copy" and rng.random() < 0.4:
            # nested key: its parent is created by the entry above
            sub = rng.choice(["deep", "v2"])
            case["folders"].append({"target": "%s/%s" % (t, sub), "method": rng.choice(["copy", "link"]),
                                    "files": ["n.txt"]})
            pool.append("%s/%s/n.txt:%s" % (t, sub, rng.choice(["ref", "copy"])))
            pool.append("%s/%s:ref" % (t, sub))
    if rng.random() < 0.5:
        case["datafiles"] = rng.sample(["d0.txt", "d1.csv"], rng.choice([1, 2]))
        case["data_method"] = rng.choice(["copy", "link"])
        pool += ["data/%s:%s" % (f, rng.choice(["ref", "copy"])) for f in case["datafiles"]]
    if rng.random() < 0.5:
        case["inputs"] = rng.sample(["in0.csv", "in1.txt"], rng.choice([1, 2]))
        pool += ["input/%s:%s" % (f, rng.choice(["ref", "copy"])) for f in case["inputs"]]
    if rng.random() < 0.5:
        apps = rng.sample(APP_NAMES, rng.choice([1, 2]))
        deps = {"default": []}
        for a in apps:
            p = rng.choice(main["platforms"])
            deps.setdefault(p, []).append("%s.application" % a)
            case["appdeps"].append(a)
        # the list of the selected platform replaces (does not extend) the default list
        for dep in deps.get(case["platform"], deps["default"]):
            a = dep.split(".")[0].lower()
            pool.append("%s/bin.sh:ref" % a)
            pool.append("%s:ref" % a)
        main["application-dependencies"] = deps
    for c in plain_components(case):
        if not pool or rng.random() < 0.35:
            continue
        for r in rng.sample(pool, min(len(pool), rng.choice([1, 1, 2, 3]))):
            refs = c.setdefault("references", [])
            if any(x.rsplit(":", 1)[0] == r.rsplit(":", 1)[0] for x in refs):
                continue
            refs.append(r)
            if r.endswith(":ref"):
                c["command"]["arguments"] = (c["command"].get("arguments", "") + " " + r).strip()


# ----------------------------------------------------------------------------------------
# real code driver
# ----------------------------------------------------------------------------------------

def _quiet():
    import logging
    logging.disable(logging.CRITICAL)


def canon_conf(x, inst):
    if isinstance(x, dict):
        return {str(k): canon_conf(v, inst) for k, v in x.items()}
    if isinstance(x, (list, tuple)):
        return [canon_conf(v, inst) for v in x]
    if isinstance(x, str):
        return x.replace(inst, "$I")
    if isinstance(x, float):
        return "float:%r" % x
    return x


def snapshot(exp, inst, rebuilt_edges=False):
    g = exp.experimentGraph
    nodes = {}
    for n, d in g.graph.nodes(data=True):
        spec = d["componentSpecification"]
        try:
            conf = canon_conf(g.configurationForNode(n), inst)
            # the spelling of a reference (relative `src:ref` vs absolute `stage0.src:ref`) is not part of the
            # property: the running experiment loses the absolute spelling when an iteration re-replicates
            if isinstance(conf.get("references"), list):
                conf["references"] = sorted(r if re.match(r"stage\d+\.", r) else "stage%s.%s" % (conf.get("stage", 0), r)
                                            for r in conf["references"])
        except Exception as exc:  # noqa
            conf = {"error": type(exc).__name__}
        try:
            refs = []
            for r in spec.dataReferences:
                direct = bool(r.isDirectReference(g))
                try:
                    where = os.path.relpath(r.location(g), inst)
                except Exception as exc:  # noqa
                    where = "error:" + type(exc).__name__
                refs.append([str(r.stringRepresentation).replace(inst, "$I"), str(r.method),
                             "direct" if direct else str(r.producerIdentifier.identifier), where])
            refs.sort()
        except Exception as exc:  # noqa
            refs = ["error:" + type(exc).__name__]
        try:
            env = canon_conf(g.environmentForNode(n), inst)
            env.pop("FLOW_RUN_ID", None)
        except Exception as exc:  # noqa
            env = {"error": type(exc).__name__}
        nodes[n] = {"conf": conf, "refs": refs, "env": env}
    gr = g.graph
    live = sorted([a, b] for a, b in gr.edges())
    edges = live
    if rebuilt_edges:
        ng = g._createCompleteGraph(inherit_graph=g)
        edges = sorted([a, b] for a, b in ng.edges())
    try:
        folders = sorted(set(g.configuration.top_level_folders))
    except Exception as exc:  # noqa
        folders = ["error:" + type(exc).__name__]
    return {"nodes": nodes, "edges": edges, "live_edges": live, "folders": folders, "views": variable_views(exp)}


def canon_vars(d):
    """a variables dictionary ({name: value} or {'global': {...}, 'stages': {index: {...}}}) with values as text (the
    type of a value that went through a YAML file is not compared) and keys as strings"""
    if isinstance(d, dict):
        return {str(k): canon_vars(v) for k, v in sorted(d.items(), key=lambda kv: str(kv[0]))}
    return var_text(d) if not isinstance(d, float) else "float:%r" % d


def variable_views(exp):
    """the variable views of the configuration object that tools and the interface hooks consume: the user-supplied
    variables (empty sections dropped) and the global variables with / without the user-supplied ones layered on top"""
    conf = exp.configuration
    out = {}
    try:
        uv = canon_vars(conf.get_user_variables())
        uv = {"global": uv.get("global") or {}, "stages": {k: v for k, v in (uv.get("stages") or {}).items() if v}}
        out["user"] = uv
    except Exception as exc:  # noqa
        out["user"] = {"error": type(exc).__name__}
    for key, flag in (("global+user", True), ("global", False)):
        try:
            out[key] = canon_vars(conf.get_global_variables(include_user_variables=flag))
        except Exception as exc:  # noqa
            out[key] = {"error": type(exc).__name__}
    return out


def canon_flowir(doc):
    """parsed flowir_instance.yaml with the (set-ordered) component list sorted"""
    d = json.loads(json.dumps(doc, sort_keys=True, default=str))
    comps = d.get("components") or []
    d["components"] = sorted(comps, key=lambda c: (c.get("stage", 0), c.get("name", "")))
    return d


def flat_paths(d, prefix=""):
    out = {}
    for k, v in d.items():
        p = prefix + str(k)
        if isinstance(v, dict):
            if v:
                out.update(flat_paths(v, p + "."))
        else:
            out[p] = v
    return out


def diff_paths(a, b):
    fa, fb = flat_paths(a), flat_paths(b)
    return sorted(k for k in set(fa) | set(fb) if json.dumps(fa.get(k, "<absent>"), sort_keys=True, default=str)
                  != json.dumps(fb.get(k, "<absent>"), sort_keys=True, default=str))


def _write_files(d, files):
    os.makedirs(d, exist_ok=True)
    for f in files:
        with open(os.path.join(d, f), "w") as fh:
            fh.write("content of %s\n" % f)


def build_package(case, tmp):
    """writes the package of the case under tmp; returns (location, manifest or None, input file paths)"""
    import yaml
    layout = case.get("layout", "dir")
    folders = case.get("folders") or []
    ext = os.path.join(tmp, "ext")
    manifest = None
    if layout == "dir":
        pkg = os.path.join(tmp, "p.package")
        os.makedirs(os.path.join(pkg, "conf"))
        with open(os.path.join(pkg, "conf", "flowir_package.yaml"), "w") as fh:
            yaml.safe_dump(case["main"], fh)
        if case["dowhile"]:
            with open(os.path.join(pkg, "conf", "dowhile.yaml"), "w") as fh:
                yaml.safe_dump(case["dowhile"], fh)
        entries = list(folders)
        if case.get("datafiles"):
            entries.append({"target": "data", "method": case.get("data_method", "copy"), "files": case["datafiles"]})
        for i, f in enumerate(entries):
            dst = os.path.join(pkg, f["target"])
            if f["method"] == "copy":
                _write_files(dst, f["files"])
            else:
                src = os.path.join(ext, "e%d" % i)
                _write_files(src, f["files"])
                os.symlink(src, dst)
        location = pkg
        appdir = tmp
    else:
        proj = os.path.join(tmp, "project")
        os.makedirs(proj)
        location = os.path.join(proj, "workflow.yaml")
        with open(location, "w") as fh:
            yaml.safe_dump(case["main"], fh)
        manifest = {}
        if case["dowhile"]:
            os.makedirs(os.path.join(proj, "confsrc"))
            with open(os.path.join(proj, "confsrc", "dowhile.yaml"), "w") as fh:
                yaml.safe_dump(case["dowhile"], fh)
            manifest["conf"] = "confsrc:copy"
            # the package loader resolves `$import` next to the FlowIR file, the instance loader in conf/
            shutil.copy(os.path.join(proj, "confsrc", "dowhile.yaml"), os.path.join(proj, "dowhile.yaml"))
        entries = list(folders)
        if case.get("datafiles"):
            entries.append({"target": "data", "method": case.get("data_method", "copy"), "files": case["datafiles"]})
        for i, f in enumerate(entries):
            # sources are relative to the FlowIR file, or absolute
            if i % 2:
                src = os.path.join(ext, "e%d" % i)
                spec = src
            else:
                src = os.path.join(proj, "src%d" % i)
                spec = "src%d" % i
            _write_files(src, f["files"])
            manifest[f["target"]] = "%s:%s" % (spec, f["method"]) if (f["method"] == "link" or i % 3) else spec
        appdir = proj
    for a in case.get("appdeps") or []:
        _write_files(os.path.join(appdir, "%s.application" % a), ["bin.sh"])
    inputs = []
    for f in case.get("inputs") or []:
        _write_files(os.path.join(tmp, "inputs"), [f])
        inputs.append(os.path.join(tmp, "inputs", f))
    return location, manifest, inputs


UPDATING = ("same", "none")          # loads that may update the instance files (experimentFromInstance)
NAMING = ("same", "restart")         # loads that name the platform of the instance


def case_steps(case):
    """the history after the creation of the instance: `{"op": "load", "how": h}` with h = same
    (experimentFromInstance(dir, platform)), none (experimentFromInstance(dir): ewrap/etest/ememo/einspect), restart
    (Experiment(dir, platform, is_instance=True, updateInstanceConfiguration=False): `elaunch --restart` on the same
    platform) or inspect (the same read-only load without a platform: the database front-end), and `{"op": "iterate"}`
    (the object obtained last instantiates the next DoWhile iteration the way the controller does)"""
    if case.get("history") is not None:
        return case["history"]
    reloads = case.get("reloads") or ["same"] * case["cycles"]
    return [{"op": "load", "how": r} for r in reloads]


def load_instance(inst, platform, how):
    import experiment.model.data as D
    import experiment.model.storage as S
    if how == "same":
        return D.Experiment.experimentFromInstance(inst, platform=platform)
    if how == "none":
        return D.Experiment.experimentFromInstance(inst)
    if how == "restart":
        # scripts/elaunch.py --restart when the platform is the one the instance already uses
        d = S.ExperimentInstanceDirectory(inst, ignoreExisting=True)
        return D.Experiment(d, platform=platform, is_instance=True, updateInstanceConfiguration=False)
    if how == "inspect":
        # experiment.service.db: addExperimentAtLocation(location) / the read-only tools
        d = S.ExperimentInstanceDirectory(inst)
        return D.Experiment(d, platform=None, is_instance=True, updateInstanceConfiguration=False)
    raise ValueError(how)


def writer_ids(exp):
    """[stage, name] of every component of the description the object holds (`_unreplicated`: what it stores), sorted,
    duplicates kept"""
    return sorted([int(c.get("stage", 0)), str(c.get("name"))]
                  for c in exp.configuration._unreplicated.raw().get("components") or [])


def unrep_components(exp):
    return {(int(c.get("stage", 0)), c["name"]): c for c in exp.configuration._unreplicated.raw().get("components") or []}


def next_iteration(exp, number):
    """what Controller does when the condition of a DoWhile asks for another iteration; returns the raw components
    that were added to the unreplicated description"""
    import copy
    import experiment.model.frontends.flowir as F
    g = exp.experimentGraph
    dw = list(g._documents[F.FlowIR.LabelDoWhile].values())[0]["document"]
    had = set(unrep_components(exp))
    g.instantiate_dowhile_next_iteration(dw, number, True)
    now = unrep_components(exp)
    return [copy.deepcopy(now[k]) for k in now if k not in had]


def run_impl(case, tmp):
    """returns dict(status, before, refs[], loads[], stored[], new_comps{}, unrep_raw, error)"""
    _quiet()
    import yaml
    import experiment.model.data as D
    import experiment.model.storage as S
    import experiment.model.frontends.flowir as F
    out = {"status": "ok"}
    vfiles = []
    for i, uv in enumerate(case["uservars"]):
        p = os.path.join(tmp, "uv%d.yaml" % i)
        with open(p, "w") as fh:
            yaml.safe_dump(uv, fh)
        vfiles.append(p)
    platform = case["platform"]
    steps = case_steps(case)
    cwd = os.getcwd()
    try:
        try:
            location, manifest, inputs = build_package(case, tmp)
            ep = S.ExperimentPackage.packageFromLocation(location, manifest=manifest, platform=platform)
            exp = D.Experiment.experimentFromPackage(ep, location=tmp, variable_files=vfiles or None, platform=platform,
                                                     inputs=inputs or None)
            exp.validateExperiment(checkExecutables=False)
        except Exception as exc:  # noqa
            out["status"] = "package-rejected"
            out["error"] = "%s: %s" % (type(exc).__name__, str(exc)[:300])
            return out
        inst = exp.instanceDirectory.location
        g = exp.experimentGraph
        out["manifest"] = manifest
        try:
            out["appdeps_platform"] = list(g._concrete.get_application_dependencies())
        except Exception:  # noqa
            out["appdeps_platform"] = []
        iteration = 0
        for _ in range(case["iterations"]):
            iteration += 1
            next_iteration(exp, iteration)
        # the never-reloaded CONTROL: the same package, the same user variables and inputs, the same iterations - all of
        # them instantiated by the object that created the instance (what happens when the experiment is not restarted)
        ctl = None
        if any(st["op"] == "iterate" for st in steps) and not case["patches"]:
            try:
                croot = os.path.join(tmp, "control")
                os.makedirs(croot)
                ep2 = S.ExperimentPackage.packageFromLocation(location, manifest=manifest, platform=platform)
                ctl = D.Experiment.experimentFromPackage(ep2, location=croot, variable_files=vfiles or None,
                                                         platform=platform, inputs=inputs or None)
                ctl.validateExperiment(checkExecutables=False)
                for i in range(case["iterations"]):
                    next_iteration(ctl, i + 1)
                out["control"] = {}
            except Exception as exc:  # noqa
                out["control_error"] = "%s: %s" % (type(exc).__name__, str(exc)[:300])
                ctl = None
        for p in case["patches"]:
            try:
                g.setOptionForNode(p["node"], p["key"], p["value"])
            except Exception as exc:  # noqa
                # (the experiment has no node of that name: nothing is patched, the other clauses are still checked)
                out["patch_error"] = "%s: %s" % (type(exc).__name__, str(exc)[:200])
        if case.get("explicit_store", True):
            exp.configuration.store_unreplicated_flowir_to_disk()
        out["unrep_raw"] = exp.configuration._unreplicated.raw()
        out["before"] = snapshot(exp, inst, rebuilt_edges=iteration > 0)
        out["refs"] = [out["before"]]
        fpath = os.path.join(inst, "conf", "flowir_instance.yaml")
        out["stored"] = [open(fpath, "rb").read()]
        out["holder_ids"] = [writer_ids(exp)]
        out["listing"] = [listing_of(inst)]
        out["loads"] = []
        out["new_comps"] = {}
        cur = exp
        for k, st in enumerate(steps):
            if st["op"] == "iterate":
                iteration += 1
                try:
                    out["new_comps"][k] = next_iteration(cur, iteration)
                except Exception as exc:  # noqa
                    # (the object that created the instance iterated in the prefix, outside this loop, or is `exp`)
                    out["status"] = "iterate-raises" if cur is not exp else "package-rejected"
                    out["error"] = "%s: %s" % (type(exc).__name__, str(exc)[:300])
                    out["failed_step"] = k
                    return out
                out["refs"].append(snapshot(cur, inst, rebuilt_edges=True))
                out["stored"].append(open(fpath, "rb").read())
                out["holder_ids"].append(writer_ids(cur))
                if ctl is not None:
                    try:
                        next_iteration(ctl, iteration)
                        out["control"][k] = {"by": "creator" if cur is exp else "loaded", "ref": len(out["refs"]) - 1,
                                             "snap": snapshot(ctl, ctl.instanceDirectory.location, rebuilt_edges=True)}
                    except Exception as exc:  # noqa
                        out["control_error"] = "%s: %s" % (type(exc).__name__, str(exc)[:300])
                        ctl = None
                continue
            how = st["how"]
            out["listing"].append(listing_of(inst))
            try:
                out["implied"] = sorted(F.Manifest.fromDirectory(inst).top_level_folders)
            except Exception as exc:  # noqa
                out["implied"] = "error:" + type(exc).__name__
            try:
                exp2 = load_instance(inst, platform, how)
                exp2.validateExperiment(checkExecutables=False)
            except Exception as exc:  # noqa
                out["status"] = "reload-raises"
                out["error"] = "%s: %s" % (type(exc).__name__, str(exc)[:300])
                out["failed_step"] = k
                return out
            if how in UPDATING:
                # the reload itself re-stores (updateInstanceConfiguration=True); store explicitly as well
                exp2.configuration.store_unreplicated_flowir_to_disk()
            out["loads"].append({"step": k, "how": how, "after": snapshot(exp2, inst), "ref": len(out["refs"]) - 1})
            out["stored"].append(open(fpath, "rb").read())
            out["holder_ids"].append(writer_ids(exp2))
            cur = exp2
        return out
    finally:
        os.chdir(cwd)
        try:
            # the `output` folder of an instance is a link to a shadow directory outside the instance
            shutil.rmtree(exp.instanceDirectory.shadowDir.location, ignore_errors=True)
        except Exception:  # noqa
            pass
        try:
            shutil.rmtree(ctl.instanceDirectory.shadowDir.location, ignore_errors=True)
        except Exception:  # noqa
            pass


def listing_of(inst):
    """[name, kind] of every entry of the instance directory: dir, file, linkdir, linkfile, linkbroken"""
    out = []
    for e in sorted(os.listdir(inst)):
        p = os.path.join(inst, e)
        if os.path.islink(p):
            kind = "linkdir" if os.path.isdir(p) else ("linkfile" if os.path.isfile(p) else "linkbroken")
        else:
            kind = "dir" if os.path.isdir(p) else "file"
        out.append([e, kind])
    return out


# ----------------------------------------------------------------------------------------
# translation raw FlowIR dict <-> model description
# ----------------------------------------------------------------------------------------

class Names:
    def __init__(self):
        self.ids = {"default": 0}
        self.rev = ["default"]

    def id(self, s):
        s = str(s)
        if s not in self.ids:
            self.ids[s] = len(self.rev)
            self.rev.append(s)
        return self.ids[s]


def tmpl_of(names, s):
    out = []
    pos = 0
    for m in VARPAT.finditer(s):
        out.extend(ord(c) for c in s[pos:m.start()])
        out.append(-(names.id(m.group(1)) + 1))
        pos = m.end()
    out.extend(ord(c) for c in s[pos:])
    return out


def var_text(v):
    return v if isinstance(v, str) else repr(v)


def opt_text(v):
    return v if isinstance(v, str) else "\x01" + json.dumps(v, sort_keys=True, default=str)


def dict_of(names, d, text):
    return [[names.id(k), tmpl_of(names, text(v))] for k, v in (d or {}).items()]


def layer_of(names, lay, is_bp):
    lay = lay or {}
    if is_bp:
        glob = dict_of(names, flat_paths(_strip_vars(lay.get("global") or {})), opt_text)
        stages = [[int(s), dict_of(names, flat_paths(_strip_vars(d or {})), opt_text)]
                  for s, d in (lay.get("stages") or {}).items()]
    else:
        glob = dict_of(names, lay.get("global") or {}, var_text)
        stages = [[int(s), dict_of(names, d or {}, var_text)] for s, d in (lay.get("stages") or {}).items()]
    return {"glob": glob, "stages": stages}


def _strip_vars(d):
    return {k: v for k, v in d.items() if k not in ("variables", "override", "stage", "name")}


def comp_of(names, c):
    is_doc = "$import" in c
    ovr = []
    for p, o in (c.get("override") or {}).items():
        o = o or {}
        ovr.append({"plat": names.id(p), "opts": dict_of(names, flat_paths(_strip_vars(o)), opt_text),
                    "vars": dict_of(names, o.get("variables") or {}, var_text)})
    return {"stage": int(c.get("stage", 0)), "name": names.id(c["name"]), "isDoc": is_doc,
            "opts": dict_of(names, flat_paths(_strip_vars(c)), opt_text),
            "vars": dict_of(names, c.get("variables") or {}, var_text), "ovr": ovr}


def doc_of(names, raw):
    variables = raw.get("variables") or {}
    bps = raw.get("blueprint") or {}
    return {"vars": [[names.id(p), layer_of(names, lay, False)] for p, lay in variables.items()],
            "bps": [[names.id(p), layer_of(names, lay, True)] for p, lay in bps.items()],
            "comps": [comp_of(names, c) for c in raw.get("components") or []]}


def text_of(names, t):
    return "".join(chr(c) if c >= 0 else "%%(%s)s" % names.rev[-c - 1] for c in t)


def dec_dict(names, d):
    return {names.rev[k]: text_of(names, t) for k, t in d}


def dec_layer(names, lay):
    st = {}
    for s, d in lay["stages"]:
        st.setdefault(str(s), dec_dict(names, d))  # first entry wins (as `find?` in the model)
    return {"glob": dec_dict(names, lay["glob"]), "stages": st}


def dec_doc(names, doc):
    """canonical, order-free view of a model description"""
    out = {"vars": {}, "bps": {}, "comps": {}}
    for key in ("vars", "bps"):
        for p, lay in doc[key]:
            out[key].setdefault(names.rev[p], dec_layer(names, lay))
    for c in doc["comps"]:
        cid = "stage%d.%s" % (c["stage"], names.rev[c["name"]])
        out["comps"][cid] = {"isDoc": c["isDoc"], "opts": dec_dict(names, c["opts"]), "vars": dec_dict(names, c["vars"]),
                             "ovr": {names.rev[o["plat"]]: {"opts": dec_dict(names, o["opts"]),
                                                            "vars": dec_dict(names, o["vars"])} for o in c["ovr"]}}
    return out


def dec_resolved(names, rs):
    return {"stage%d.%s" % (r["stage"], names.rev[r["name"]]): {"opts": dec_dict(names, r["opts"]),
                                                               "vars": dec_dict(names, r["vars"])} for r in rs}


# ----------------------------------------------------------------------------------------
# one case
# ----------------------------------------------------------------------------------------

def patched_paths(case):
    """node -> configuration paths that a lost patch of that node explains: the patched option path, or the
    patched variable and (only if the component's own command line interpolates that variable) command.arguments"""
    out = {}
    comps = {"stage%d.%s" % (c.get("stage", 0), c["name"]): c for c in case["main"]["components"]}
    for p in case["patches"]:
        out.setdefault(p["node"], set())
        if p["key"].startswith("#"):
            out[p["node"]].add(p["key"][1:])
        else:
            out[p["node"]].add("variables." + p["key"])
            args = ((comps.get(p["node"]) or {}).get("command") or {}).get("arguments") or ""
            if "%%(%s)s" % p["key"] in str(args):
                out[p["node"]].add("command.arguments")
    return out


def classify_patch_lost(what, case, detail):
    """known finding C07-setoption-patch-lost: the case applied a setOptionForNode patch before storing and
    every configuration path that differs after the reload is the patched path of the patched node (for a
    variable patch: that variable, or the command line that may interpolate it)."""
    if what != "configuration-differs-after-reload" or not case.get("patches"):
        return False
    pp = patched_paths(case)
    diffs = (detail or {}).get("diffs") or {}
    if not diffs:
        return False
    for node, paths in diffs.items():
        if node not in pp:
            return False
        if not set(paths) <= pp[node]:
            return False
    return True


def classify_platformless_restore(what, case, detail):
    """known finding C07-platformless-restore-forgets-platform: the instance was created for a platform P other than
    `default` and a load that does not name the platform stored it again (for `default`).  Accepted shapes only:
    (a) that cycle changed the stored description in exactly this way: `platforms` lost P and components lost their
    raw `override` key - nothing else; (b) a later load that names P raises Unknown platform "P"."""
    plat = case.get("platform")
    if not plat or plat == "default":
        return False
    detail = detail or {}
    if what == "stored-description-changed-by-load-and-store":
        if detail.get("reload") != "none":
            return False
        if not set(detail.get("top_keys") or ["?"]) <= {"platforms", "components"}:
            return False
        pb, pa = detail.get("platforms") or [None, None]
        if pa != ["default"] or sorted(pb or []) != sorted(["default", plat]):
            return False
        ck = detail.get("component_keys")
        if ck is None or detail.get("component_set_changed"):
            return False
        for _cid, keys in ck.items():
            if keys != ["override"]:
                return False
        return not detail.get("override_left_after")
    if what == "reload-raises":
        return (detail.get("reload") in NAMING and "none" in (detail.get("earlier_reloads") or [])
                and 'Unknown platform "%s"' % plat in str(detail.get("error")))
    return False


CLASSIFIERS = {"c07_setoption_patch_before_store": classify_patch_lost,
               "c07_platformless_restore_forgets_platform": classify_platformless_restore}


def stored_change_detail(a, b):
    """what differs between two parsed stored descriptions (component lists sorted)"""
    top = sorted(k for k in set(a) | set(b) if a.get(k) != b.get(k))
    ca = {"stage%s.%s" % (c.get("stage", 0), c.get("name")): c for c in a.get("components") or []}
    cb = {"stage%s.%s" % (c.get("stage", 0), c.get("name")): c for c in b.get("components") or []}
    ck = {}
    for cid in sorted(set(ca) & set(cb)):
        ks = sorted(k for k in set(ca[cid]) | set(cb[cid]) if ca[cid].get(k) != cb[cid].get(k))
        if ks:
            ck[cid] = ks
    return {"top_keys": top, "component_keys": ck, "component_set_changed": sorted(set(ca) ^ set(cb)),
            "platforms": [a.get("platforms"), b.get("platforms")],
            "override_left_after": sorted(cid for cid in ck if "override" in cb[cid]),
            "paths": diff_paths({"d": {k: a.get(k) for k in top if k != "components"}},
                                {"d": {k: b.get(k) for k in top if k != "components"}})[:12]}


def raw_refs(case):
    """[stage, reference string] for every reference a component of the package declares"""
    out = []
    for c in plain_components(case):
        for r in c.get("references") or []:
            out.append([int(c.get("stage", 0)), r])
    return out


def conf_views(mres, snap):
    """model `Resolved` list and the snapshot of the real experiment, restricted to what the model covers: the
    variables and the options without data references, of the nodes that are not replicas"""
    impl_view, model_view = {}, {}
    for cid, r in mres.items():
        nd = snap["nodes"].get(cid)
        if nd is None or "error" in nd["conf"]:
            continue
        conf = nd["conf"]
        impl_vars = {k: var_text(v) for k, v in (conf.get("variables") or {}).items()}
        fp = flat_paths({k: v for k, v in conf.items() if k not in ("variables", "name", "stage")})
        mo, io = {}, {}
        for path, val in r["opts"].items():
            if path.startswith("references") or ":" in val or path.startswith("override"):
                continue
            mo[path] = val
            iv = fp.get(path)
            if isinstance(iv, str) and iv.startswith("float:"):
                iv = float(iv[6:])      # canon_conf spells floats `float:<repr>`; the model holds the YAML value
            io[path] = opt_text(iv) if path in fp else "<absent>"
        model_view[cid] = {"vars": r["vars"], "opts": mo}
        impl_view[cid] = {"vars": impl_vars, "opts": io}
    return model_view, impl_view


def list_option_tags(case):
    """which explicit list values the package holds, and whether an explicitly EMPTY one sits over a non-empty
    inherited value (blueprint of the default or the selected platform, the component under its override, or the
    built-in [ResourceExhausted] of restartHookOn)"""
    tags = set()
    main = case["main"]
    bps = main.get("blueprint") or {}

    def at(d, path):
        for k in path:
            if not isinstance(d, dict) or k not in d:
                return None
            d = d[k]
        return d
    for path, truthy, falsy in FALSY_OPTIONS:
        inh = at(((bps.get("default") or {}).get("global") or {}), path)
        for c in main["components"]:
            own = at(c, path)
            if own is not None and own == falsy and type(own) is type(falsy) and inh is not None and inh != falsy:
                tags.add("scalar-option:explicit-falsy-over-truthy")

    def lists_of(d):
        out = {}
        for a, b in set(LIST_OPTIONS):
            v = ((d or {}).get(a) or {}).get(b)
            if isinstance(v, list):
                out[(a, b)] = v
        return out
    inherited = {}
    for p in ("default", case["platform"]):
        for lay in [(bps.get(p) or {}).get("global")] + list(((bps.get(p) or {}).get("stages") or {}).values()):
            for o, v in lists_of(lay).items():
                tags.add("list-option:blueprint-" + ("empty" if not v else "non-empty"))
                if v:
                    inherited[o] = True
    inherited[("workflowAttributes", "restartHookOn")] = True
    comps = [c for c in main["components"] if "$import" not in c] + list((case.get("dowhile") or {}).get("components") or [])
    for c in comps:
        own = lists_of(c)
        for o, v in own.items():
            tags.add("list-option:component-" + ("empty" if not v else "non-empty"))
            if not v and inherited.get(o):
                tags.add("list-option:explicit-empty-over-non-empty")
        for p, ov in (c.get("override") or {}).items():
            for o, v in lists_of(ov).items():
                tags.add("list-option:override-" + ("empty" if not v else "non-empty"))
                if not v and p == case["platform"] and (inherited.get(o) or own.get(o)):
                    tags.add("list-option:explicit-empty-over-non-empty")
    return tags


def check_case(ctx, case, tmp_root, record=None):
    import yaml
    tmp = tempfile.mkdtemp(prefix="case-", dir=tmp_root)
    try:
        out = run_impl(case, tmp)
    finally:
        shutil.rmtree(tmp, ignore_errors=True)
    if record is not None:
        record.append(digest(out))
    comps = case["main"]["components"]
    steps = case_steps(case)
    hows = [st["how"] for st in steps if st["op"] == "load"]
    later_iterations = sum(1 for st in steps if st["op"] == "iterate")
    nondefault = case["platform"] != "default"
    tags = ["platform:" + ("default" if case["platform"] == "default" else "non-default"),
            "iterations:%d" % case["iterations"], "cycles:%d" % len(hows),
            "iterations-after-a-load:%d" % later_iterations,
            "uservar-files:%d" % len(case["uservars"]), "impl:" + out["status"],
            "loop" if case["dowhile"] else "no-loop",
            "patched" if case["patches"] else "unpatched",
            "replication" if any((c.get("workflowAttributes") or {}).get("replicate") for c in comps) else "no-replication",
            "override" if any("override" in c for c in comps) else "no-override",
            "layout:" + case.get("layout", "dir"),
            "reloads:" + ("all-" + hows[0] if len(set(hows)) == 1 else "mixed"),
            "explicit-store-after-creation" if case.get("explicit_store", True) else "no-explicit-store-after-creation",
            "environments" if case["main"].get("environments") else "no-environments"]
    tags += sorted("load:" + h for h in set(hows))
    for a, b in zip(steps, steps[1:]):
        if a["op"] == "load" and b["op"] == "iterate":
            tags.append("iterate-after-load:" + a["how"])
    tags += sorted(list_option_tags(case))
    stages_of = {}
    for c in comps:
        stages_of.setdefault(c["name"], set()).add(int(c.get("stage", 0)))
    shared = [nm for nm, ss in stages_of.items() if len(ss) > 1]
    tags.append("component-name-shared-by-stages:%d" % min(len(shared), 2))
    if any(nm in ("add", "stop") for nm in stages_of) and case["dowhile"]:
        tags.append("component-named-like-a-loop-component")
    if any(r.rsplit(":", 1)[0] in shared for c in comps for r in c.get("references") or []):
        tags.append("bare-reference-to-a-name-shared-by-stages")
    if nondefault:
        # the shape the stored description folded wrongly before fix 1b655bb: one option path set by the default
        # blueprint of a stage and by the global blueprint of the selected platform
        bps_ = case["main"].get("blueprint") or {}
        pg = set(flat_paths((bps_.get(case["platform"]) or {}).get("global") or {}))
        for _s, d_ in ((bps_.get("default") or {}).get("stages") or {}).items():
            if pg & set(flat_paths(d_ or {})):
                tags.append("blueprint:default-stage-and-platform-global-set-the-same-path")
                break
    if nondefault and ("none" in hows or "inspect" in hows):
        tags.append("platformless-reload-of-non-default-platform-instance")
        if any("variables" in (o or {}) for c in comps for o in (c.get("override") or {}).values()):
            tags.append("platformless-reload-with-override-variables")
    for f in case.get("folders") or []:
        tags.append("folder:%s%s" % (f["method"], "-nested" if "/" in f["target"] else ""))
    if case.get("appdeps"):
        tags.append("application-dependencies")
    if case.get("inputs"):
        tags.append("input-files")
    if case.get("datafiles"):
        tags.append("data-files:" + case.get("data_method", "copy"))
    ndirect = sum(1 for _st, r in raw_refs(case) if "/" in r.rsplit(":", 1)[0] or
                  r.rsplit(":", 1)[0] in [f["target"] for f in case.get("folders") or []] + [a.lower() for a in case.get("appdeps") or []])
    if ndirect:
        tags.append("references-into-folders")
    nontrivial = out["status"] == "ok" and len(comps) >= 2
    ctx.case(case, nontrivial=nontrivial, tags=tags)
    if out["status"] == "package-rejected":
        return  # the generated package is not a valid experiment: nothing to reload
    before = out["before"]
    loads = out["loads"]
    # ---- oracle ------------------------------------------------------------------------
    if out["status"] == "iterate-raises":
        # the object obtained by the last load cannot go on with the loop the experiment it replaces was running
        k = out["failed_step"]
        ctx.fail("loaded-experiment-cannot-instantiate-next-iteration", case,
                 {"error": out["error"], "step": k, "iteration": case["iterations"] + sum(
                     1 for st in steps[:k + 1] if st["op"] == "iterate"),
                  "loaded_by": [st["how"] for st in steps[:k] if st["op"] == "load"][-1:]})
    if out["status"] == "reload-raises":
        k = out["failed_step"]
        nth = sum(1 for st in steps[:k + 1] if st["op"] == "load")
        ctx.fail("reload-raises", case, {"error": out["error"], "cycle": nth, "step": k, "reload": steps[k]["how"],
                                         "earlier_reloads": [st["how"] for st in steps[:k] if st["op"] == "load"]})
    for i, ld in enumerate(loads):
        after, ref, how = ld["after"], out["refs"][ld["ref"]], ld["how"]
        where = {"cycle": i + 1, "step": ld["step"], "reload": how,
                 "iterations_since_creation": sum(1 for st in steps[:ld["step"]] if st["op"] == "iterate")}
        if sorted(after["nodes"]) != sorted(ref["nodes"]):
            ctx.fail("component-set-differs-after-reload", case,
                     dict(where, only_before=sorted(set(ref["nodes"]) - set(after["nodes"])),
                          only_after=sorted(set(after["nodes"]) - set(ref["nodes"]))))
            continue
        # the raw `override` block that configurationForNode echoes is description, not resolved configuration:
        # it is compared as long as every load named the platform; a platform-less load of an instance of another
        # platform stores for `default`, which drops the block (reported through the stored description below)
        # (a read-only platform-less load does not store, but the object itself is loaded for `default` and echoes
        # no block either)
        strict = not (nondefault and ("none" in hows[:i + 1] or how == "inspect"))
        diffs = {}
        rdiffs = {}
        ediffs = {}
        for n in ref["nodes"]:
            cb, ca = ref["nodes"][n]["conf"], after["nodes"][n]["conf"]
            if not strict:
                cb = {k: v for k, v in cb.items() if k != "override"}
                ca = {k: v for k, v in ca.items() if k != "override"}
            if cb != ca:
                diffs[n] = diff_paths(cb, ca)
            if ref["nodes"][n]["refs"] != after["nodes"][n]["refs"]:
                rdiffs[n] = [ref["nodes"][n]["refs"], after["nodes"][n]["refs"]]
            if ref["nodes"][n]["env"] != after["nodes"][n]["env"]:
                ediffs[n] = {p: [flat_paths(ref["nodes"][n]["env"]).get(p, "<absent>"),
                                 flat_paths(after["nodes"][n]["env"]).get(p, "<absent>")]
                             for p in diff_paths(ref["nodes"][n]["env"], after["nodes"][n]["env"])[:6]}
        if diffs and classify_patch_lost("configuration-differs-after-reload", case, {"diffs": diffs}) \
                and ctx.extra.get("patch_lost_recorded", 0) >= 60:
            # keep the failure list (capped at 200 by the context) free for anything else
            ctx.tag("patch-lost-seen-again-not-recorded")
        elif diffs:
            if classify_patch_lost("configuration-differs-after-reload", case, {"diffs": diffs}):
                ctx.extra["patch_lost_recorded"] = ctx.extra.get("patch_lost_recorded", 0) + 1
            n0 = sorted(diffs)[0]
            bconf, aconf = ref["nodes"][n0]["conf"], after["nodes"][n0]["conf"]
            ctx.fail("configuration-differs-after-reload", case,
                     dict(where, diffs=diffs,
                          example={"node": n0, "paths": {p: [flat_paths(bconf).get(p, "<absent>"),
                                                             flat_paths(aconf).get(p, "<absent>")]
                                                         for p in diffs[n0][:6]}}))
        if ediffs and not case["patches"]:
            ctx.fail("environment-differs-after-reload", case, dict(where, diffs=ediffs))
        if rdiffs:
            ctx.fail("data-references-differ-after-reload", case, dict(where, diffs=rdiffs))
        if ref["edges"] != after["edges"]:
            ctx.fail("dataflow-edges-differ-after-reload", case,
                     dict(where, only_before=[e for e in ref["edges"] if e not in after["edges"]][:10],
                          only_after=[e for e in after["edges"] if e not in ref["edges"]][:10]))
        if ref["live_edges"] != ref["edges"]:
            ctx.tag("live-graph-keeps-edges-of-earlier-iterations")
        # "including user-supplied variables": the variable views of the loaded object (what tools and the interface
        # hooks read: get_user_variables(), get_global_variables()) are those of the object that drove the instance
        vb, va = ref.get("views") or {}, after.get("views") or {}
        if vb.get("user") != va.get("user"):
            ctx.fail("user-supplied-variables-differ-after-reload", case,
                     dict(where, before=vb.get("user"), after=va.get("user")))
        gd = {k: {n: [(vb.get(k) or {}).get(n, "<absent>"), (va.get(k) or {}).get(n, "<absent>")]
                  for n in sorted(set(vb.get(k) or {}) | set(va.get(k) or {}))
                  if (vb.get(k) or {}).get(n, "<absent>") != (va.get(k) or {}).get(n, "<absent>")}
              for k in ("global+user", "global")}
        gd = {k: v for k, v in gd.items() if v}
        if gd:
            ctx.fail("global-variables-differ-after-reload", case, dict(where, diffs=gd))
    # iterations instantiated AFTER a load, by the loaded object, against the never-reloaded control (the same package and
    # the same iterations, all by the object that created the instance): a reloaded instance is the same experiment,
    # so it continues the loop with the same components, configurations, environments, references and edges
    for k, cd in sorted((out.get("control") or {}).items()):
        if cd["by"] != "loaded":
            continue
        ctx.tag("iteration-after-load-compared-with-never-reloaded-control")
        det = control_diffs(out["refs"][cd["ref"]], cd["snap"])
        if det:
            det.update({"step": k, "iteration": case["iterations"] + sum(1 for st in steps[:k + 1] if st["op"] == "iterate"),
                        "loaded_by": [st["how"] for st in steps[:k] if st["op"] == "load"]})
            ctx.fail("iteration-after-reload-differs-from-never-reloaded-experiment", case, det)
    if out.get("control_error"):
        ctx.tag("control-experiment-failed")
    if out.get("patch_error"):
        ctx.tag("patch-not-applicable")
    parsed = [canon_flowir(yaml.safe_load(b)) for b in out["stored"]]
    # "the same set of components": the description on disk lists, by (stage, name), exactly the components of the
    # description held by the object that wrote it last (creator, iterating object, updating load) or that was loaded
    # from it (read-only load) - a component is identified by its stage AND its name
    for i, (doc_i, held) in enumerate(zip(parsed, out.get("holder_ids") or [])):
        on_disk = sorted([int(c.get("stage", 0)), str(c.get("name"))] for c in doc_i.get("components") or [])
        if on_disk != held:
            ctx.fail("stored-description-lists-other-components-than-the-experiment-that-holds-it", case,
                     {"after_step": i - 1, "step": (steps[i - 1] if i else "creation"),
                      "only_in_memory": [x for x in held if x not in on_disk],
                      "only_on_disk": [x for x in on_disk if x not in held],
                      "stored": len(on_disk), "in_memory": len(held)})
            break
    nload = 0
    for i in range(1, len(parsed)):
        st = steps[i - 1]
        if st["op"] != "load":
            continue        # an iteration legitimately changes the stored description
        nload += 1
        # every load (+ store) is compared with the description it loaded
        if parsed[i] != parsed[i - 1]:
            det = stored_change_detail(parsed[i - 1], parsed[i])
            det.update({"cycle": nload, "step": i - 1, "reload": st["how"]})
            ctx.fail("stored-description-changed-by-load-and-store", case, det)
        else:
            ctx.tag("stored-bytes-identical" if out["stored"][i] == out["stored"][i - 1]
                    else "stored-bytes-differ-only-in-order")
    if out["status"] in ("reload-raises", "iterate-raises"):
        return
    # user variables: the last file that defines a name wins and is visible (through the stage scope) everywhere
    if case["uservars"] and loads and not case["patches"]:
        final = {}
        for uv in case["uservars"]:
            final.update(uv.get("global") or {})
        after = loads[-1]["after"]
        for n, nd in after["nodes"].items():
            vs = (nd["conf"] or {}).get("variables") or {}
            st = nd["conf"].get("stage")
            own = {}
            for c in comps:
                if "stage%s.%s" % (c.get("stage", 0), c["name"]) == n or (
                        n.split(".", 1)[0] == "stage%s" % c.get("stage", 0)
                        and re.fullmatch(re.escape(c["name"]) + r"\d+", n.split(".", 1)[1])):
                    own = dict(c.get("variables") or {})
                    for o in (c.get("override") or {}).values():
                        own.update((o or {}).get("variables") or {})
            stage_user = {}
            for uv in case["uservars"]:
                stage_user.update((uv.get("stages") or {}).get(st) or {})
            for k, v in final.items():
                if k in own or k in stage_user or "#" in n:
                    continue
                if isinstance(v, str) and "%(" in v:
                    continue
                if k not in vs or str(vs[k]) != str(v):
                    ctx.fail("user-variable-lost-after-reload", case, {"node": n, "variable": k, "expected": v,
                                                                         "got": vs.get(k, "<absent>")})
    # loop instances: everything instantiated so far, by whichever object, is in the experiment loaded last
    if (case["iterations"] or later_iterations) and loads:
        want = {n for n in out["refs"][-1]["nodes"] if "#" in n}
        got = {n for n in loads[-1]["after"]["nodes"] if "#" in n}
        ctx.tag("loop-instances:%d" % len(want))
        if want != got and steps[-1]["op"] == "load":
            ctx.fail("loop-instances-differ-after-reload", case, {"before": sorted(want), "after": sorted(got)})
    # ---- model ---------------------------------------------------------------------------
    if ctx.driver is None:
        return
    names = Names()
    doc = doc_of(names, out["unrep_raw"])
    mpatches = []
    for p in case["patches"]:
        st, nm = p["node"].split(".", 1)
        isvar = not p["key"].startswith("#")
        mpatches.append({"stage": int(st[5:]), "name": names.id(nm), "isVar": isvar,
                         "key": names.id(p["key"] if isvar else p["key"][1:]),
                         "value": tmpl_of(names, var_text(p["value"]) if isvar else opt_text(p["value"]))})
    stored_docs = [doc_of(names, yaml.safe_load(b)) for b in out["stored"]]
    pid = names.id(case["platform"])
    req = {"op": "cycle", "N": FUEL, "P": pid, "doc": doc, "patches": mpatches}
    # the session: one model step per real step (+ the explicit store the harness does after an updating load)
    msteps, owner = [], []
    for k, st in enumerate(steps):
        if st["op"] == "iterate":
            msteps.append({"iterate": [comp_of(names, c) for c in out["new_comps"].get(k, [])]})
            owner.append(k)
        else:
            msteps.append({"load": pid if st["how"] in NAMING else 0, "update": st["how"] in UPDATING})
            owner.append(k)
            if st["how"] in UPDATING:
                msteps.append({"store": True})
                owner.append(k)
    hreq = {"op": "session", "N": FUEL, "P": pid, "doc": doc, "steps": msteps}
    dreq = dir_request(names, case, out)
    m, h, d = ctx.model([req, hreq, dreq])
    ctx.tag("model:resolves" if m["resolves"] else "model:not-resolved")
    ctx.tag("model:resolvesFully" if h["resolvesFully"] else "model:not-resolvedFully")
    ctx.tag("model:every-state-of-the-session-resolves" if h["allResolve"] else "model:some-state-not-resolved")
    light = case
    ctx.compare("stored flowir_instance.yaml == Instance.flatten(_unreplicated)", light,
                dec_doc(names, m["stored"]), dec_doc(names, stored_docs[0]))
    ctx.compare("model: store(reload(store E)) == store E", light,
                dec_doc(names, m["stored_again"]), dec_doc(names, m["stored"]))
    if not case["patches"]:
        ctx.compare("model: runningConfig(reload E) == runningConfig E", light,
                    dec_resolved(names, m["after"]), dec_resolved(names, m["before"]))
        mv, iv = conf_views(dec_resolved(names, m["before"]), before)
        ctx.compare("configurationForNode (non-replica nodes) == Instance.resolveComp", light, mv, iv)
        # the session: iterations and loads, each load naming the platform or not, updating the files or not
        last_of = {}
        for j, k in enumerate(owner):
            last_of[k] = j
        nl = 0
        iterated = False
        for k, st in enumerate(steps):
            j = last_of[k]
            real_done = k + 1 < len(out["stored"])
            if st["op"] == "iterate":
                iterated = True
                if j >= len(h["steps"]) or not real_done:
                    break
                ctx.compare("stored flowir_instance.yaml after an iteration == model session (store of the object "
                            "that iterated)", light, dec_doc(names, h["steps"][j]["stored"]),
                            dec_doc(names, stored_docs[k + 1]))
                cd = (out.get("control") or {}).get(k)
                ms = h["steps"][j]
                if cd is not None and cd["by"] == "loaded" and ms.get("byLoaded"):
                    det = control_diffs(out["refs"][cd["ref"]], cd["snap"])
                    impl_same = not (det.get("configuration") or det.get("only_reloaded") or det.get("only_control"))
                    ctx.tag("model:newCompsOk" if ms["newCompsOk"] else "model:new-components-outside-bpClosed")
                    if ms["newCompsOk"] or ms["sameAsControl"] == impl_same:
                        # (outside the hypotheses the model may tell raw from interpolated blueprint values that
                        # resolve alike; inside them new_component_after_reload_partial says `true`)
                        ctx.compare("model: the components a loaded experiment stores for a new iteration are those of the "
                                    "never-reloaded control (Instance.sameComp) == same configurations in the real "
                                    "experiments", light, ms["sameAsControl"], impl_same)
                    else:
                        ctx.tag("model: sameComp outside the hypotheses not comparable with resolved configurations")
                continue
            jl = j - 1 if st["how"] in UPDATING else j
            if jl >= len(h["steps"]):
                break
            cyc = h["steps"][jl]
            ctx.compare("model: loadable(stored platforms, named platform) == the real load is accepted", light,
                        cyc["loadable"], real_done)
            if not (cyc["loadable"] and real_done):
                break
            ctx.compare("stored flowir_instance.yaml after cycle k == model session (store for the named platform; "
                        "unchanged by a read-only load)", light,
                        dec_doc(names, h["steps"][j]["stored"]), dec_doc(names, stored_docs[k + 1]))
            mv, iv = conf_views(dec_resolved(names, cyc["after"]), loads[nl]["after"])
            ctx.compare("configurationForNode after cycle k (non-replica nodes) == model session", light, mv, iv)
            if m["resolves"] and h["resolvesFully"] and not iterated:
                ctx.compare("model: runningConfig after every load of the history == runningConfig E", light,
                            dec_resolved(names, cyc["after"]), dec_resolved(names, h["before"]))
            if m["resolves"] and nondefault and "none" in hows[:nl + 1] and not iterated:
                ctx.compare("model: stored after a platform-less cycle == dropOvr(store E)", light,
                            dec_doc(names, h["steps"][j]["stored"]), dec_doc(names, h["dropOvr"]))
            nl += 1
    # the instance directory
    if d is not None:
        check_dir(ctx, case, out, names, d)


def control_diffs(got, want):
    """differences between the snapshot of a reloaded experiment that instantiated an iteration (`got`) and the one of the
    never-reloaded control after the same iteration (`want`); {} when they are the same experiment"""
    det = {}
    if sorted(got["nodes"]) != sorted(want["nodes"]):
        det["only_reloaded"] = sorted(set(got["nodes"]) - set(want["nodes"]))
        det["only_control"] = sorted(set(want["nodes"]) - set(got["nodes"]))
    conf, env, refs = {}, {}, {}
    for n in sorted(set(got["nodes"]) & set(want["nodes"])):
        a, b = got["nodes"][n], want["nodes"][n]
        if a["conf"] != b["conf"]:
            fa, fb = flat_paths(a["conf"]), flat_paths(b["conf"])
            conf[n] = {p: {"reloaded": fa.get(p, "<absent>"), "control": fb.get(p, "<absent>")}
                       for p in diff_paths(a["conf"], b["conf"])[:8]}
        if a["env"] != b["env"]:
            fa, fb = flat_paths(a["env"]), flat_paths(b["env"])
            env[n] = {p: {"reloaded": fa.get(p, "<absent>"), "control": fb.get(p, "<absent>")}
                      for p in diff_paths(a["env"], b["env"])[:8]}
        if a["refs"] != b["refs"]:
            refs[n] = {"reloaded": a["refs"], "control": b["refs"]}
    if conf:
        det["configuration"] = conf
    if env:
        det["environment"] = env
    if refs:
        det["references"] = refs
    if got["edges"] != want["edges"]:
        det["edges_only_reloaded"] = [e for e in got["edges"] if e not in want["edges"]][:10]
        det["edges_only_control"] = [e for e in want["edges"] if e not in got["edges"]][:10]
    for key in ("user", "global+user", "global"):
        if (got.get("views") or {}).get(key) != (want.get("views") or {}).get(key):
            det.setdefault("variable_views", {})[key] = {"reloaded": (got.get("views") or {}).get(key),
                                                          "control": (want.get("views") or {}).get(key)}
    return det


def digest(out):
    """what a second run of the same case later in the process must reproduce"""
    import yaml
    if out["status"] == "package-rejected":
        return {"status": out["status"]}
    return json.loads(json.dumps({
        "status": out["status"], "before": out.get("before"),
        "loads": [[ld["how"], ld["after"]] for ld in out.get("loads") or []],
        "stored": [canon_flowir(yaml.safe_load(b)) for b in out.get("stored") or []]}, sort_keys=True, default=str))


def dir_request(names, case, out):
    """request for the instance-directory model: manifest entries, listings at creation / last reload, references"""
    import experiment.model.frontends.flowir as F
    man = []
    for t, spec in (out.get("manifest") or {}).items():
        meth = spec.rsplit(":", 1)[1] if ":" in spec and spec.rsplit(":", 1)[1] in ("copy", "link") else "copy"
        man.append({"top": names.id(t.split("/", 1)[0]), "nested": "/" in t, "method": meth})
    extra = [F.FlowIR.application_dependency_to_name(a) for a in out.get("appdeps_platform") or []] + \
        list(F.FlowIR.SpecialFolders)
    refs = []
    for st, r in raw_refs(case):
        stage_index, producer, _f, _m = F.FlowIR.ParseDataReferenceFull(r, None)
        refs.append({"stage": stage_index, "producer": names.id(producer), "hasSlash": "/" in producer})
    return {"op": "dir", "manifest": man,
            "listing_create": [[names.id(n), k] for n, k in out["listing"][0]],
            "listing_reload": [[names.id(n), k] for n, k in out["listing"][-1]],
            "extra": [names.id(x) for x in extra], "refs": refs}


def check_dir(ctx, case, out, names, d):
    import experiment.model.frontends.flowir as F
    un = lambda l: sorted(set(names.rev[i] for i in l))  # noqa
    if out.get("manifest") is not None:
        # FlowIR file + manifest: what the deployment leaves for each key
        real = {n: k for n, k in out["listing"][0]}
        if d["deployed"] is None:
            ctx.compare("model: deploy(manifest) fails == the package is rejected", case, "deployed-none", "accepted")
        else:
            ctx.compare("instance directory entries created for the manifest keys == InstanceDir.deploy", case,
                        {names.rev[n]: k for n, k in d["deployed"]},
                        {names.rev[n]: real.get(names.rev[n], "<absent>") for n, _k in d["deployed"]})
    ctx.compare("top_level_folders of the creating experiment == manifest keys + implied folders", case,
                un(d["folders_create_own"]), out["before"]["folders"])
    if out["loads"]:
        ctx.compare("top_level_folders of the reloaded experiment == InstanceDir.implied(listing)", case,
                    un(d["implied_reload"]), out["loads"][-1]["after"]["folders"])
    if isinstance(out.get("implied"), list):
        ctx.compare("Manifest.fromDirectory(instance).top_level_folders == InstanceDir.implied(listing)", case,
                    un(d["implied_reload"]), out["implied"])
    # the reading of every declared reference, by the creating and by the reloaded experiment
    extra = [F.FlowIR.application_dependency_to_name(a) for a in out.get("appdeps_platform") or []] + \
        list(F.FlowIR.SpecialFolders)
    rr = raw_refs(case)
    for which, folders in (("direct_create", out["before"]["folders"]),
                           ("direct_reload", out["loads"][-1]["after"]["folders"] if out["loads"] else None)):
        if folders is None:
            continue
        model_view, impl_view = {}, {}
        for (st, r), md in zip(rr, d[which]):
            stage_index, producer, _f, _m = F.FlowIR.ParseDataReferenceFull(r, None)
            if stage_index is not None or F.FlowIR.is_var_reference(producer):
                continue
            same = F.FlowIR.expand_potential_component_reference(r, st, None, list(folders) + extra, False) == r
            model_view["%d %s" % (st, r)] = md
            impl_view["%d %s" % (st, r)] = same
        ctx.compare("expand_potential_component_reference leaves the reference alone == InstanceDir.isDirect (%s)"
                    % which, case, model_view, impl_view)
    if d["direct_create"] != d["direct_reload"]:
        ctx.tag("model: reading of a reference differs between creation and reload")


CORPUS = [
    # DESIGN section 8 #14: maxRestarts patched 2 -> 7 and a new variable, both gone after store + reload
    {"main": {"platforms": ["default"],
              "variables": {"default": {"global": {"v1": "g"}, "stages": {}}},
              "components": [{"name": "src", "stage": 0, "command": {"executable": "echo", "arguments": "x %(v1)s"},
                              "workflowAttributes": {"maxRestarts": 2}}]},
     "dowhile": None, "platform": "default", "uservars": [], "iterations": 0,
     "patches": [{"node": "stage0.src", "key": "#workflowAttributes.maxRestarts", "value": 7},
                 {"node": "stage0.src", "key": "patched", "value": "pv"}],
     "cycles": 1, "reload_platform": "same"},
    # an instance of platform hpc whose component overrides a variable and an option for hpc, loaded the way the
    # tools load it (no platform named), three times
    {"main": {"platforms": ["default", "hpc"],
              "variables": {"default": {"global": {"v1": "1"}, "stages": {}},
                            "hpc": {"global": {"v1": "64"}, "stages": {}}},
              "environments": {"default": {"enva": {"DEFAULTS": "PATH", "FOO": "d"}},
                               "hpc": {"enva": {"DEFAULTS": "PATH", "FOO": "h-%(v1)s"}}},
              "components": [{"name": "src", "stage": 0,
                              "command": {"executable": "echo", "arguments": "--mode %(v2)s --size %(v1)s",
                                          "environment": "enva"},
                              "variables": {"v2": "slow"},
                              "override": {"hpc": {"variables": {"v2": "fast-%(v1)s"},
                                                   "workflowAttributes": {"maxRestarts": 8}}}},
                             {"name": "c0", "stage": 1, "command": {"executable": "echo",
                                                                    "arguments": "stage0.src:ref"},
                              "references": ["stage0.src:ref"]}]},
     "dowhile": None, "platform": "hpc", "uservars": [], "iterations": 0, "patches": [],
     "cycles": 3, "reloads": ["none", "none", "none"], "layout": "dir", "folders": [], "appdeps": [], "inputs": [],
     "datafiles": []},
    # a FlowIR file + manifest: one folder linked, one copied with a linked folder nested in it, data/ linked, an
    # application dependency; references into all of them, with and without a path below the folder
    {"main": {"platforms": ["default"],
              "variables": {"default": {"global": {"v1": "g"}, "stages": {}}},
              "application-dependencies": {"default": ["Solver.application"]},
              "components": [{"name": "src", "stage": 0,
                              "command": {"executable": "cat", "arguments": "refdata:ref shared/deep:ref solver:ref"},
                              "references": ["refdata/params.txt:copy", "shared/a.dat:link", "shared/deep/n.txt:ref",
                                             "data/d0.txt:copy", "input/in0.csv:ref", "solver/bin.sh:ref"]},
                             {"name": "c0", "stage": 1,
                              "command": {"executable": "echo", "arguments": "stage0.src:output refdata:ref"},
                              "references": ["stage0.src:output", "refdata:ref"]}]},
     "dowhile": None, "platform": "default", "uservars": [], "iterations": 0, "patches": [],
     "cycles": 2, "reloads": ["none", "same"], "layout": "file",
     "folders": [{"target": "refdata", "method": "link", "files": ["params.txt"]},
                 {"target": "shared", "method": "copy", "files": ["a.dat"]},
                 {"target": "shared/deep", "method": "link", "files": ["n.txt"]}],
     "appdeps": ["Solver"], "inputs": ["in0.csv"], "datafiles": ["d0.txt"], "data_method": "link"},
    # an instance of platform hpc with a loop: iteration 1 by the creating experiment, then loaded the way
    # `elaunch --restart` loads it (read-only), the restarted experiment instantiates iterations 2 and 3, a second
    # restart instantiates iteration 4, then the directory is loaded by a tool (load + store)
    {"main": {"platforms": ["default", "hpc"],
              "variables": {"default": {"global": {"v1": "1", "v3": "t-%(v1)s"}, "stages": {0: {"v2": "s0"}}},
                            "hpc": {"global": {"v1": "64"}, "stages": {}}},
              "components": [{"name": "src", "stage": 0, "command": {"executable": "echo", "arguments": "%(v2)s %(v3)s"}},
                             {"name": "gen", "stage": 0, "command": {"executable": "echo", "arguments": "%(replica)s src:ref"},
                              "references": ["src:ref"], "workflowAttributes": {"replicate": 2}},
                             {"name": "loop", "stage": 1, "$import": "dowhile.yaml",
                              "bindings": {"number": "stage0.src:output"}},
                             {"name": "report", "stage": 2,
                              "command": {"executable": "echo", "arguments": "stage1.add:output stage0.gen:ref"},
                              "references": ["stage1.add:output", "stage0.gen:ref"],
                              "workflowAttributes": {"aggregate": True}}]},
     "dowhile": {"type": "DoWhile", "inputBindings": {"number": {"type": "output"}},
                 "loopBindings": {"number": "stop:output"}, "condition": "stop:output",
                 "components": [{"name": "add", "command": {"executable": "echo",
                                                            "arguments": "number:output %(loopIteration)s %(v3)s"},
                                 "references": ["number:output"], "variables": {"v5": "loopvar"}},
                                {"name": "stop", "command": {"executable": "echo", "arguments": "add:output"},
                                 "references": ["add:output"]}]},
     "platform": "hpc", "uservars": [{"global": {"v1": "7"}}], "iterations": 1, "patches": [], "explicit_store": False,
     "cycles": 3, "reloads": ["restart", "restart", "same"],
     "history": [{"op": "load", "how": "restart"}, {"op": "iterate"}, {"op": "iterate"},
                 {"op": "load", "how": "restart"}, {"op": "iterate"}, {"op": "load", "how": "same"}],
     "layout": "dir", "folders": [], "appdeps": [], "inputs": [], "datafiles": []},
    # (repaired in /repo, fix 1b655bb: the stored stage blueprint used to drop the platform-global blueprint below the
    # default-stage one) resourceRequest.numberThreads is set by the default blueprint of the stage of the loop (2) and by
    # the global blueprint of platform hpc (4): the iteration a restarted experiment instantiates must answer 4, and
    # everything else the loop inherits (environment, walltime) must survive the restart too
    {"main": {"platforms": ["default", "hpc"],
              "variables": {"default": {"global": {"v1": "1"}, "stages": {}}, "hpc": {"global": {"v1": "64"}, "stages": {}}},
              "environments": {"default": {"loopenv": {"DEFAULTS": "PATH", "OMP_NUM_THREADS": "2"}}},
              "blueprint": {"default": {"global": {"command": {"environment": "loopenv"}},
                                        "stages": {1: {"resourceRequest": {"numberThreads": 2}}}},
                            "hpc": {"global": {"resourceRequest": {"numberThreads": 4},
                                               "resourceManager": {"config": {"walltime": 45.0}}}}},
              "components": [{"name": "src", "stage": 0, "command": {"executable": "echo", "arguments": "%(v1)s"}},
                             {"name": "loop", "stage": 1, "$import": "dowhile.yaml",
                              "bindings": {"number": "stage0.src:output"}},
                             {"name": "report", "stage": 2,
                              "command": {"executable": "echo", "arguments": "stage1.add:output"},
                              "references": ["stage1.add:output"]}]},
     "dowhile": {"type": "DoWhile", "inputBindings": {"number": {"type": "output"}},
                 "loopBindings": {"number": "stop:output"}, "condition": "stop:output",
                 "components": [{"name": "add", "command": {"executable": "echo",
                                                            "arguments": "number:output %(loopIteration)s %(v1)s"},
                                 "references": ["number:output"]},
                                {"name": "stop", "command": {"executable": "echo", "arguments": "add:output"},
                                 "references": ["add:output"]}]},
     "platform": "hpc", "uservars": [{"global": {"v1": "7"}, "stages": {1: {"v2": "u"}}}], "iterations": 1, "patches": [],
     "explicit_store": False, "cycles": 2, "reloads": ["restart", "same"],
     "history": [{"op": "load", "how": "restart"}, {"op": "iterate"}, {"op": "load", "how": "same"}],
     "layout": "dir", "folders": [], "appdeps": [], "inputs": [], "datafiles": []},
    # one component name in three stages with three roles (a component is identified by (stage, name)): stage0.src is
    # replicated, stage1.src consumes it and aggregates, stage2.src consumes stage1.src; neighbours reference the
    # namesake of their own stage by its bare name; per-stage variables and an override tell the three apart; loaded
    # by a tool (load + store), by a restart and by a tool again
    {"main": {"platforms": ["default", "hpc"],
              "variables": {"default": {"global": {"v1": "g"}, "stages": {0: {"v2": "s0"}, 1: {"v2": "s1"}, 2: {"v2": "s2"}}},
                            "hpc": {"global": {"v1": "h"}, "stages": {1: {"v2": "h1"}}}},
              "components": [{"name": "prep", "stage": 0, "command": {"executable": "echo", "arguments": "%(v1)s"}},
                             {"name": "src", "stage": 0,
                              "command": {"executable": "echo", "arguments": "%(v2)s %(replica)s prep:ref"},
                              "references": ["prep:ref"], "workflowAttributes": {"replicate": 2}},
                             {"name": "src", "stage": 1,
                              "command": {"executable": "cat", "arguments": "%(v2)s stage0.src:ref stage0.prep:ref"},
                              "references": ["stage0.src:ref", "stage0.prep:ref"],
                              "workflowAttributes": {"aggregate": True, "maxRestarts": 2},
                              "override": {"hpc": {"workflowAttributes": {"maxRestarts": 7}}}},
                             {"name": "prep", "stage": 1, "command": {"executable": "echo", "arguments": "src:output"},
                              "references": ["src:output"], "variables": {"v2": "own"}},
                             {"name": "src", "stage": 2,
                              "command": {"executable": "ls", "arguments": "%(v2)s stage1.src:ref"},
                              "references": ["stage1.src:ref"]},
                             {"name": "use", "stage": 2, "command": {"executable": "echo", "arguments": "src:ref"},
                              "references": ["src:ref"]}]},
     "dowhile": None, "platform": "hpc", "uservars": [{"global": {"v1": "u"}}], "iterations": 0, "patches": [],
     "explicit_store": False, "cycles": 3, "reloads": ["same", "restart", "same"],
     "layout": "dir", "folders": [], "appdeps": [], "inputs": [], "datafiles": []},
]


def run(ctx):
    ctx.rule = ("case = generated package (1-3 platforms, global/stage variable layers per platform with acyclic "
                "%(ref)s values, blueprints, list-valued options (restartHookOn, shutdownOn, executors.pre/post) in "
                "blueprints / components / per-platform overrides / DoWhile components incl. explicitly EMPTY lists over a "
                "non-empty inherited or built-in list, named environments per platform, component variables and per-platform "
                "overrides, replicate/aggregate, in ~55% of the multi-stage packages 1-2 component names shared by 2-3 stages "
                "(namesakes with different roles, consumed across stages and by bare name inside a stage, names of loop "
                "components included), 0-2 user variable files, optional DoWhile document advanced 0-3 "
                "(thorough: up to 5) iterations, optional setOptionForNode patch; package directory or FlowIR file + "
                "manifest with copied/linked/nested folders, data/ and input/ files, application dependencies, and "
                "references into them) + selected platform + a history of 1-4 loads (experimentFromInstance naming the "
                "platform / not naming it, the read-only load of `elaunch --restart`, the read-only platform-less load of "
                "the database front-end) with, for packages with a loop, 0-2 further iterations instantiated after a load "
                "by the object that load returned (the creating experiment stores explicitly once more in 40% of the cases "
                "only), each compared with a never-reloaded control experiment that instantiates the same iterations; 80% of "
                "the packages with a loop (30% of the others) give components non-default settings through default/platform "
                "global/stage blueprints (command.environment, resourceRequest, resourceManager options, workflowAttributes); the first 6 (thorough 25) cases and the corpus are repeated at the end of the run in reverse order; "
                "non-trivial = the real Experiment loads and has >= 2 components; distinct by canonical JSON of the case")
    ctx.assumptions = [
        "variable values at global/stage scope reference only variables visible at that scope (otherwise "
        "instance() keeps the whole value raw instead of resolving it partially: not modelled); no array accesses",
        "edges of the running experiment are taken from _createCompleteGraph(inherit_graph) when loop iterations "
        "were instantiated (the live graph keeps edges of earlier iterations by design)",
        "reference strings in `references` are compared in absolute spelling (stageN.name:method)",
        "component order in conf/flowir_instance.yaml comes from a Python set: stored descriptions are compared "
        "after parsing, with the component list sorted by (stage, name)",
        "the raw `override` block echoed by configurationForNode is compared only while every load named the "
        "platform (it is description, not resolved configuration; its loss on a platform-less store is reported "
        "through the stored description: known finding C07-platformless-restore-forgets-platform)",
        "FLOW_RUN_ID (a fresh uuid per Experiment object) is removed from the compared environments",
        "the instance directory only grows between creation and reload (nothing is removed or replaced)",
        "iterations after a load are instantiated only by objects that named the platform of the instance (same / "
        "restart loads; any load when the platform is `default`): the platform-less loads are the tools, which do not run loops",
        "blueprint values that components inherit through the generated `inherited settings` are literals (the stored "
        "description keeps blueprints interpolated in the global / stage scope: model hypothesis bpClosed)",
        "no fault is injected into a store (C07 does not quantify over faults: atomicity of the re-store is C14's subject)",
    ]
    ctx.trusted.append("C07: PyYAML dump/load is the identity on the generated values (str, int, bool, list, dict); "
                       "FlowIR.apply_replicate is a function of the flattened description (not modelled)")
    ctx.classifiers = CLASSIFIERS
    quick = ctx.tier == "quick"
    n = 120 if quick else 600
    root = tempfile.mkdtemp(prefix="c07-")
    again = []      # (case, digest of its first run): repeated at the end, in reverse order, after all other cases
    try:
        for case in CORPUS:
            rec = []
            check_case(ctx, case, root, record=rec)
            again.append((case, rec[0]))
        cdir = os.path.join(os.path.dirname(os.path.dirname(os.path.abspath(__file__))), "corpus", "C07")
        if os.path.isdir(cdir):
            for fn in sorted(os.listdir(cdir)):
                if fn.endswith(".json"):
                    check_case(ctx, fix_keys(json.load(open(os.path.join(cdir, fn)))), root)
        for i in range(n):
            case = gen_case(ctx.rng, ctx.tier)
            rec = [] if i < (6 if quick else 25) else None
            check_case(ctx, case, root, record=rec)
            if rec:
                again.append((case, rec[0]))
        # family: state shared between independent loads in one process (module-level caches, class attributes):
        # the generated packages reuse the same component, variable, folder and platform names with different roles;
        # the first cases are driven again after all the others, in reverse order, and must give the same answers
        for case, first in reversed(again):
            tmp = tempfile.mkdtemp(prefix="again-", dir=root)
            try:
                second = digest(run_impl(case, tmp))
            finally:
                shutil.rmtree(tmp, ignore_errors=True)
            ctx.tag("repeated-later-in-the-process")
            if second != first:
                ctx.fail("result-depends-on-earlier-cases", case,
                         {"differs": sorted(k for k in set(first) | set(second) if first.get(k) != second.get(k)),
                          "status": [first.get("status"), second.get("status")]})
    finally:
        shutil.rmtree(root, ignore_errors=True)


def fix_keys(x, under_stages=False):
    """JSON turned the integer stage keys of a case into strings: undo"""
    if isinstance(x, dict):
        return {(int(k) if under_stages and isinstance(k, str) and k.isdigit() else k): fix_keys(v, k == "stages")
                for k, v in x.items()}
    if isinstance(x, list):
        return [fix_keys(v) for v in x]
    return x


def replay(ctx, doc):
    ctx.classifiers = CLASSIFIERS
    case = fix_keys(doc.get("input") or doc["no_longer_checks"][-1]["input"])
    if "main" not in case:
        raise ValueError("replay of a correspondence disagreement needs the generating case; rerun with the seed")
    root = tempfile.mkdtemp(prefix="c07-")
    try:
        check_case(ctx, case, root)
    finally:
        shutil.rmtree(root, ignore_errors=True)
