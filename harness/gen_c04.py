"""Constants of C04 regenerated from flowir.py on every run (DESIGN 3.2):

  * `defaultComponent`  - FlowIR.default_component_structure() (the "built-in defaults" layer)
  * `typeTable`         - `expected_types` of FlowIR.convert_component_types
  * `qosLevels`, `strToBoolTable`

The sources are read with `ast` (never imported).  Anything the translator does not understand
raises, which turns Gen/C04.lean into a build error on purpose.
"""
from __future__ import annotations

import ast

from harness import genconst as G

TARGET = "C04"

TY = {"str": ".str", "int": ".int", "bool": ".bool", "float": ".float", "dict": ".dict",
      "str_to_bool": ".strToBool", "optional_int": ".optInt", "memory_to_bytes": ".memory",
      "str_to_kubernetes_qos": ".qos", "to_bool": ".toBool"}

# The local converter `to_bool` of convert_component_types is modelled by `Ty.toBool` (strings through
# str_to_bool, anything else through bool()).  The extractor accepts the name only while the function's body
# is literally this one; any other body makes the constant extraction fail (=> broken build => search).
TO_BOOL_BODY = ("If(test=Call(func=Name(id='isinstance', ctx=Load()), args=[Name(id='value', ctx=Load()), "
                "Name(id='string_types', ctx=Load())], keywords=[]), body=[Return(value=Call(func=Name(id='str_to_bool', "
                "ctx=Load()), args=[Name(id='value', ctx=Load())], keywords=[]))], orelse=[])|"
                "Return(value=Call(func=Name(id='bool', ctx=Load()), args=[Name(id='value', ctx=Load())], keywords=[]))")


def _check_local_converters(conv_fn):
    for node in ast.walk(conv_fn):
        if isinstance(node, ast.FunctionDef) and node.name == "to_bool":
            body = [st for st in node.body if not (isinstance(st, ast.Expr) and isinstance(st.value, ast.Constant))]
            got = "|".join(ast.dump(st) for st in body)
            if got != TO_BOOL_BODY:
                raise ValueError("local converter to_bool has an unexpected body: %s" % got[:300])


def _s(x):
    return G.lean_str(x) + ".toList"


def _exit_reasons():
    return G.module_assign(G.parse("model/codes.py"), "exitReasons")


def val(node):
    if isinstance(node, ast.Constant):
        v = node.value
        if v is None:
            return ".null"
        if isinstance(v, bool):
            return "(.bool %s)" % ("true" if v else "false")
        if isinstance(v, int):
            return "(.int %s)" % G.lean_int(v)
        if isinstance(v, float):
            return "(.flt %s)" % _s(repr(v))
        if isinstance(v, str):
            return "(.str %s)" % _s(v)
    if isinstance(node, ast.UnaryOp) and isinstance(node.op, ast.USub):
        return val(ast.Constant(-ast.literal_eval(node.operand)))
    if isinstance(node, ast.List):
        return "(.list [%s])" % ", ".join(val(e) for e in node.elts)
    if isinstance(node, ast.Dict):
        return "(.dict [%s])" % ", ".join("(%s, %s)" % (_s(ast.literal_eval(k)), val(v))
                                           for k, v in zip(node.keys, node.values))
    if isinstance(node, ast.Subscript) and isinstance(node.value, ast.Attribute) and node.value.attr == "exitReasons":
        return val(ast.Constant(_exit_reasons()[ast.literal_eval(node.slice)]))
    raise ValueError("default_component_structure: cannot translate %s" % ast.dump(node)[:200])


def ty(node):
    if isinstance(node, ast.Dict):
        return "(.node [%s])" % ", ".join("(%s, %s)" % (_s(ast.literal_eval(k)), ty(v))
                                           for k, v in zip(node.keys, node.values))
    name = node.id if isinstance(node, ast.Name) else node.attr if isinstance(node, ast.Attribute) else None
    if name in TY:
        return "(.leaf %s)" % TY[name]
    raise ValueError("expected_types: unknown converter %s" % ast.dump(node)[:200])


def py_table():
    """the same table as a Python structure (used by harness/c04.py for its generator and oracle)"""
    tree = G.parse("model/frontends/flowir.py")
    fn = G.find_function(tree, "FlowIR", "convert_component_types")

    def conv(node):
        if isinstance(node, ast.Dict):
            return {ast.literal_eval(k): conv(v) for k, v in zip(node.keys, node.values)}
        return node.id if isinstance(node, ast.Name) else node.attr
    for node in ast.walk(fn):
        if isinstance(node, ast.Assign) and any(isinstance(t, ast.Name) and t.id == "expected_types" for t in node.targets):
            return conv(node.value)
    raise KeyError("expected_types")


def generate():
    tree = G.parse("model/frontends/flowir.py")
    fn = G.find_function(tree, "FlowIR", "default_component_structure")
    ret = [n for n in ast.walk(fn) if isinstance(n, ast.Return)][0].value
    conv = G.find_function(tree, "FlowIR", "convert_component_types")
    table = None
    for node in ast.walk(conv):
        if isinstance(node, ast.Assign) and any(isinstance(t, ast.Name) and t.id == "expected_types" for t in node.targets):
            table = node.value
    if table is None:
        raise KeyError("expected_types")
    _check_local_converters(conv)
    qos = None
    for node in ast.walk(tree):
        if isinstance(node, ast.Assign) and isinstance(node.targets[0], ast.Tuple) and \
                [getattr(e, "id", None) for e in node.targets[0].elts][:1] == ["LabelKubernetesQosGuaranteed"]:
            qos = list(ast.literal_eval(node.value))
    if qos is None:
        raise KeyError("LabelKubernetesQos*")
    s2b = None
    for node in tree.body:
        if isinstance(node, ast.FunctionDef) and node.name == "str_to_bool":
            for d in ast.walk(node):
                if isinstance(d, ast.Dict):
                    s2b = ast.literal_eval(d)
    if s2b is None:
        raise KeyError("str_to_bool")
    src = ["import St4sd.Model.TreeTypes", "namespace St4sd.Gen.C04", "open St4sd.Tree", "",
           "/-- FlowIR.default_component_structure() -/",
           "def defaultComponent : Val := " + val(ret), "",
           "/-- `expected_types` of FlowIR.convert_component_types -/",
           "def typeTable : TyTree := " + ty(table), "",
           "def qosLevels : List St4sd.Str.S := [%s]" % ", ".join(_s(q) for q in qos), "",
           "def strToBoolTable : List (St4sd.Str.S × Bool) := [%s]" % ", ".join(
               "(%s, %s)" % (_s(k), "true" if v else "false") for k, v in s2b.items()), "",
           "end St4sd.Gen.C04", ""]
    return {"C04": "\n".join(src)}
