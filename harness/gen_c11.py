"""C11 — translator: component option schema and type-conversion table, /repo source -> Lean + Python.

Reads (with `ast`, nothing is imported) from python/experiment/model/frontends/flowir.py

  * FlowIR.type_flowir_component.generate_blueprint: the dict literal `ret = {...}` that is the schema of
    the options of a component (keys `key('x')` / `ValidateOptional('x')`, values: types, constants,
    predicates, ValidateOr(...), ValidateMany(...), nested dicts, list schemas);
  * FlowIR.convert_component_types: the dict literal `expected_types = {...}` (conversion applied to the
    options before they are validated);
  * python/experiment/model/codes.py exitReasons (the `*restart_hook_on` alternatives).

`schema()` returns the JSON-able tree used by harness/c11.py to enumerate "every option of the schema";
`generate()` renders the same tree as `St4sd.Gen.C11.componentSchema : Schema` (+ `convTable`).

Schema tree nodes (JSON):  {"k":"dict","e":[[key, optional, node],...]} | {"k":"many","of":node} |
{"k":"or","of":[node,...]} | {"k":"list","of":[node,...]} | {"k":"ty","t":[tags]} | {"k":"none"} |
{"k":"const","v":str} | {"k":"pred","p":name}
"""
from __future__ import annotations

import ast

from harness import genconst

TARGET = "C11"

TYPE_TAGS = {"bool": ["bool"], "int": ["int"], "float": ["float"], "str": ["str"], "string_types": ["str"],
             "dict": ["dict"], "list": ["list"]}
# predicates the Lean model knows (Model/ValSchema.lean `Pred`); anything else makes the Gen file fail to build
KNOWN_PREDS = {"is_var_reference": "isVarReference", "_validate_restart_hook_file": "restartHookFile",
               "max_restarts_int": "maxRestartsInt", "is_dictionary_or_none": "dictOrNone",
               "str_to_kubernetes_qos": "kubernetesQos", "_schema_memory": "schemaMemory"}
KNOWN_CONV = {"str": "str", "int": "int", "bool": "bool", "to_bool": "toBool", "float": "float", "str_to_bool": "strToBool",
              "optional_int": "optionalInt", "memory_to_bytes": "memoryToBytes",
              "str_to_kubernetes_qos": "kubernetesQos", "dict": "dict"}


def _name_of(node):
    if isinstance(node, ast.Name):
        return node.id
    if isinstance(node, ast.Attribute):
        return node.attr
    return None


class Translator:
    def __init__(self, restart_hook_on):
        self.restart_hook_on = restart_hook_on

    def key(self, node):
        """-> (key string, optional?)"""
        if isinstance(node, ast.Call) and _name_of(node.func) in ("key", "ValidateOptional") and len(node.args) == 1 \
                and isinstance(node.args[0], ast.Constant) and isinstance(node.args[0].value, str):
            return node.args[0].value, _name_of(node.func) == "ValidateOptional"
        if isinstance(node, ast.Constant) and isinstance(node.value, str):
            return node.value, False
        raise ValueError("unsupported schema key %s" % ast.dump(node))

    def value(self, node):
        if isinstance(node, ast.Dict):
            entries = []
            for k, v in zip(node.keys, node.values):
                name, opt = self.key(k)
                entries.append([name, opt, self.value(v)])
            return {"k": "dict", "e": entries}
        if isinstance(node, ast.List):
            return {"k": "list", "of": [self.value(e) for e in node.elts]}
        if isinstance(node, ast.Constant):
            if node.value is None:
                return {"k": "none"}
            if isinstance(node.value, str):
                return {"k": "const", "v": node.value}
            raise ValueError("unsupported constant %r" % (node.value,))
        if isinstance(node, ast.Call):
            fn = _name_of(node.func)
            if fn == "ValidateOr":
                alts = []
                for a in node.args:
                    if isinstance(a, ast.Starred):
                        if _name_of(a.value) != "restart_hook_on":
                            raise ValueError("unsupported starred %s" % ast.dump(a))
                        alts.extend({"k": "const", "v": r} for r in self.restart_hook_on)
                    else:
                        alts.append(self.value(a))
                return {"k": "or", "of": alts}
            if fn == "ValidateMany":
                return {"k": "many", "of": self.value(node.args[0])}
            if fn == "ValidateOptional":
                return {"k": "opt", "of": self.value(node.args[0])}
            raise ValueError("unsupported call %s" % fn)
        nm = _name_of(node)
        if nm in TYPE_TAGS:
            return {"k": "ty", "t": TYPE_TAGS[nm]}
        if nm is not None:
            return {"k": "pred", "p": nm}
        raise ValueError("unsupported schema value %s" % ast.dump(node))


def _inner_function(fn, name):
    for node in ast.walk(fn):
        if isinstance(node, ast.FunctionDef) and node.name == name:
            return node
    raise KeyError(name)


def _assigned_dict(fn, var):
    for node in ast.walk(fn):
        if isinstance(node, ast.Assign) and any(isinstance(t, ast.Name) and t.id == var for t in node.targets) \
                and isinstance(node.value, ast.Dict):
            return node.value
    raise KeyError(var)


def extract():
    tree = genconst.parse("model/frontends/flowir.py")
    codes = genconst.parse("model/codes.py")
    exit_reasons = list(genconst.module_assign(codes, "exitReasons").keys())
    tfc = genconst.find_function(tree, "FlowIR", "type_flowir_component")
    gb = _inner_function(tfc, "generate_blueprint")
    dont = []
    for node in ast.walk(gb):
        if isinstance(node, ast.Assign) and any(isinstance(t, ast.Name) and t.id == "dont_restart_on" for t in node.targets):
            for sub in ast.walk(node.value):
                if isinstance(sub, ast.Subscript) and isinstance(sub.slice, ast.Constant):
                    dont.append(sub.slice.value)
    restart_hook_on = [r for r in exit_reasons if r not in dont]
    schema = Translator(restart_hook_on).value(_assigned_dict(gb, "ret"))
    cct = genconst.find_function(tree, "FlowIR", "convert_component_types")
    conv = _conv(_assigned_dict(cct, "expected_types"))
    return schema, conv, restart_hook_on


def _conv(node):
    out = []
    for k, v in zip(node.keys, node.values):
        if not (isinstance(k, ast.Constant) and isinstance(k.value, str)):
            raise ValueError("conversion table key")
        if isinstance(v, ast.Dict):
            out.append([k.value, _conv(v)])
        else:
            out.append([k.value, _name_of(v)])
    return out


_cache = {}


def schema():
    """(schema tree, conversion table, restartHookOn alternatives) of the current source."""
    if "v" not in _cache:
        _cache["v"] = extract()
    return _cache["v"]


def paths(node=None, prefix=()):
    """every key path of the schema: [(path tuple, node)] (inner dict keys and leaves)"""
    if node is None:
        node = schema()[0]
    out = []
    if node["k"] == "dict":
        for name, _opt, sub in node["e"]:
            p = prefix + (name,)
            out.append((p, sub))
            out.extend(paths(sub, p))
    return out


# ---------------------------------------------------------------------------------------------------
# Lean rendering
# ---------------------------------------------------------------------------------------------------

def _chars(s):
    return genconst.lean_str(s) + ".toList"


def lean_schema(n, ind=2):
    pad = " " * ind
    k = n["k"]
    if k == "dict":
        rows = [pad + "  (%s, %s, %s)" % (_chars(name), "true" if opt else "false", lean_schema(sub, ind + 4).strip())
                for name, opt, sub in n["e"]]
        return pad + ".dict [\n" + ",\n".join(rows) + "]"
    if k == "many":
        return pad + "(.many %s)" % lean_schema(n["of"], ind + 2).strip()
    if k == "opt":
        return pad + "(.opt %s)" % lean_schema(n["of"], ind + 2).strip()
    if k == "or":
        return pad + "(.or [" + ", ".join(lean_schema(a, ind + 2).strip() for a in n["of"]) + "])"
    if k == "list":
        return pad + "(.many (.or [" + ", ".join(lean_schema(a, ind + 2).strip() for a in n["of"]) + "]))"
    if k == "ty":
        return pad + "(.ty [" + ", ".join(".%s" % t for t in n["t"]) + "])"
    if k == "none":
        return pad + ".null"
    if k == "const":
        return pad + "(.const %s)" % _chars(n["v"])
    if k == "pred":
        if n["p"] not in KNOWN_PREDS:
            raise ValueError("predicate %s of the component schema is unknown to the model" % n["p"])
        return pad + "(.pred .%s)" % KNOWN_PREDS[n["p"]]
    raise ValueError(k)


def lean_conv(rows, ind=2):
    pad = " " * ind
    out = []
    for name, v in rows:
        if isinstance(v, list):
            out.append(pad + "  (%s, .node [\n%s])" % (_chars(name), lean_conv(v, ind + 4)))
        else:
            if v not in KNOWN_CONV:
                raise ValueError("conversion %s unknown to the model" % v)
            out.append(pad + "  (%s, .leaf .%s)" % (_chars(name), KNOWN_CONV[v]))
    return ",\n".join(out)


def generate():
    sch, conv, rho = extract()
    src = ["import St4sd.Model.ValSchema",
           "/-! Component option schema (`FlowIR.type_flowir_component.generate_blueprint`), conversion table",
           "(`FlowIR.convert_component_types.expected_types`) and restartHookOn alternatives, extracted from the source. -/",
           "namespace St4sd.Gen.C11", "open St4sd.ValSchema", "",
           "def componentSchema : Schema :=", lean_schema(sch), "",
           "def convTable : List (List Char × Conv) := [", lean_conv(conv), "]", "",
           "def restartHookOn : List (List Char) := [" + ", ".join(_chars(r) for r in rho) + "]", "",
           "/-- every key path of the schema (inner keys and leaves), in source order -/",
           "def optionPaths : List (List (List Char)) := [",
           ",\n".join("  [" + ", ".join(_chars(x) for x in p) + "]" for p, _ in paths(sch)), "]", "",
           "end St4sd.Gen.C11", ""]
    return {TARGET: "\n".join(src)}


if __name__ == "__main__":
    import json
    s, c, r = extract()
    print(json.dumps(s, indent=1)[:3000])
    print(len(paths(s)), "paths")
