"""C18 — Staging and deployment never write outside their target directory.

Implementation under test (real code, in-process, inside a sandbox tree under a mkdtemp):
  A. experiment.model.data.StageReference(DataReference("data/…:extract|copy|link"), WorkingDirectory, graph)
     — the function Job.stageIn calls for every path reference (data.py 158-237); direct references are
     resolved by a stub root storage (`resolvePath`), everything else is the real code incl. tarfile.
  B. ExperimentPackage.packageFromLocation(<single-file FlowIR>, manifest=dict)  (real Manifest.validate) and
     ExperimentPackage.expandPackageToDirectory(instance_dir)  (storage.py 537-631).
Model: lean/St4sd/Model/Confine.lean via drv-c18 (repaired behaviour).  Theorems: lean/St4sd/Props/C18.lean,
counterexamples of the committed algorithm: lean/St4sd/Witness/C18.lean.

Sandbox (the model calls the root `/S`):
  /S/outside/{victim.txt, dir/keep.txt}           must never change
  /S/instance/data/…                               archives and copy/link sources
  /S/instance/stages/stage0/comp                   working directory of the component (extract/copy/link target)
  /S/instance/stages/stage0/producer/out.txt       working directory of a producer component (link-staged input)
  /S/pkg/{wf.yaml, src1/f, src2/f, file.txt}       package + manifest sources (must never change)
  /S/inst/new.instance                             instance directory (deployment target)
  /S/inst/new.instance-shared, new.instance.bak, new.instance2, new.inst, new
                                                   siblings of the instance directory whose NAME extends it / is a
                                                   prefix of it (a textual prefix test without the separator takes
                                                   them for "beneath"): link sources of manifest entries
  /S/instance/stages/stage0/comp-x, compx, comp.bak, com
                                                   the same next to the working directory: absolute member names
                                                   and link targets of archives
The real root is 9 directories below the mkdtemp so that even the escapes of the committed code stay inside it;
additionally every generated case is first run through the model of *unchecked* extraction (the committed
algorithm; the driver goes on after members that fail, `looseExtract`) and dropped when its write log leaves /S.

Oracle slugs: `extract-writes-outside-working-directory`, `deploy-writes-outside-instance-directory`,
`<op>-raises-<Exc>-instead-of-staging-or-packaging-error`, and `extract-writes-through-staged-link` (archive that
obeys the documented rule, every outside change under the target of a link that link-staging of another input
left in the working directory — known finding C18-extract-through-staged-link, classifier
`c18_extract_through_staged_link`).

Families the extract generator covers (tags `class:…`, `family:…` in the evidence): benign, 11 single-idea
escape templates, random mixes, and link chains (`gen_chain`): links placed through earlier links, hard links to
earlier links, targets through earlier links — the archives on which a check that judges every member on its
own text (e.g. normpath of the link target) is unsound, see Witness/C18.lean `normpath_link_rule_unsound_*`.
`family:textually-confined-link-chain-escapes` counts the generated archives that such a check would accept
(model: `checkNormpath`) and that leave the working directory when extracted unchecked.
"""
from __future__ import annotations

import hashlib
import io
import logging
import os
import shutil
import tarfile
import tempfile
import warnings

from harness import common

PAD = "p1/p2/p3/p4/p5/p6/p7/p8/R"
WD = "instance/stages/stage0/comp"
INST = "inst/new.instance"
PRODUCER = "instance/stages/stage0/producer"
NAMES = ["a", "b", "c", "d", "keep.txt", "sub", "x.txt", "l"]
# siblings whose name has the target's name as a proper prefix (and one that is a proper prefix of it)
SIB_SUFFIXES = ["-x", "x", ".bak"]
WD_SIBLINGS = [WD + s for s in SIB_SUFFIXES] + [WD[:-1]]
INST_SIB_SUFFIXES = ["-shared", ".bak", "2"]
INST_SIBLINGS = [INST + s for s in INST_SIB_SUFFIXES] + ["inst/new.inst", "inst/new"]


# ----------------------------------------------------------------------------------------
# real-code side
# ----------------------------------------------------------------------------------------

_mods = {}


def _imports():
    if not _mods:
        warnings.filterwarnings("ignore")
        import experiment.model.data as D
        import experiment.model.graph as G
        import experiment.model.storage as ST
        import experiment.model.errors as E
        import experiment.model.frontends.flowir as F
        logging.disable(logging.CRITICAL)
        _mods.update(D=D, G=G, ST=ST, E=E, F=F)
    return _mods


class _RootStorage:
    def __init__(self, loc):
        self.loc = loc

    def resolvePath(self, p):
        return os.path.normpath(os.path.join(self.loc, p))


class _Graph:
    """Stub of WorkflowGraph for *direct* references: no component nodes, no placeholders."""

    class graph:
        nodes = {}

    _placeholders = {}

    def __init__(self, loc):
        self.rootStorage = _RootStorage(loc)


class Sandbox:
    def __init__(self, base):
        self.base = base
        self.root = os.path.join(base, PAD)

    def reset(self, pre=()):
        if os.path.lexists(os.path.join(self.base, "p1")):
            shutil.rmtree(os.path.join(self.base, "p1"))
        r = self.root
        for d in ("outside/dir", "instance/data/d1", PRODUCER, WD, "pkg/src1", "pkg/src2", INST):
            os.makedirs(os.path.join(r, d))
        for d in WD_SIBLINGS + INST_SIBLINGS:
            os.makedirs(os.path.join(r, d, "sub"))
            with open(os.path.join(r, d, "keep.txt"), "w") as fh:
                fh.write("sibling")
        for f, c in (("outside/victim.txt", "victim"), ("outside/dir/keep.txt", "keep"), ("instance/data/f1.txt", "f1"),
                     ("instance/data/d1/f", "d1f"), (PRODUCER + "/out.txt", "out"), ("pkg/src1/f", "s1"), ("pkg/src2/f", "s2"),
                     ("pkg/file.txt", "pf"),
                     ("pkg/wf.yaml", "components:\n- name: c\n  command:\n    executable: ls\n")):
            with open(os.path.join(r, f), "w") as fh:
                fh.write(c)
        for kind, rel, tgt in pre:
            p = os.path.join(r, rel)
            if kind == "dir":
                os.makedirs(p, exist_ok=True)
            elif kind == "file":
                os.makedirs(os.path.dirname(p), exist_ok=True)
                with open(p, "w") as fh:
                    fh.write("pre")
            else:
                os.makedirs(os.path.dirname(p), exist_ok=True)
                os.symlink(self.real(tgt), p)

    def real(self, s):
        """model path (/S/…) or $R-prefixed text -> real text"""
        return s.replace("$R", self.root)

    def canon(self, s):
        return s.replace(self.root, "/S")

    def snapshot(self):
        """recursive listing of the sandbox root: rel -> (kind, link target, size, sha1, mtime_ns, mode)"""
        out = {}
        for d, ds, fs in os.walk(self.root):
            for n in list(ds) + fs:
                p = os.path.join(d, n)
                rel = os.path.relpath(p, self.root)
                st = os.lstat(p)
                if os.path.islink(p):
                    out[rel] = ("link", os.readlink(p), 0, "", st.st_mtime_ns, 0)
                elif os.path.isdir(p):
                    out[rel] = ("dir", "", 0, "", st.st_mtime_ns, st.st_mode & 0o7777)
                else:
                    with open(p, "rb") as fh:
                        h = hashlib.sha1(fh.read()).hexdigest()[:12]
                    out[rel] = ("file", "", st.st_size, h, st.st_mtime_ns, st.st_mode & 0o7777)
        return out


def norm_text(t):
    """the model's parse of a path text: '' and '.' components vanish"""
    ab = t.startswith("/")
    segs = [s for s in t.split("/") if s not in ("", ".")]
    return ("/" if ab else "") + "/".join(segs)


def tree_of(sb, snap):
    rows = [["/S", "dir", ""]]
    for rel, v in snap.items():
        rows.append(["/S/" + rel, v[0], norm_text(sb.canon(v[1])) if v[0] == "link" else ""])
    return sorted(rows)


def fs_rows(sb, snap):
    return [[p, k, t] for p, k, t in tree_of(sb, snap)]


def changed_outside(before, after, inside_rel):
    """paths outside `inside_rel` whose listing entry differs (created, removed or modified)"""
    bad = []
    pre = inside_rel + "/"
    for rel in sorted(set(before) | set(after)):
        if rel == inside_rel or rel.startswith(pre):
            continue
        if before.get(rel) != after.get(rel):
            bad.append([rel, list(before[rel][:4]) if rel in before else None, list(after[rel][:4]) if rel in after else None])
    return bad


def make_tar(path, members, sb):
    with tarfile.open(path, "w") as t:
        for kind, name, tgt in members:
            ti = tarfile.TarInfo(sb.real(name))
            ti.mtime = 1000000000
            if kind == "file":
                data = b"from-archive"
                ti.size = len(data)
                t.addfile(ti, io.BytesIO(data))
            elif kind == "dir":
                ti.type = tarfile.DIRTYPE
                ti.mode = 0o755
                t.addfile(ti)
            elif kind == "sym":
                ti.type = tarfile.SYMTYPE
                ti.linkname = sb.real(tgt)
                t.addfile(ti)
            else:
                ti.type = tarfile.LNKTYPE
                ti.linkname = sb.real(tgt)
                t.addfile(ti)


def classify_stage_exc(exc):
    M = _imports()
    if isinstance(exc, M["E"].DataReferenceCouldNotStageError):
        return "rejected" if "outside of destination" in str(exc) else "os"
    if isinstance(exc, M["E"].DataReferenceFilesDoNotExistError):
        return "missing"
    if isinstance(exc, KeyError) and "linkname" in str(exc):
        return "linkMissing"
    return "other:" + type(exc).__name__


def prepare(sb, case):
    """initial state of a staging case: the sandbox, the pre-existing entries of the working directory and, for
    `staged`, the inputs of the SAME component that were staged before the archive — done by the real
    StageReference (`data/d1:link` leaves the absolute link WD/d1 -> <instance>/data/d1, `:copy` a copy)."""
    M = _imports()
    sb.reset(case.get("pre", ()))
    for ref in case.get("staged", ()):
        M["D"].StageReference(M["G"].DataReference(ref), M["ST"].WorkingDirectory(os.path.join(sb.root, WD)),
                              _Graph(os.path.join(sb.root, "instance")))


def impl_stage(sb, case):
    """runs the real StageReference; returns (result, before, after)"""
    M = _imports()
    prepare(sb, case)
    r = sb.root
    if case["op"] == "extract":
        make_tar(os.path.join(r, "instance/data/a.tar"), case["members"], sb)
        ref = "data/a.tar:extract"
    else:
        ref = case["ref"]
    before = sb.snapshot()
    try:
        dref = M["G"].DataReference(ref)
        loc = M["ST"].WorkingDirectory(os.path.join(r, WD))
        M["D"].StageReference(dref, loc, _Graph(os.path.join(r, "instance")))
        res = "ok"
    except Exception as exc:  # noqa
        res = classify_stage_exc(exc)
    after = sb.snapshot()
    return res, before, after


def classify_deploy_exc(exc):
    M = _imports()
    E = M["E"]
    txt = str(exc)
    if isinstance(exc, (E.FlowIRManifestException,)):
        return "rejected"
    if isinstance(exc, E.ExperimentInvalidConfigurationError):
        return "rejected"   # the FlowIR itself is valid by construction: only the manifest can be refused
    if isinstance(exc, ValueError) and "Manifest" in txt:
        return "rejected"
    if isinstance(exc, (E.PackageCreateError, E.InstanceCreateError)):
        return "os"
    return "other:" + type(exc).__name__


def impl_deploy(sb, case):
    M = _imports()
    ST = M["ST"]
    sb.reset(())
    r = sb.root
    yml = os.path.join(r, "pkg/wf.yaml")
    manifest = {sb.real(k): sb.real(v) for k, v in case["entries"]}
    before = sb.snapshot()
    cwd = os.getcwd()
    try:
        if case["validate"]:
            pkg = ST.ExperimentPackage.packageFromLocation(yml, manifest=dict(manifest))
        else:
            base = ST.ExperimentPackage.packageFromLocation(yml, manifest=None)
            pkg = ST.ExperimentPackage(base.configuration, dict(manifest))
        pkg.expandPackageToDirectory(os.path.join(r, INST))
        res = "ok"
    except Exception as exc:  # noqa
        res = classify_deploy_exc(exc)
    finally:
        os.chdir(cwd)
    after = sb.snapshot()
    return res, before, after


# ----------------------------------------------------------------------------------------
# model requests
# ----------------------------------------------------------------------------------------

def model_request(case, fs, fixed=True):
    if case["op"] == "extract":
        return {"op": "extract", "fixed": fixed, "dest": "/S/" + WD, "fs": fs,
                "members": [[k, n.replace("$R", "/S"), t.replace("$R", "/S")] for k, n, t in case["members"]]}
    if case["op"] == "deploy":
        ents = []
        for k, v in case["entries"]:
            src, _, meth = v.rpartition(":")
            if meth not in ("copy", "link") or not src:
                src, meth = v, "copy"
            src = src.replace("$R", "/S")
            if not src.startswith("/"):
                src = "/S/pkg/" + src
            ents.append([k.replace("$R", "/S"), src, meth])
        return {"op": "deploy", "fixed": fixed, "validate": case["validate"], "target": "/S/" + INST, "fs": fs,
                "entries": ents, "confIsKey": any(k == "conf" for k, _ in case["entries"])}
    ref, _, meth = case["ref"].rpartition(":")
    # the reference text the modelled branch receives is what the real DataReference resolves to
    M = _imports()
    full = M["G"].DataReference(case["ref"]).resolve(_Graph("/S/instance"))
    if meth == "link":
        return {"op": "link", "dest": "/S/" + WD, "fs": fs, "ref": full}
    return {"op": "copy", "dest": "/S/" + WD, "fs": fs, "ref": full, "kind": case["kind"]}


def initial_fs(sb, case):
    if case["op"] == "deploy":
        sb.reset(())
    else:
        prepare(sb, case)
    if case["op"] == "extract":
        with open(os.path.join(sb.root, "instance/data/a.tar"), "w") as fh:
            fh.write("")
    return fs_rows(sb, sb.snapshot())


# ----------------------------------------------------------------------------------------
# generators
# ----------------------------------------------------------------------------------------

UP6 = "../../../../"   # from the working directory up to /S


def gen_name(rng, depth=None):
    n = depth or rng.choice([1, 1, 2, 2, 3])
    return "/".join(rng.choice(NAMES) for _ in range(n))


def decorate(rng, name):
    r = rng.random()
    if r < 0.08:
        return "./" + name
    if r < 0.12:
        return name.replace("/", "//", 1)
    if r < 0.16:
        return name.replace("/", "/./", 1)
    if r < 0.2:
        return "$R/" + WD + "/" + name
    if r < 0.23:
        # absolute name under a directory that only shares the working directory's name as a prefix
        return "$R/" + rng.choice(WD_SIBLINGS) + "/" + name
    return name


def gen_benign_members(rng, n):
    """descending archive: dirs, files, links that stay in their directory or below, hard links to earlier files"""
    ms = []
    files = []
    for _ in range(n):
        k = rng.choice(["file", "file", "file", "dir", "sym", "hard"])
        name = gen_name(rng)
        if k == "file":
            ms.append(["file", decorate(rng, name), ""])
            files.append(name)
        elif k == "dir":
            ms.append(["dir", decorate(rng, name) + rng.choice(["", "/"]), ""])
        elif k == "sym":
            ms.append(["sym", name, gen_name(rng, rng.choice([1, 2]))])
        elif files:
            ms.append(["hard", name, rng.choice(files)])
        else:
            ms.append(["hard", name, "nosuch-" + rng.choice(NAMES)])
    if rng.random() < 0.3:
        ms.insert(0, ["dir", rng.choice([".", "./"]), ""])
    return ms


def gen_hostile(rng):
    """templates that certainly leave the working directory when extracted naively (planted=True)"""
    t = rng.choice(["parent", "parent-mid", "abs-dest-parent", "sym-file", "sym-chain", "sym-abs", "hard-victim",
                    "shallow-link", "sym-dir-attrs", "abs-outside", "sym-outside-only",
                    "abs-sibling", "abs-sibling", "parent-sibling", "sym-abs-sibling", "sym-rel-sibling",
                    "hard-sibling", "abs-sibling-dir"])
    sib = rng.choice(WD_SIBLINGS)                 # e.g. <working directory>-x
    sibname = sib.rsplit("/", 1)[1]
    esc = rng.choice(["escaped.txt", "e/escaped.txt", "outside/new.txt"])
    ups = "../" * rng.randint(1, 3)
    if t == "parent":
        ms = [["file", ups + esc, ""]]
    elif t == "parent-mid":
        ms = [["file", gen_name(rng, 1) + "/../" + ups + esc, ""]]
    elif t == "abs-dest-parent":
        ms = [["file", "$R/" + WD + "/" + ups + esc, ""]]
    elif t == "sym-file":
        ms = [["sym", "l", ups.rstrip("/")], ["file", "l/" + esc, ""]]
    elif t == "sym-chain":
        ms = [["sym", "l1", "l2"], ["sym", "l2", ups.rstrip("/")], ["file", "l1/" + esc, ""]]
    elif t == "sym-abs":
        ms = [["sym", "l", "$R/outside"], ["file", "l/new.txt", ""]]
    elif t == "hard-victim":
        ms = [["hard", "h", UP6 + "outside/victim.txt"], ["file", "h", ""]]
    elif t == "shallow-link":
        ms = [["dir", "a/b", ""], ["sym", "a/b/c", "../.."], ["file", "a/b/c/../" + esc, ""]]
    elif t == "sym-dir-attrs":
        ms = [["sym", "l", UP6 + "outside/dir"], ["dir", "l", ""], ["file", "l/new.txt", ""]]
    elif t == "abs-outside":
        ms = [["file", "$R/outside/abs.txt", ""]]
    elif t == "abs-sibling":
        # textually the name starts with the working directory's path (without the separator)
        ms = [["file", "$R/" + sib + "/" + rng.choice(["evil", "keep.txt", "sub/evil", "new/deep/evil"]), ""]]
    elif t == "abs-sibling-dir":
        ms = [["dir", "$R/" + sib + rng.choice(["", "/", "/newdir"]), ""], ["file", "$R/" + sib + "/newdir/evil", ""]]
    elif t == "parent-sibling":
        ms = [["file", "../" + sibname + "/" + rng.choice(["evil", "keep.txt"]), ""]]
    elif t == "sym-abs-sibling":
        ms = [["sym", "l", "$R/" + sib], ["file", "l/" + rng.choice(["new.txt", "keep.txt", "sub/new.txt"]), ""]]
    elif t == "sym-rel-sibling":
        ms = [["sym", "l", "../" + sibname], ["file", "l/new.txt", ""]]
    elif t == "hard-sibling":
        ms = [["hard", "h", rng.choice(["../" + sibname, "$R/" + sib]) + "/keep.txt"], ["file", "h", ""]]
    else:
        ms = [["sym", "l", UP6 + "outside"]]
    planted = t not in ("abs-outside", "sym-outside-only", "abs-sibling", "abs-sibling-dir")
    pre = gen_benign_members(rng, rng.randint(0, 3))
    post = gen_benign_members(rng, rng.randint(0, 2))
    # benign members must not shadow the planted names
    pre = [m for m in pre if not m[1].lstrip("./").startswith(("l", "h", "a"))]
    return t, pre + ms + post, planted


def _norm_rel(parts):
    """textual normal form of a relative component list; `..` survives only in front"""
    out = []
    for q in parts:
        if q in ("", "."):
            continue
        if q == ".." and out and out[-1] != "..":
            out.pop()
        else:
            out.append(q)
    return out


CH_DIRS = ["a", "b", "c", "d", "sub"]
CH_LINKS = ["s", "t", "esc", "l", "u"]


def gen_chain(rng):
    """link chains of depth 2-4: every link member after the first is placed THROUGH an earlier link member
    (the directory part of its name continues the name of an earlier link), or is a hard link to an earlier link
    (a second name of that link in another directory), or has a target that passes through an earlier link.
    No member name has a parent segment or is absolute and no link target is absolute.  Styles:
      confined   - every target has parent segments but is textually confined (normpath against the directory
                   of the name / the archive root stays under the destination)
      mid        - as confined, the parent segments come after a leading name (`d/../..`)
      overshoot  - one target leaves the destination already textually
      descending - no parent segment at all (accepted by the check; exercised through the links)
      mixed      - a random mix
    then files / directories / links beneath the last link.  `real` tracks, relative to the working directory,
    where the kernel puts things (leading `..` = outside): planted = the payload certainly lands outside when
    the archive is extracted unchecked."""
    depth = rng.randint(2, 4)
    style = rng.choice(["confined", "confined", "confined", "mid", "overshoot", "descending", "descending", "mixed"])
    k = rng.randint(1, 3)
    base = [rng.choice(CH_DIRS) for _ in range(k)]
    ms = []
    r = rng.random()
    if r < 0.35:
        ms.append(["dir", "/".join(base) + rng.choice(["", "/"]), ""])
    elif r < 0.5:
        ms.append(["file", "/".join(base + ["f0"]), ""])
    dirs_made = ["/".join(base[:i]) for i in range(1, k + 1)]
    cur = list(base)           # textual directory of the next link
    real = list(base)          # where that directory really is, relative to the working directory
    links = []                 # (textual name, real directory holding it, link text components)
    used = set()
    overshoot_at = rng.randrange(depth) if style == "overshoot" else -1
    replaced_dir = False
    for i in range(depth):
        n = rng.choice([x for x in CH_LINKS if x not in used] or CH_LINKS)
        used.add(n)
        st = style if style != "mixed" else rng.choice(["confined", "confined", "descending"])
        midp = 0.2
        if st == "mid":
            st, midp = "confined", 0.9
        kind = "sym"
        q = rng.random()
        if links and q < 0.2:
            kind = "hard"            # second name for an earlier link, in the directory reached so far
        elif links and q < 0.35 and st != "descending":
            kind = "via"             # symlink whose target goes through an earlier link and then up
        if i == 0 and rng.random() < 0.08 and len(cur) >= 1 and not replaced_dir:
            # directory replaced by a link: the link takes the name of a directory extracted just before
            ms.append(["dir", "/".join(cur + [n]), ""])
            if rng.random() < 0.5:
                ms.append(["file", "/".join(cur + [n, "in.txt"]), ""])
            replaced_dir = True
        if kind == "hard":
            lname, ldir, ltext = rng.choice(links)
            # sometimes at the archive root, so that the copied text means something else there
            if len(cur) > 1 and rng.random() < 0.5:
                cur, real = [], []
            ms.append(["hard", "/".join(cur + [n]), lname])
            text = ltext
        elif kind == "via":
            # placed at the archive root; target = an earlier link (by its textual name) followed by `..`:
            # textually that is the directory holding the earlier link or its parent, really it is above
            # whatever the earlier link points to
            lname, ldir, ltext = rng.choice(links)
            ups = rng.randint(1, 2)
            text = lname.split("/") + [".."] * ups
            cur, real = [], []
            ms.append(["sym", n, "/".join(text)])
            links.append((n, [], text))
            cur = [n]
            real = _norm_rel(_norm_rel(ldir + ltext) + [".."] * ups)
            continue
        else:
            if st == "descending":
                text = [rng.choice(CH_DIRS) for _ in range(rng.choice([1, 1, 2]))]
                if rng.random() < 0.3 and dirs_made and not real:
                    text = rng.choice(dirs_made).split("/")
                elif rng.random() < 0.7:
                    # make the target exist (created through the links so far)
                    ms.append(["dir", "/".join(cur + text), ""])
            else:
                room = len(cur)                      # textual depth of the directory holding the link
                if i == overshoot_at or room == 0:
                    u = room + rng.randint(1, 2)
                else:
                    u = rng.randint(1, min(room, 2))
                text = [".."] * u
                q2 = rng.random()
                if q2 < midp:
                    # parent segments in the middle of the text: first down into a directory that exists
                    # (created just before, through the links so far), then up past where the link is
                    down = rng.choice(CH_DIRS)
                    ms.append(["dir", "/".join(cur + [down]), ""])
                    text = [down, ".."] + text
                elif q2 < midp + 0.3:
                    text = text + [rng.choice(CH_DIRS)]
            ms.append(["sym", "/".join(cur + [n]), "/".join(text)])
        links.append(("/".join(cur + [n]), list(real), text))
        real = _norm_rel(real + text)
        cur = cur + [n]
        # now and then continue through names that really exist where the link leads
        if real and real[0] != ".." and rng.random() < 0.25 and "/".join(real) in dirs_made and len(real) < k:
            nxt = base[len(real)]
            cur, real = cur + [nxt], real + [nxt]
    # payload beneath the last link
    outside = bool(real) and real[0] == ".."
    pay = rng.choice(["file", "file", "file-deep", "dir", "sym", "dir+file", "hard"])
    leaf = rng.choice(["PWNED", "escaped.txt", "x.txt", "keep.txt"])
    if pay == "file":
        ms.append(["file", "/".join(cur + [leaf]), ""])
    elif pay == "file-deep":
        ms.append(["file", "/".join(cur + ["e", leaf]), ""])
    elif pay == "dir":
        ms.append(["dir", "/".join(cur + ["newdir"]), ""])
    elif pay == "sym":
        ms.append(["sym", "/".join(cur + ["nl"]), rng.choice(["x", "a/b", "keep.txt"])])
    elif pay == "dir+file":
        ms.append(["dir", "/".join(cur + ["newdir"]), ""])
        ms.append(["file", "/".join(cur + ["newdir", leaf]), ""])
    else:
        ms.append(["file", "top.txt", ""])
        ms.append(["hard", "/".join(cur + ["hl"]), "top.txt"])
    pre = gen_benign_members(rng, rng.randint(0, 2)) if rng.random() < 0.4 else []
    post = gen_benign_members(rng, rng.randint(0, 2)) if rng.random() < 0.3 else []

    def top(name):
        name = name.replace("$R/" + WD + "/", "")
        return [q for q in name.split("/") if q not in ("", ".")][:1]
    pre = [m for m in pre if top(m[1]) and top(m[1])[0] not in (base[0], "top.txt") + tuple(CH_LINKS)]
    planted = outside and not replaced_dir
    return style + ":d%d" % depth, pre + ms + post, planted


def gen_random_members(rng, n):
    ms = []
    linknames = []
    for _ in range(n):
        k = rng.choice(["file", "file", "dir", "sym", "hard"])
        name = gen_name(rng)
        if linknames and rng.random() < 0.3:
            # placed through an earlier link member
            name = rng.choice(linknames) + "/" + gen_name(rng, rng.choice([1, 1, 2]))
        if rng.random() < 0.25:
            parts = name.split("/")
            parts.insert(rng.randint(0, len(parts)), "..")
            name = "/".join(parts)
        tgt = ""
        if k in ("sym", "hard"):
            tgt = gen_name(rng, rng.choice([1, 2]))
            r = rng.random()
            if r < 0.3:
                tgt = "../" * rng.randint(1, 2) + tgt
            elif r < 0.4:
                tgt = "$R/" + rng.choice(["outside", "outside/dir", WD, WD + "/sub"] + WD_SIBLINGS)
            elif r < 0.5:
                tgt = "../" * rng.randint(1, 2)
                tgt = tgt.rstrip("/")
            elif r < 0.6 and linknames:
                tgt = rng.choice(linknames) + rng.choice(["", "/..", "/" + rng.choice(NAMES)])
            if ".." not in name.split("/"):
                linknames.append(name)
        ms.append([k, decorate(rng, name), tgt])
    return ms


def gen_pre(rng):
    pre = []
    if rng.random() < 0.5:
        pre.append(("file", WD + "/keep.txt", ""))
    if rng.random() < 0.4:
        pre.append(("dir", WD + "/sub", ""))
    if rng.random() < 0.2:
        pre.append(("link", WD + "/l", "sub"))
    return pre


STAGED_CHOICES = [
    # (how the input of the same component was staged, name it has in the working directory, is it a link)
    ("ref", "data/d1:link", "d1", True),
    ("ref", "data/d1:link", "d1", True),
    ("ref", "data/f1.txt:link", "f1.txt", True),
    ("ref", "data/d1:copy", "d1", False),
    ("ref", "data/f1.txt:copy", "f1.txt", False),
    # what link staging of a producer reference (`stage0.producer:link`) leaves: WD/producer -> <its directory>
    ("pre", ("link", WD + "/producer", "$R/" + PRODUCER), "producer", True),
]


def gen_staged(rng):
    """inputs of the same component staged before the archive -> (pre entries, staged refs, names in WD)"""
    pre, staged, names = [], [], []
    for how, what, name, _is_link in rng.sample(STAGED_CHOICES, rng.choice([1, 1, 2])):
        if name in names:
            continue
        names.append(name)
        if how == "ref":
            staged.append(what)
        else:
            pre.append(what)
    return pre, staged, names


def gen_staged_members(rng, names):
    """archive members beneath / through / onto the names that the earlier staging created"""
    ms = []
    for _ in range(rng.randint(1, 3)):
        n = rng.choice(names)
        leaf = rng.choice(["evil", "f", "x.txt", "out.txt", "sub/x.txt", "newdir/deep/x.txt"])
        t = rng.choice(["file", "file", "file", "dir", "sym", "hard", "onto", "dir-onto", "via-sym", "via-hard"])
        if t == "file":
            ms.append(["file", decorate(rng, n + "/" + leaf), ""])
        elif t == "dir":
            ms.append(["dir", n + "/" + rng.choice(["newdir", "sub", "newdir/deep"]), ""])
        elif t == "sym":
            ms.append(["sym", n + "/" + rng.choice(["nl", "f"]), rng.choice(["x", "f", "a/b"])])
        elif t == "hard":
            ms.append(["file", "top.txt", ""])
            ms.append(["hard", n + "/hl", "top.txt"])
        elif t == "onto":
            ms.append(["file", n, ""])                       # a file member with the very name
        elif t == "dir-onto":
            ms.append(["dir", n + rng.choice(["", "/"]), ""])  # a directory member with the very name
            if rng.random() < 0.5:
                ms.append(["file", n + "/" + leaf, ""])
        elif t == "via-sym":
            ms.append(["sym", "x", n])                       # a descending archive link to the staged name
            ms.append(["file", "x/" + leaf, ""])
        else:
            ms.append(["hard", "h2", n + "/" + rng.choice(["f", "out.txt"])])   # second name of a staged file
            ms.append(["file", "h2", ""])
    return ms


def gen_extract_case(rng):
    r = rng.random()
    if r < 0.3:
        ms = gen_benign_members(rng, rng.randint(1, 7))
        case = {"op": "extract", "class": "benign", "members": ms, "planted": False, "pre": gen_pre(rng)}
    elif r < 0.55:
        t, ms, planted = gen_hostile(rng)
        case = {"op": "extract", "class": "hostile:" + t, "members": ms, "planted": planted, "pre": gen_pre(rng)}
    elif r < 0.82:
        t, ms, planted = gen_chain(rng)
        case = {"op": "extract", "class": "chain:" + t, "members": ms, "planted": planted, "pre": gen_pre(rng)}
    else:
        ms = gen_random_members(rng, rng.randint(1, 6))
        case = {"op": "extract", "class": "random", "members": ms, "planted": False, "pre": gen_pre(rng)}
    if rng.random() < 0.22:
        # the working directory already holds other inputs of the same component (Job.stageIn stages every
        # reference of the component into the same directory, one after the other)
        pre, staged, names = gen_staged(rng)
        case["pre"] = case["pre"] + pre
        case["staged"] = staged
        if rng.random() < 0.75:
            extra = gen_staged_members(rng, names)
            at = rng.randint(0, len(case["members"])) if case["class"] != "benign" else len(case["members"])
            if rng.random() < 0.4:
                case["members"] = extra                      # nothing but members aimed at the staged names
                case["planted"] = False
            else:
                case["members"] = case["members"][:at] + extra + case["members"][at:]
        case["class"] = "staged+" + case["class"]
    return case


KEYS = ["a", "b", "data", "conf", "x"]


def gen_key(rng):
    n = rng.choice([1, 1, 1, 2, 2, 3])
    parts = [rng.choice(KEYS) for _ in range(n)]
    r = rng.random()
    if r < 0.18:
        parts.insert(rng.randint(0, len(parts)), "..")
    elif r < 0.22:
        parts = ["..", ".."] + parts
    elif r < 0.27:
        return "$R/outside/" + "/".join(parts)
    elif r < 0.32:
        return "./" + "/".join(parts)
    elif r < 0.36 and len(parts) > 1:
        return "//".join(parts)
    return "/".join(parts)


def gen_source(rng, key_is_file_ok):
    src = rng.choice(["src1", "src2", "$R/pkg/src1", "src1"])
    meth = rng.choice([":copy", ":link", ":link", ""])
    if meth == ":link":
        r = rng.random()
        if r < 0.15:
            src = "file.txt"
        elif r < 0.25:
            src = "nosrc"
        elif r < 0.4:
            # a directory next to the instance directory whose name extends (or is a prefix of) its name
            src = "$R/" + rng.choice(INST_SIBLINGS) + rng.choice(["", "", "/sub"])
        elif r < 0.47:
            # a directory of the instance itself (beneath the target: nesting under it is legitimate)
            src = "$R/" + INST + rng.choice(["", "/a", "/data"])
    return src + meth


def gen_deploy_case(rng):
    r = rng.random()
    if r < 0.25:
        # templates of the known escapes + near misses
        t = rng.choice(["parent", "nested-under-link", "conf-link", "conf-file-link", "up-through-link", "nested-copy",
                        "nested-under-sibling-link", "nested-under-sibling-link", "conf-sibling-link",
                        "nested-under-inside-link", "relative-sibling-link"])
        sib = "$R/" + rng.choice(INST_SIBLINGS)
        k0 = rng.choice(KEYS[:3] + ["x"])
        if t == "parent":
            ents = [["../" * rng.randint(1, 2) + rng.choice(KEYS), "src1" + rng.choice(["", ":copy", ":link"])]]
        elif t == "nested-under-link":
            ents = [["a", "src1:link"], ["a/" + rng.choice(KEYS), "src2" + rng.choice(["", ":copy", ":link"])]]
        elif t == "conf-link":
            ents = [["conf", "src1:link"]]
        elif t == "conf-file-link":
            ents = [["conf", "src1:copy"], ["conf/flowir_package.yaml", "file.txt:link"]]
        elif t == "up-through-link":
            ents = [["a", "src1:link"], ["a/../x", "src2:copy"]]
        elif t == "nested-under-sibling-link":
            # the real location of the nested key's parent starts, as TEXT, with the instance directory's path
            ents = [[k0, sib + rng.choice(["", "/sub"]) + ":link"],
                    [k0 + "/" + rng.choice(["extra", "extra/deep", "keep.txt/x", "sub"]),
                     "src2" + rng.choice(["", ":copy", ":link"])]]
            if rng.random() < 0.3:
                ents.insert(0, ["b" if k0 != "b" else "a", "src1:copy"])
        elif t == "conf-sibling-link":
            ents = [["conf", sib + ":link"]]
            if rng.random() < 0.4:
                ents.append(["conf/extra", "src1" + rng.choice(["", ":link"])])
        elif t == "nested-under-inside-link":
            # a link to a directory of the instance itself: nesting below it stays inside and is deployed
            ents = [["a", "src1:copy"], ["b", "$R/" + INST + "/a:link"], ["b/" + rng.choice(["c", "c/d"]), "src2:copy"]]
        elif t == "relative-sibling-link":
            # the link text is relative to the directory of the package file: pkg/../inst/<sibling>
            ents = [[k0, "../" + sib[3:] + ":link"], [k0 + "/extra", "src2:copy"]]
        else:
            ents = [["a/b/c", "src1"], ["a/b/d", "src2:link"], ["data", "src2:copy"]]
        cls = "template:" + t
    else:
        ents = []
        seen = set()
        for _ in range(rng.randint(1, 4)):
            k = gen_key(rng)
            if k in seen:
                continue
            seen.add(k)
            ents.append([k, gen_source(rng, True)])
        cls = "random"
    return {"op": "deploy", "class": cls, "entries": ents, "validate": rng.random() < 0.6}


def gen_copylink_case(rng):
    kind = rng.choice(["file", "dir"])
    meth = rng.choice(["copy", "copy", "link", "copyout"])
    ref = "data/f1.txt" if kind == "file" else rng.choice(["data/d1", "data/d1", "data/d1/"])
    pre = []
    r = rng.random()
    base = "f1.txt" if kind == "file" else "d1"
    if r < 0.2:
        pre.append(("file", WD + "/" + base, ""))
    elif r < 0.3:
        pre.append(("dir", WD + "/" + base, ""))
    elif r < 0.45:
        pre.append(("dir", WD + "/sub", ""))
        pre.append(("link", WD + "/" + base, "sub/through.txt"))
    return {"op": "stage", "class": meth + ":" + kind, "ref": ref + ":" + meth, "kind": kind, "pre": pre}


CORPUS = [
    {"op": "extract", "class": "corpus:C18a ../escaped.txt", "members": [["file", "../escaped.txt", ""]], "planted": True, "pre": []},
    {"op": "extract", "class": "corpus:C18b symlink+file", "members": [["sym", "l", ".."], ["file", "l/escaped.txt", ""]], "planted": True, "pre": []},
    {"op": "extract", "class": "corpus:C18b' hardlink+file", "members": [["hard", "h", UP6 + "outside/victim.txt"], ["file", "h", ""]], "planted": True, "pre": []},
    {"op": "extract", "class": "corpus:shallow link + ..", "members": [["dir", "a/b", ""], ["sym", "a/b/c", "../.."], ["file", "a/b/c/../escaped.txt", ""]], "planted": True, "pre": []},
    {"op": "extract", "class": "corpus:benign", "members": [["dir", "d", ""], ["file", "d/x", ""], ["sym", "l", "d"], ["file", "l/y", ""], ["hard", "h", "d/x"], ["file", "h", ""]], "planted": False, "pre": []},
    {"op": "extract", "class": "corpus:chain link placed through a link", "members": [["sym", "a/s", ".."], ["sym", "a/s/esc", ".."], ["file", "a/s/esc/PWNED", ""]], "planted": True, "pre": []},
    {"op": "extract", "class": "corpus:chain depth 3", "members": [["sym", "a/b/s", ".."], ["sym", "a/b/s/t", ".."], ["sym", "a/b/s/t/u", ".."], ["file", "a/b/s/t/u/PWNED", ""]], "planted": True, "pre": []},
    {"op": "extract", "class": "corpus:chain hard link to a link", "members": [["dir", "a/b", ""], ["sym", "a/b/s", "../.."], ["hard", "h", "a/b/s"], ["file", "h/PWNED", ""]], "planted": True, "pre": []},
    {"op": "extract", "class": "corpus:chain target through a link", "members": [["sym", "a/s", ".."], ["sym", "m", "a/s/.."], ["file", "m/PWNED", ""]], "planted": True, "pre": []},
    {"op": "extract", "class": "corpus:chain descending", "members": [["dir", "d/e", ""], ["sym", "l", "d"], ["sym", "l/m", "e"], ["file", "l/m/y", ""], ["hard", "h", "l/m"], ["file", "h/z", ""]], "planted": False, "pre": []},
    {"op": "extract", "class": "corpus:member beneath a link-staged input", "members": [["file", "d1/evil", ""]], "planted": False, "pre": [], "staged": ["data/d1:link"]},
    {"op": "extract", "class": "corpus:member beneath a copy-staged input", "members": [["file", "d1/evil", ""]], "planted": False, "pre": [], "staged": ["data/d1:copy"]},
    {"op": "extract", "class": "corpus:member through archive link and link-staged producer", "members": [["sym", "x", "producer"], ["file", "x/evil", ""]], "planted": False, "pre": [["link", WD + "/producer", "$R/" + PRODUCER]]},
    {"op": "deploy", "class": "corpus:C18c ../x", "entries": [["../x", "src1"]], "validate": True},
    {"op": "deploy", "class": "corpus:C18d nested under link", "entries": [["a", "src1:link"], ["a/b", "src2:copy"]], "validate": True},
    {"op": "deploy", "class": "corpus:C18e conf link", "entries": [["conf", "src1:link"]], "validate": True},
    {"op": "deploy", "class": "corpus:conf file link", "entries": [["conf", "src1:copy"], ["conf/flowir_package.yaml", "file.txt:link"]], "validate": False},
    {"op": "deploy", "class": "corpus:benign", "entries": [["a/b", "src1"], ["k", "src2:link"]], "validate": True},
    {"op": "deploy", "class": "corpus:nested under a link to a prefix-named sibling",
     "entries": [["data", "$R/" + INST + "-shared:link"], ["data/extra", "src1:copy"]], "validate": True},
    {"op": "deploy", "class": "corpus:conf linked to a prefix-named sibling",
     "entries": [["conf", "$R/" + INST + ".bak:link"]], "validate": True},
    {"op": "deploy", "class": "corpus:nested under a link into the instance",
     "entries": [["a", "src1:copy"], ["b", "$R/" + INST + "/a:link"], ["b/c", "src2:copy"]], "validate": True},
    {"op": "extract", "class": "corpus:absolute member under a prefix-named sibling",
     "members": [["file", "$R/" + WD + "-x/evil", ""]], "planted": False, "pre": []},
    {"op": "extract", "class": "corpus:link to a prefix-named sibling",
     "members": [["sym", "l", "$R/" + WD + "x"], ["file", "l/evil", ""]], "planted": True, "pre": []},
]


# ----------------------------------------------------------------------------------------
# checking
# ----------------------------------------------------------------------------------------

def inside_rel(case):
    return INST if case["op"] == "deploy" else WD


def strip_case(case):
    return {k: v for k, v in case.items()}


def run_cases(ctx, sb, cases):
    # 1. initial listings + model answers (repaired model; committed-algorithm model as safety filter)
    fss = [initial_fs(sb, c) for c in cases]
    fixed = ctx.model([model_request(c, fs, True) for c, fs in zip(cases, fss)])
    old = None
    if fixed is not None:
        reqs = [model_request(c, fs, False) for c, fs in zip(cases, fss) if c["op"] != "stage"]
        outs = iter(ctx.model(reqs))
        old = [next(outs) if c["op"] != "stage" else None for c in cases]
    for i, case in enumerate(cases):
        family = []
        if old is not None and old[i] is not None:
            if any(not (p == "/S" or p.startswith("/S/")) for p in old[i]["log"]):
                ctx.tag("dropped:would-leave-sandbox")
                continue
            if case["op"] == "extract":
                wd = "/S/" + WD
                leaves = any(not (p == wd or p.startswith(wd + "/")) for p in old[i]["log"])
                if leaves and old[i].get("normpathOk"):
                    # no `..`/absolute name, every link target textually confined, and yet unchecked extraction
                    # leaves the working directory: only links created by earlier members can do that
                    family.append("family:textually-confined-link-chain-escapes")
                elif leaves:
                    family.append("family:escapes-when-unchecked")
                if through_link_members(case):
                    family.append("family:member-placed-through-link-member")
        if case["op"] == "deploy":
            res, before, after = impl_deploy(sb, case)
        else:
            res, before, after = impl_stage(sb, case)
        bad = changed_outside(before, after, inside_rel(case))
        nontrivial = (len(case.get("members", case.get("entries", [1]))) >= 1) and (res != "missing")
        tags = ["op:" + case["op"], "class:" + case["class"].split(" ")[0], "impl:" + res] + family
        if after != before:
            tags.append("effect:changed-something")
        ctx.case(strip_case(case), nontrivial=nontrivial, tags=tags)
        # oracle (model independent): nothing outside the target changes; planted escapes are rejected
        if bad:
            ctx.fail(escape_slug(case, bad), strip_case(case),
                     {"result": res, "changed_outside": bad[:6], "outside_paths": [b[0] for b in bad[:80]],
                      "outside_paths_truncated": len(bad) > 80})
        elif res.startswith("other:") and (case.get("planted") or case["op"] == "deploy"):
            ctx.fail(case["op"] + "-raises-" + res.split(":", 1)[1] + "-instead-of-staging-or-packaging-error",
                     strip_case(case), {"result": res})
        if fixed is not None:
            m = fixed[i]
            ctx.tag("model:" + m["result"])
            if m["result"] == "linkConflict" or (m["result"] == "linkMissing" and hard_target_is_earlier_member(case)):
                # tarfile's copy-instead-of-link fallback (not modelled): oracle only
                ctx.tag("not-compared:tarfile-link-fallback")
                continue
            ctx.compare("(result, tree under /S) == Confine model (repaired)", strip_case(case),
                        {"result": m["result"], "tree": m["tree"]},
                        {"result": res, "tree": tree_of(sb, after)})
            # the model's log must cover what really changed (names created / content or link text modified)
            changed = sorted("/S/" + rel for rel in set(before) | set(after)
                             if before.get(rel, (None,))[:4] != after.get(rel, (None,))[:4])
            missing = [p for p in changed if p not in m["log"]]
            ctx.compare("changed entries ⊆ model log", strip_case(case), {"unlogged": []}, {"unlogged": missing})


def _member_key(n):
    return "/".join(_norm_rel(n.replace("$R/" + WD + "/", "").split("/")))


def through_link_members(case):
    """number of members whose name continues the name of an earlier symlink/hardlink member"""
    links, cnt = [], 0
    for k, n, _t in case.get("members", ()):
        key = _member_key(n)
        if any(key.startswith(l + "/") for l in links):
            cnt += 1
        if k in ("sym", "hard") and key:
            links.append(key)
    return cnt


def hard_target_is_earlier_member(case):
    """a hard link member whose target is not on disk but names an earlier member: tarfile extracts a copy of
    that member instead (TarFile._find_link_target), which the model does not describe"""
    seen = set()
    for k, n, t in case.get("members", ()):
        if k == "hard" and os.path.normpath(t) in seen:
            return True
        seen.add(os.path.normpath(n.replace("$R/" + WD + "/", "")))
    return False


SLUG_STAGED = "extract-writes-through-staged-link"


def staged_links(case):
    """name in the working directory -> sandbox-relative location it points to, for the links that link staging
    of another input of the same component created BEFORE the archive is extracted"""
    out = {}
    for ref in case.get("staged", ()):
        path, _, meth = ref.rpartition(":")
        if meth == "link" and path and not path.endswith("/"):
            out[os.path.basename(path)] = "instance/" + path
    for kind, rel, tgt in case.get("pre", ()):
        if kind == "link" and tgt.startswith("$R/") and rel.startswith(WD + "/") and "/" not in rel[len(WD) + 1:]:
            out[rel[len(WD) + 1:]] = tgt[3:]
    return out


def archive_is_textually_confined(case):
    """the acceptance rule the code documents, restated on the text of the archive: every member name is
    relative (or absolute under the working directory) without parent segment, every symlink/hardlink target is
    relative without parent segment"""
    for k, n, t in case.get("members", ()):
        if n.startswith("$R/" + WD + "/"):
            n = n[len("$R/" + WD + "/"):]
        if n.startswith(("/", "$R")) or ".." in n.split("/"):
            return False
        if k in ("sym", "hard") and (t.startswith(("/", "$R")) or ".." in t.split("/")):
            return False
    return True


def all_under_staged_link_targets(case, paths):
    tg = list(staged_links(case).values())
    return bool(tg) and all(any(p == t or p.startswith(t + "/") for t in tg) for p in paths)


def escape_slug(case, bad):
    if case["op"] == "deploy":
        return "deploy-writes-outside-instance-directory"
    if (case["op"] == "extract" and archive_is_textually_confined(case)
            and all_under_staged_link_targets(case, [b[0] for b in bad])):
        return SLUG_STAGED
    return case["op"] + "-writes-outside-working-directory"


def without_staged_links(case):
    """the same case with every link-staged input replaced by a copy of what it points to"""
    c2 = dict(case)
    c2["staged"] = [r[:-len(":link")] + ":copy" if r.endswith(":link") else r for r in case.get("staged", ())]
    pre = []
    for kind, rel, tgt in case.get("pre", ()):
        if kind == "link" and tgt.startswith("$R/"):
            pre.append(["dir", rel, ""])
            pre.append(["file", rel + "/out.txt", ""])
        else:
            pre.append([kind, rel, tgt])
    c2["pre"] = pre
    return c2


def c18_extract_through_staged_link(what, case, detail):
    """KNOWN finding C18-extract-through-staged-link, and nothing else: an archive that obeys the documented rule
    (no parent segment / absolute path in any member name or link target) is extracted into a working directory
    that already holds an absolute link made by link-staging another input of the same component; everything that
    changed outside the working directory lies at or below the target of such a link; and the very same archive
    changes nothing outside once those links are replaced by copies (re-run on the real code).  A failure that
    involves an archive link with a parent segment / absolute target, a member name with a parent segment, or a
    path elsewhere is not accepted."""
    if what != SLUG_STAGED or case.get("op") != "extract" or not detail:
        return False
    paths = detail.get("outside_paths")
    if not paths or detail.get("outside_paths_truncated"):
        return False
    if not archive_is_textually_confined(case) or not all_under_staged_link_targets(case, paths):
        return False
    base = tempfile.mkdtemp(prefix="c18-cls-")
    try:
        sb = Sandbox(base)
        _res, b, a = impl_stage(sb, case)
        if not changed_outside(b, a, WD):
            return False                                  # not reproducible: do not accept
        _res, b, a = impl_stage(sb, without_staged_links(case))
        return not changed_outside(b, a, WD)
    except Exception:  # noqa
        return False
    finally:
        shutil.rmtree(base, ignore_errors=True)


def shrinker_factory(_sb=None):
    """the shrinker runs from finish(), after run() has removed its scratch tree: it uses (and removes) its own"""
    def shrink(what, case):
        key = "members" if case["op"] == "extract" else ("entries" if case["op"] == "deploy" else None)
        if key is None or "-writes-" not in what:
            return case
        base = tempfile.mkdtemp(prefix="c18-shrink-")
        sb = Sandbox(base)

        def still(items):
            if not items:
                return False
            c2 = dict(case)
            c2[key] = items
            if case["op"] == "deploy":
                _res, b, a = impl_deploy(sb, c2)
            else:
                _res, b, a = impl_stage(sb, c2)
            bad = changed_outside(b, a, inside_rel(case))
            return bool(bad) and escape_slug(c2, bad) == what
        try:
            c3 = dict(case)
            c3[key] = common.shrink_list(case[key], still, max_steps=60)
            c3["pre"] = case.get("pre", [])
            return c3
        finally:
            shutil.rmtree(base, ignore_errors=True)
    return shrink


CLASSIFIERS = {"c18_extract_through_staged_link": c18_extract_through_staged_link}


def run(ctx):
    ctx.rule = ("cases = (a) tar archives of 1-20 members (file/dir/symlink/hardlink; names with parent segments at any "
                "position, absolute names under and outside the working directory, ./ and // spellings; link targets "
                "relative, with parent segments, absolute; 11 escape templates incl. link chains, hard link to a file "
                "outside, link to the working directory itself followed by ..; link chains of depth 2-4 in which every "
                "later link member is placed THROUGH an earlier link member (its name continues the earlier link's "
                "name), is a hard link to an earlier link member (second name in another directory) or has a target "
                "passing through an earlier link, with targets that have parent segments but are textually confined "
                "(leading, or after a leading name), overshoot, or are descending, a directory member replaced by a "
                "link member, then file/dir/symlink/hardlink members beneath the last link; benign descending "
                "archives; random mixes incl. names through earlier link members) "
                "extracted by the real StageReference into a working directory with optional existing content; about "
                "a fifth of the archives are extracted into a working directory that already holds other inputs of the "
                "same component staged by the real StageReference (data/d1:link, data/f1.txt:link, :copy of both, the "
                "link to a producer directory) and get members beneath / onto / through those names (files, dirs, "
                "symlinks, hardlinks, descending archive links to them, hardlinks to files behind them); "
                "the sandbox holds siblings of the working directory and of the instance directory whose names extend the "
                "target's name (comp-x, compx, comp.bak; new.instance-shared, .bak, 2) or are a prefix of it: absolute "
                "member names, symlink/hardlink targets (absolute, ../sibling) and manifest link sources point there; "
                "(b) manifests of 1-4 entries (keys nested / with .. / absolute / ./ and //; copy and link methods; "
                "directory, file and missing sources; keys nested under linked keys; conf linked; keys linked to a "
                "prefix-named sibling of the instance directory or to a directory of the instance itself, with nested "
                "keys below) loaded with the real "
                "Manifest.validate (or not) and deployed by the real expandPackageToDirectory; (c) copy/copyout/link "
                "staging of a file or directory with existing same-name file/dir/link. non-trivial = the operation "
                "reached the code under test (reference exists); distinct by canonical JSON of the case. Every case: "
                "full recursive listing (kind, link text, size, sha1, mtime, mode) of the sandbox before/after.")
    ctx.assumptions = [
        "sandbox paths are real (no symlinked /tmp): location.path == realpath(location.path)",
        "known finding C18-extract-through-staged-link: writes through an absolute link that link-staging of another "
        "input of the same component left in the working directory are accepted by the classifier only when the "
        "archive has no parent segment / absolute path in any name or link target, every changed outside path lies "
        "under such a link's target, and the same archive changes nothing outside once the links are replaced by "
        "copies (re-run on the real code)",
        "hard link members name only earlier regular-file members or names absent from the archive (tarfile's "
        "copy-instead-of-link fallback is not modelled)",
        "link chains (depth <= 4 plus random members) stay far below the kernel limit of 40 / the model fuel of 96 steps",
        "manifest sources: directories holding one file `f`, one regular file, or missing (link only)",
    ]
    ctx.trusted.append("C18: tarfile.extractall (fully_trusted filter of Python 3.12), shutil.copytree/copy/copyfile, "
                       "os.symlink/os.link/os.makedirs, os.path.realpath path semantics as modelled in Model/Confine.lean "
                       "(resolve/descend/walk); exercised by the tree comparison on every case")
    ctx.trusted.append("C18: stub WorkflowGraph/root storage resolving direct references `data/...` (Job.stageIn's "
                       "dispatch over references is not driven, only the StageReference it calls)")
    rng = ctx.rng
    quick = ctx.tier == "quick"
    base = tempfile.mkdtemp(prefix="c18-")
    sb = Sandbox(base)
    ctx.shrinker = shrinker_factory(sb)
    try:
        cases = [dict(c) for c in CORPUS]
        n_ex, n_dep, n_cl = (500, 350, 80) if quick else (6000, 4000, 400)
        cases += [gen_extract_case(rng) for _ in range(n_ex)]
        cases += [gen_deploy_case(rng) for _ in range(n_dep)]
        cases += [gen_copylink_case(rng) for _ in range(n_cl)]
        run_cases(ctx, sb, cases)
        ctx.extra["link_chain_family"] = {
            "generated_chain_archives": sum(v for k, v in ctx.tags.items() if k.startswith("class:chain:")),
            "members_placed_through_link_members": ctx.tags.get("family:member-placed-through-link-member", 0),
            "accepted_by_textual_normalisation_and_escaping_when_unchecked":
                ctx.tags.get("family:textually-confined-link-chain-escapes", 0),
        }
    finally:
        shutil.rmtree(base, ignore_errors=True)


def replay(ctx, doc):
    if doc.get("input"):
        cases = [doc["input"]]
    else:
        cases = [b["input"] for b in doc["no_longer_checks"] if b.get("kind") == "correspondence"]
    base = tempfile.mkdtemp(prefix="c18-")
    try:
        run_cases(ctx, Sandbox(base), cases)
    finally:
        shutil.rmtree(base, ignore_errors=True)
